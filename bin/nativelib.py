"""Where the native helper crate (engines B and S, replay tools) is built from.

Normally /verif/native, whose path dependency points at /repo.  bin/seedtest sets VERIF_REPO/VERIF_BUILD
to run the same checks against a scratch worktree carrying a seeded change; the helper crate is then
copied into that build directory with the dependency path rewritten.  Registered commands never set them.
"""
import os, shutil

ROOT = '/verif'
REPO = os.environ.get('VERIF_REPO', '/repo')
BUILD = os.environ.get('VERIF_BUILD') or os.path.join(ROOT, '.build')


def native_dir():
    if REPO == '/repo':
        return os.path.join(ROOT, 'native')
    dst = os.path.join(BUILD, 'native-src')
    if os.path.exists(dst):
        shutil.rmtree(dst)
    shutil.copytree(os.path.join(ROOT, 'native'), dst, ignore=shutil.ignore_patterns('target'))
    p = os.path.join(dst, 'Cargo.toml')
    s = open(p).read().replace('path = "/repo/minijinja"', 'path = "%s/minijinja"' % REPO)
    s = s.replace('path = "/repo/minijinja-autoreload"', 'path = "%s/minijinja-autoreload"' % REPO)
    open(p, 'w').write(s)
    return dst


def replay_dir():
    """Replay files of a run against /repo go to /verif/evidence/replay; a seedtest run keeps them in its own build dir."""
    d = os.path.join(ROOT, 'evidence', 'replay') if REPO == '/repo' else os.path.join(BUILD, 'replay')
    os.makedirs(d, exist_ok=True)
    return d
