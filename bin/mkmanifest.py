#!/usr/bin/env python3
"""Regenerates /verif/MANIFEST.json from the tables below (kept in one place so that the
manifest, the claimed levels and the not_applicable list stay consistent)."""
import json, subprocess

K = "Kani 0.68 -> CBMC 6.11 (cadical): SAT-based bounded model checking of the real functions compiled from /repo's working tree, harnesses over kani::any() inputs, unwinding assertions on, counterexamples replayed natively"
B = "z3 (python3-vt) typing/path encoding of the instruction streams emitted by the real compiler (dumped via unstable_machinery_serde), effects extracted from vm/mod.rs; counterexample paths replayed on the real VM"

CLAIMS = {
 'C01': ('K', 'model_checking', "Kernel claim: for the arithmetic/index/allocation kernels reachable from templates (negative-step slice index computation, subscripts on strings/bytes with any i64 index, range() with any isize bounds, loop.cycle/loop attributes at any position, integer operators on all representation pairs, batch capacity) CBMC proves the absence of panics, overflow traps, out-of-bounds indexing and capacity overflows for ALL argument values inside the stated sizes. Whole-render crash freedom and native stack depth are outside the claim.", "Kani/CBMC translation of MIR and rustc std trusted; only the listed kernels, not their composition in the VM; allocation never fails in the model"),
 'C02': ('K', 'model_checking', "Kernel claim on the single printing choke point: write_escaped/HtmlEscape/needs_html_escaping agree and escape every unsafe string of up to 2 (thorough: 3) arbitrary ASCII bytes exactly once (decoding the output with the entity table returns the input, no raw metacharacter), safe strings are written verbatim, captures are marked safe iff escaping was on when they ended. Provenance through every VM data path is outside the claim.", "bytes < 0x80 only (multi-byte UTF-8 passes through HtmlEscape untouched by construction of its byte test); filters' safety flow not covered"),
 'C03': ('K', 'model_checking', "Two clauses decided on kernels: loop.* attributes equal their arithmetic definition for EVERY position and length (symbolic usize), previtem/nextitem are the neighbours under any interleaving of look-aheads for sequences of 0..=2 (thorough 3) items, LoopState advances by exactly one. The differential statement over all programs is outside the claim.", "composition of codegen/VM not covered; sequences of up to 3 items for the adjacent-item wrapper"),
 'C04': ('K', 'model_checking', "The constant folder's re-implemented operators (and, or, comparisons) equal the VM's semantics for every fixed operand in {none,false,true,'','a'} against ANY i64 and for ANY pair of i64 literals; delegated arithmetic and the not-folded-on-failure clause are in the thorough tier.", "operand alphabet is scalar; lists/maps/filters in constant expressions and Expr::as_const's recursion are outside"),
 'C05': ('B', 'translation_validation', "The code generator's output is validated against a balance specification: for every program of a generated family (all chains of <=2 nested scoped constructs x 11 leaves incl. break/continue/recursion, a seeded sample (thorough: all) of depth-3 chains, and every fixture of tests/inputs) z3 decides whether a typing of the emitted instruction stream exists (frame depth + frame kinds, capture depth, auto-escape depth, operand depth per pc, effects extracted from vm/mod.rs). sat = every path of every length restores scope/capture/escape state and never pops a foreign frame or operand; unsat = two conflicting paths, replayed on the real VM before being reported. The recursive-loop-with-else operand leak is a recorded known finding.", "templates outside the family; VM arms are modelled by their extracted effects (conditional effects are treated demonically and replayed); nested evaluations (macro call, include, super) rely on State::with_execution_state, which is not model-checked here"),
 'C18': ('B', 'translation_validation', "For every program of a generated single-file family (chains of <=2 nested constructs incl. self-referential set/with/set-block, filter and autoescape arguments, plus a sample of depth 3) the emitted instruction stream is executed symbolically (all branch outcomes free, loops unrolled 2-3x, per-frame bound-name sets as bit-vectors) and z3 decides whether some path reaches a Lookup of a name that no visible frame binds and that the real undeclared_variables() did not report; sat is replayed with a key-recording context on the real engine.", "macros, call blocks and multi-template statements are outside the fragment; nested (a.b) mode precision not checked; loops unrolled, not inductive"),
 'C07': ('K', 'model_checking', "Order/equality(/hash) laws proved per pair of value kinds with fully symbolic payloads (all 64/128-bit integers, all non-NaN floats, 2-byte strings, none/undefined/bool), exact int/float comparison kernels proved against an integer reference for ALL finite f64 x ALL i128/u128. Collection filters (sort/unique/groupby...) rest on these laws plus std's algorithms and are outside; bool-vs-number equality/order disagreement is a recorded known finding.", "pairs not triples in the quick tier; objects, sequences and maps as compared values outside; hash law only where the hash harness finishes (I64, bool, none, strings)"),
 'C08': ('K', 'model_checking', "For every listed pair of integer representations and fully symbolic payloads, + - * // % ** and unary minus return the mathematically exact result (sign+u128 magnitude reference) or an error, an error only when an operand or the result leaves [-2^127, 2^127); Euclidean convention checked against i128::div_euclid/rem_euclid and by multiplication on all i8 pairs; int/float comparison exact at kernel and Value level. Float // and % are outside (SAT does not finish).", "128x128-bit multiplication and U128 additions only in the thorough tier; pow only for exponents 2 and 3; literal lexing trusted"),
 'C09': ('K', 'model_checking', "Index selection of slices equals CPython's PySlice_AdjustIndices for len <= 6 and ANY i64 start/stop/step (forward via get_offset_and_len + the meaning of skip/take/step_by, backward via range_step_backwards), subscripts on strings/bytes follow Python for ANY i64 index. Kind preservation of ops::slice's dispatcher is read, not proved.", "len <= 6; step == i64::MIN only through unsigned_abs at the call sites (read); tuples/lists/iterables share the same two kernels"),
 'C11': ('K', 'model_checking', "One inductive step of the depth accounting from an arbitrary state: depth never exceeds the configured limit (<= 500 for any requested limit), a refused increment leaves the state unchanged. Engine S then decides with z3, over ALL mixtures of recursion edges and limits 1..500, whether the limit is low enough for a 2 MiB native stack, from per-level costs measured on the real dev and release builds on every run; the dev-profile block-call overflow it finds is replayed (child process aborts) and is a recorded known finding, and a second query with that edge excluded must be unsat.", "push_frame's 6-line wrapper around check_depth is read; engine S measures stack costs (it does not execute them symbolically), assumes additivity (checked at limits 100 and 500) and a 96 KiB base / 64 KiB guard"),
 'C14': ('K', 'model_checking', "Location kernels: Tokenizer::advance moves the line by exactly the number of newlines and the column by characters from ANY (line, column) with saturation at 65535 (the kernel of 'inserting N lines shifts the reported line by N'), and a syntax error can be built at ANY tokenizer position without overflow (found and repaired: column >= 65535 panicked).", "span expansion in the parser, process_err attachment, the instruction->line side tables and error formatting are outside; advance is checked on four fixed texts (plain, multi-byte, two newlines, CRLF) from symbolic positions"),
 'C12': ('K', 'model_checking', "The documented matrix cell by cell and monotonicity along Strict >= SemiStrict >= Lenient >= Chainable for the UndefinedBehavior helpers every use site consults, over 4 modes x {undefined, silent undefined, none, false, 0, ''}.", "that each of the ~60 VM/filter sites calls the right helper is a whole-render fact outside the claim"),
 'C13': ('K', 'model_checking', "FuelTracker for EVERY u64 budget and every sequence of up to 5 zero/unit-cost instructions: threshold behaviour, monotone in the budget, consumed+remaining == budget, once out of fuel always out of fuel; charge is 0 or 1 per instruction shape.", "that eval_impl charges each instruction exactly once and that nested evaluations share the tracker is read, not proved"),
 'C20': ('K', 'model_checking', "Sequentialised schedules (acquirers are serialised by the cached_env mutex, a request is one atomic step): the first acquire with a symbolic request arriving during the rebuild (issued inside the creator) keeps that request pending and creates exactly once; one acquire from the pre-state 'environment cached' without a request does not call the creator. Re-creation / fast-reload steps (which drop or clear an Environment) only in the thorough tier.", "Kani executes no threads: interleavings finer than the reloader's lock acquisitions (e.g. a requester racing for the notifier lock) are outside; two concurrent acquirers are serialised by the mutex the code holds (read)"),
 'C19': ('K', 'model_checking', "WriteWrapper+Output over a sink that fails (Err(kind) / zero-length write / short writes) at a symbolic call index: delivered bytes are a prefix of the non-failing output, nothing is written after the failure, the failing operation returns Err and the sink's own error is stored; take_err substitutes a WriteFailure (with source) whatever kind the engine error was wrapped into, exactly once; escaped emission over the same Output (C02 harnesses).", "Error::with_source stubbed in the take_err harnesses (Arc<dyn Error> construction does not get through CBMC); that the VM stops issuing writes after an error is read from ok!/ctx_ok! at the two emit sites"),
}
NA = {
 'C06': "whole multi-template renders (block resolution along chains, include/import/extends through the loader): any harness reaching vm::eval does not get through CBMC's symbolic execution even for three straight-line instructions (DESIGN.md section 0), and no isolated kernel states a clause of the property",
 'C15': "histories over the template store need parsing+compiling inside the harness (measured: ~3 min of CBMC time per insert, MemoMap/Mutex on top) and the remaining clauses are thread schedules Kani cannot execute",
 'C16': "generic serde Serializer/Deserializer recursion monomorphised per user type plus serde_json/ryu float printing: not encodable within the caps; no isolated kernel states a clause of the property",
}
PENDING = {
 'C10': "the tokenizer does not get through CBMC on even 3 symbolic bytes (str pattern API, measured) and the byte-level kernels that do (Whitespace::from_byte) state no clause of the property on their own; Aho-Corasick delimiter search is third-party automaton code",
 'C17': "safe_join harness does not finish within caps yet (str::split on symbolic bytes); see DESIGN.md",
}

def main():
    hooks = subprocess.run(['git', '-C', '/repo', 'log', '--format=%h %s', '--grep=^verif hook'], capture_output=True, text=True).stdout.strip().split('\n')
    checks = []
    for pid, (eng, level, text, note) in sorted(CLAIMS.items()):
        checks.append({
            'property_id': pid,
            'quick_cmd': 'bin/check %s --tier quick' % pid,
            'thorough_cmd': 'bin/check %s --tier thorough' % pid,
            'evidence_file': '/verif/evidence/%s.json' % pid,
            'replay_cmd_template': 'bin/check %s --replay {path}' % pid,
            'engine': eng,
            'level_claimed': {'category': level, 'text': text, 'design_ref': 'DESIGN.md section 2, %s' % pid},
            'level_note': note,
            'technique': K if eng == 'K' else B,
        })
    na = [{'property_id': k, 'reason': v} for k, v in sorted({**NA, **{k: v for k, v in PENDING.items() if k not in CLAIMS}}.items())]
    m = {
        'version': 1,
        'setup_cmd': 'bin/setup',
        'hooks': {
            'guard': 'cfg(kani)',
            'enable': 'cargo kani sets --cfg kani; each hooked source file then includes its harness module #[path="/verif/kani/<file>.rs"]; nothing else enables it',
            'baseline_off_cmd': 'cd /repo && cargo test --workspace --no-fail-fast --offline',
            'source_commits': [h.split()[0] for h in hooks if h],
            'add_only': True,
        },
        'engines': [
            {'name': 'K', 'path': '/verif/bin/kanilib.py', 'serves_properties': sorted(k for k, v in CLAIMS.items() if v[0] == 'K'), 'kind_free_text': K},
            {'name': 'S', 'path': '/verif/stack/engine_s.py', 'serves_properties': ['C11'], 'kind_free_text': 'native stack/limit cost measurement on the real builds + z3 integer-linear query over edge mixtures, replay on a 2 MiB thread'},
            {'name': 'B', 'path': '/verif/bytecode/engine_b.py', 'serves_properties': ['C05', 'C18'], 'kind_free_text': B},
        ],
        'checks': checks,
        'not_applicable': na,
        'notes': 'exit 0 = held within the stated bounds; exit 1 + VIOLATION line = solver counterexample that reproduced natively; exit 2 = inconclusive (timeout, out of memory, vacuous harness, non-reproducing counterexample) - never reported as a pass. Known findings: /verif/known_findings.json.',
    }
    json.dump(m, open('/verif/MANIFEST.json', 'w'), indent=1)
    print('wrote MANIFEST.json: %d checks, %d not_applicable' % (len(checks), len(na)))

if __name__ == '__main__':
    main()
