"""Engine K: Kani/CBMC harness runner.

The harness *code* lives in /verif/kani/*.rs and is included into the real
crate under cfg(kani).  For a property the runner

 1. selects the annotated harnesses (``// @verif props=.. tier=.. cap=.. group=..``),
 2. compiles /repo's *current working tree* once with
    ``cargo kani --only-codegen --harness h1 --harness h2 ...`` (kani-compiler
    lowers the real MIR to one GOTO program per harness),
 3. runs the same goto-cc / goto-instrument / cbmc pipeline kani-driver runs
    (copied verbatim from ``cargo kani --verbose``), one process per harness, in
    parallel, each under a wall-clock cap and an address-space limit,
 4. interprets CBMC's JSON with Kani's rules (reachability checks dropped,
    cover properties flipped, failed unwinding assertion = inconclusive),
 5. for a failing harness re-runs the *real* ``cargo kani -Z concrete-playback``
    to get the solver's assignment as a unit test and executes that test
    natively (``cargo kani playback``) - only a counterexample that reproduces
    on the native dev build is reported as a VIOLATION,
 6. cross-checks its own verdict against the real ``cargo kani`` driver on a
    seeded sample of harnesses and takes the cover witnesses of those runs as
    evidence samples,
 7. writes /verif/evidence/<id>.json.
"""
import os, re, json, sys, time, glob, random, signal, subprocess, resource, shutil
import concurrent.futures as cf

ROOT = '/verif'
# VERIF_REPO / VERIF_BUILD: used only by bin/seedtest to run the same checks against a scratch worktree
# that carries a seeded change (so that /repo itself stays untouched); registered commands never set them.
REPO = os.environ.get('VERIF_REPO', '/repo')
BUILD = os.environ.get('VERIF_BUILD') or os.path.join(ROOT, '.build')
KANI_HOME = os.path.expanduser('~/.kani/kani-0.68.0')
KANI_LIB_C = os.path.join(KANI_HOME, 'library/kani/kani_lib.c')
PLAYBACK_DIR = os.path.join(ROOT, '.build', 'playback')   # fixed: the harness files include! it by absolute path

BASE_FEATURES = 'builtins,macros,multi_template,adjacent_loop_items,std_collections,fuel,loop_controls'
GROUPS = {
    # `debug` is off on purpose: with it, dropping any minijinja::Error makes
    # CBMC unroll ErrorRepr.debug_info's recursive drop glue (see DESIGN 1.2).
    'core': dict(crate='minijinja', features=BASE_FEATURES),
    'debug': dict(crate='minijinja', features=BASE_FEATURES + ',debug'),
    'syntax': dict(crate='minijinja', features=BASE_FEATURES + ',custom_syntax'),
    'serde': dict(crate='minijinja', features=BASE_FEATURES + ',deserialization'),
    'json': dict(crate='minijinja', features=BASE_FEATURES + ',json'),
    # the dependency minijinja is compiled with cfg(kani) too, so its harness files need the same features
    'autoreload': dict(crate='minijinja-autoreload', features=''),
}
MEM_LIMIT = int(os.environ.get('VERIF_MEM_GB', '9')) << 30

ENV = dict(os.environ, CARGO_NET_OFFLINE='true')
ENV.pop('RUSTFLAGS', None)


def log(*a):
    print(*a, file=sys.stderr, flush=True)


# --------------------------------------------------------------------------
# discovery
# --------------------------------------------------------------------------

def discover_hooks():
    """kani file name -> (crate dir, module path of the included module)."""
    hooks = {}
    for crate in ('minijinja', 'minijinja-autoreload'):
        src = os.path.join(REPO, crate, 'src')
        for dirpath, _, files in os.walk(src):
            for fn in files:
                if not fn.endswith('.rs'):
                    continue
                p = os.path.join(dirpath, fn)
                txt = open(p, encoding='utf-8').read()
                for m in re.finditer(r'#\[path = "/verif/kani/(\w+)\.rs"\]\s*\n\s*(?:pub\(crate\) )?mod (\w+);', txt):
                    rel = os.path.relpath(p, src)[:-3]
                    parts = [x for x in rel.split(os.sep) if x not in ('lib', 'mod')]
                    hooks[m.group(1)] = (crate, '::'.join(parts + [m.group(2)]))
    return hooks


ANN = re.compile(r'^\s*// @verif\s+(.*)$')
ANNB = re.compile(r'^\s*// @verif-block\s+(.*)$')
ANNE = re.compile(r'^\s*// @verif-end')
FN = re.compile(r'^\s*(?:pub(?:\(crate\))? )?fn (\w+)\s*\(')
MAC = re.compile(r'^\s*\w+!\s*\(\s*(c\d\d\w*)\s*[,)](.*)$')
UNW = re.compile(r'#\[kani::unwind\((\d+)\)\]')


def parse_kv(s):
    d = {}
    for tok in s.split():
        if '=' in tok:
            k, v = tok.split('=', 1)
            d[k] = v
    return d


def discover_harnesses():
    hooks = discover_hooks()
    out = []
    for path in sorted(glob.glob(os.path.join(ROOT, 'kani', '*.rs'))):
        base = os.path.basename(path)[:-3]
        if base not in hooks:
            continue
        crate, mod = hooks[base]
        lines = open(path, encoding='utf-8').read().split('\n')
        i = 0
        block = None
        while i < len(lines):
            ln = lines[i]
            mb = ANNB.match(ln)
            if mb:
                block = parse_kv(mb.group(1))
                i += 1
                continue
            if ANNE.match(ln):
                block = None
                i += 1
                continue
            m = ANN.match(ln)
            if m and not mb:
                kv = parse_kv(m.group(1))
                doc = []
                j = i + 1
                name = None
                while j < len(lines) and j < i + 60:
                    if lines[j].strip().startswith('///'):
                        doc.append(lines[j].strip()[3:].strip())
                    f = FN.match(lines[j])
                    if f:
                        name = f.group(1)
                        break
                    j += 1
                if name:
                    out.append(mk(kv, name, base, crate, mod, ' '.join(doc)))
                i = j + 1
                continue
            if block is not None:
                mm = MAC.match(ln)
                if mm:
                    kv = dict(block)
                    tail = mm.group(2)
                    if '//' in tail:
                        kv.update(parse_kv(tail.split('//', 1)[1]))
                    doc = block.get('doc', '').replace('_', ' ') + ' [' + ln.strip().split('//')[0].strip() + ']'
                    out.append(mk(kv, mm.group(1), base, crate, mod, doc))
            i += 1
    names = [h['name'] for h in out]
    dup = {n for n in names if names.count(n) > 1}
    if dup:
        raise SystemExit('duplicate harness names: %s' % sorted(dup))
    return out


def mk(kv, name, base, crate, mod, doc):
    return dict(name=name, file=base, crate=crate, full=mod + '::' + name,
                props=kv.get('props', '').split(','), tier=kv.get('tier', 'quick'),
                cap=min(int(kv.get('cap', '300')), int(os.environ.get('VERIF_CAP_MAX', '100000'))), group=kv.get('group', 'core'),
                known=kv.get('known'), doc=doc, fns=kv.get('fns', ''))


# --------------------------------------------------------------------------
# build
# --------------------------------------------------------------------------

def group_args(group):
    g = GROUPS[group]
    a = []
    if g['features'] is not None:
        a += ['--no-default-features']
        if g['features']:
            a += ['--features', g['features']]
    return a


def target_dir(group, prop=''):
    # one target dir per (group, property): concurrent checks never share build output
    return os.path.join(BUILD, 'kani-' + group + ('-' + prop if prop else ''))


def ensure_playback_files():
    os.makedirs(PLAYBACK_DIR, exist_ok=True)
    for path in glob.glob(os.path.join(ROOT, 'kani', '*.rs')):
        p = os.path.join(PLAYBACK_DIR, os.path.basename(path))
        if not os.path.exists(p):
            open(p, 'w').write('')


def build(group, harnesses, prop=''):
    """Compile the selected harnesses of one group; return metadata by pretty name."""
    ensure_playback_files()
    g = GROUPS[group]
    cmd = ['cargo', 'kani', '--target-dir', target_dir(group, prop)] + group_args(group) + \
          ['--only-codegen', '-Z', 'stubbing', '--exact']
    for h in harnesses:
        cmd += ['--harness', h['full']]
    t0 = time.time()
    p = subprocess.run(cmd, cwd=os.path.join(REPO, g['crate']), env=ENV, stdout=subprocess.PIPE,
                       stderr=subprocess.STDOUT, text=True)
    dt = time.time() - t0
    if p.returncode != 0:
        # keep the compiler's error blocks (first 12), not the trailing warnings
        blocks = re.findall(r'^error(?:\[E\d+\])?:.*(?:\n(?!error|warning).*){0,8}', p.stdout, re.M)
        tail = '\n'.join(blocks[:12]) or p.stdout[-3000:]
        return None, dt, tail
    # newest metadata file of this crate that contains our harnesses
    crate_us = g['crate'].replace('-', '_')
    metas = glob.glob(os.path.join(target_dir(group, prop), 'kani', '*', 'debug', 'build', g['crate'], '*', 'out',
                                   '*.kani-metadata.json'))
    metas += glob.glob(os.path.join(target_dir(group, prop), 'kani', '*', 'debug', 'deps', '*.kani-metadata.json'))
    want = {h['full'] for h in harnesses}
    best = None
    for mf in sorted(metas, key=os.path.getmtime, reverse=True):
        try:
            md = json.load(open(mf))
        except Exception:
            continue
        if md.get('crate_name') != crate_us:
            continue
        by = {x['pretty_name']: x for x in md['proof_harnesses']}
        if want <= set(by):
            best = by
            break
    if best is None:
        return None, dt, 'kani metadata does not list all requested harnesses (names wrong?)\n' + p.stdout[-3000:]
    return best, dt, ''


# --------------------------------------------------------------------------
# one harness through goto-cc / goto-instrument / cbmc
# --------------------------------------------------------------------------

def _limits():
    resource.setrlimit(resource.RLIMIT_AS, (MEM_LIMIT, MEM_LIMIT))
    os.setsid()


def _limits_big():
    # counterexample extraction (rare): the driver builds traces and needs more memory than a plain check
    resource.setrlimit(resource.RLIMIT_AS, (28 << 30, 28 << 30))
    os.setsid()


_CHILDREN = set()


def _kill_children(signum=None, frame=None):
    """The solver processes run in their own sessions (so that a cap can kill a whole pipeline); when the
    check itself is terminated they must not be left behind."""
    for pid in list(_CHILDREN):
        try:
            os.killpg(pid, signal.SIGKILL)
        except (ProcessLookupError, PermissionError):
            pass
    if signum is not None:
        os._exit(2)


try:
    signal.signal(signal.SIGTERM, _kill_children)
    signal.signal(signal.SIGINT, _kill_children)
except ValueError:
    pass


def run_cmd(cmd, cap, out=None):
    t0 = time.time()
    with (open(out, 'w') if out else open(os.devnull, 'w')) as fo:
        p = subprocess.Popen(cmd, stdout=fo, stderr=subprocess.STDOUT, preexec_fn=_limits)
        _CHILDREN.add(p.pid)
        try:
            rc = p.wait(timeout=cap)
            _CHILDREN.discard(p.pid)
        except subprocess.TimeoutExpired:
            try:
                os.killpg(p.pid, signal.SIGKILL)
            except ProcessLookupError:
                pass
            p.wait()
            return 'timeout', time.time() - t0
    return rc, time.time() - t0


def run_harness(h, meta, workdir):
    """Returns a result dict; never raises."""
    res = dict(name=h['name'], full=h['full'], cap=h['cap'], unwind=meta['attributes'].get('unwind_value'),
               stubs=[s for s in meta['attributes'].get('stubs', [])], status='error', detail='')
    try:
        os.makedirs(workdir, exist_ok=True)
        out = os.path.join(workdir, h['name'] + '.out')
        js = os.path.join(workdir, h['name'] + '.json')
        sym = meta['goto_file']
        mangled = meta['mangled_name']
        steps = [
            ['goto-cc', sym, KANI_LIB_C, '-o', out],
            ['goto-cc', out, '--function', mangled, '-o', out],
            ['goto-instrument', '--add-library', '--no-malloc-may-fail', out, out],
            ['goto-instrument', '--generate-function-body-options', 'assert-false-assume-false',
             '--generate-function-body', '.*', '--drop-unused-functions', out, out],
            ['goto-instrument', '--ensure-one-backedge-per-target', out, out],
        ]
        for s in steps:
            rc, _ = run_cmd(s, 300)
            if rc != 0:
                res['detail'] = 'step failed: %s rc=%s' % (' '.join(s[:2]), rc)
                return res
        if res['unwind'] is None:
            res['detail'] = 'harness has no #[kani::unwind]'
            return res
        solver = meta['attributes'].get('solver') or 'cadical'
        if isinstance(solver, dict):
            solver = list(solver.values())[0] if solver else 'cadical'
        solver = str(solver).lower()
        cbmc = ['cbmc', '--no-malloc-may-fail', '--no-undefined-shift-check', '--no-signed-overflow-check',
                '--nan-check', '--no-self-loops-to-assumptions', '--no-pointer-primitive-check',
                '--object-bits', '16', '--unwind', str(res['unwind']), '--sat-solver', solver,
                '--slice-formula', out, '--verbosity', '9', '--json-ui']
        rc, dt = run_cmd(cbmc, h['cap'], js)
        res['wall_s'] = round(dt, 2)
        try:
            os.remove(out)
        except OSError:
            pass
        if rc == 'timeout':
            res['status'] = 'timeout'
            res['detail'] = 'cbmc exceeded cap of %ds' % h['cap']
            return res
        interpret(js, res)
        if res['status'] not in ('fail', 'unwind'):
            try:
                os.remove(js)
            except OSError:
                pass
        return res
    except Exception as e:  # noqa
        res['detail'] = 'runner exception: %r' % (e,)
        return res


def interpret(js, res):
    try:
        data = json.load(open(js))
    except Exception as e:
        res['status'] = 'error'
        res['detail'] = 'cbmc output not parseable (killed / out of memory?): %r' % (e,)
        return
    props = None
    solver_s = 0.0
    vcc = remaining = 0
    clauses = variables = 0
    queries = 0
    errors = []
    for x in data:
        if 'result' in x:
            props = x['result']
        t = x.get('messageText', '')
        if x.get('messageType') == 'ERROR':
            errors.append(t[:300])
        m = re.match(r'Runtime Solver: ([\d.e+-]+)s', t)
        if m:
            solver_s += float(m.group(1))
            queries += 1
        m = re.match(r'Generated (\d+) VCC\(s\), (\d+) remaining', t)
        if m:
            vcc, remaining = int(m.group(1)), int(m.group(2))
        m = re.match(r'(\d+) variables, (\d+) clauses', t)
        if m:
            variables, clauses = int(m.group(1)), int(m.group(2))
    res.update(solver_s=round(solver_s, 3), vcc=vcc, vcc_remaining=remaining, sat_vars=variables,
               sat_clauses=clauses, solver_queries=queries)
    if props is None:
        res['status'] = 'error'
        res['detail'] = 'cbmc produced no result (%s)' % ('; '.join(errors)[:500] or 'no error text')
        return
    failed, covers, unwind_failed, reach, errored = [], [], [], {}, []
    nchecks = 0
    for p in props:
        sl = p.get('sourceLocation', {})
        cls = sl.get('propertyClass') or ('unwind' if '.unwind.' in p.get('property', '') else '')
        desc = re.sub(r'^\[KANI_CHECK_ID_[^\]]*\]\s*', '', p.get('description', ''))
        loc = '%s:%s in %s' % (sl.get('file', '?'), sl.get('line', '?'), sl.get('function', '?'))
        if cls == 'reachability_check':
            continue
        if cls == 'cover':
            covers.append(dict(desc=desc, loc=loc, sat=(p['status'] == 'FAILURE')))
            continue
        nchecks += 1
        if p['status'] != 'SUCCESS':
            if p['status'] == 'ERROR':
                # CBMC could not decide this property (memory limit / solver error): inconclusive
                errored.append(dict(desc=desc, loc=loc))
            elif cls == 'unwind' or desc.startswith('unwinding assertion') or 'recursion unwinding' in desc:
                unwind_failed.append(dict(desc=desc, loc=loc))
            else:
                failed.append(dict(desc=desc, loc=loc, cls=cls, status=p['status']))
    res.update(checks=nchecks, failed=failed, covers=covers, unwind_failed=unwind_failed)
    if errored:
        res['status'] = 'error'
        res['detail'] = 'cbmc reported status ERROR (undecided: memory limit or solver error) for %d properties, first: %s' % (
            len(errored), re.sub(r'^.*/library/', 'library/', errored[0]['loc']))
    elif unwind_failed:
        res['status'] = 'unwind'
        res['detail'] = 'unwinding assertion failed: bound too small, result inconclusive: %s' % ' | '.join(sorted(set(re.sub(r'^.*/library/', 'library/', u['loc']) for u in unwind_failed))[:6])
    elif failed:
        res['status'] = 'fail'
    elif covers and not all(c['sat'] for c in covers):
        res['status'] = 'vacuous'
        res['detail'] = 'cover not satisfied: ' + '; '.join(c['desc'] for c in covers if not c['sat'])
    elif not covers:
        res['status'] = 'vacuous'
        res['detail'] = 'harness has no kani::cover! reachability witness'
    else:
        res['status'] = 'pass'


# --------------------------------------------------------------------------
# the real kani driver: concrete playback + cross-check
# --------------------------------------------------------------------------

import threading
_SLOTS = [threading.Lock() for _ in range(3)]


def _take_slot():
    while True:
        for i, l in enumerate(_SLOTS):
            if l.acquire(blocking=False):
                return i, l
        time.sleep(0.5)


PB_BLOCK = re.compile(r'Concrete playback unit test for `([^`]+)`:\n```\n(.*?)\n```', re.S)


def kani_driver_run(h, cap, prop='', mem_gb=None):
    """Run the real `cargo kani` on one harness with concrete playback printing."""
    g = GROUPS[h['group']]
    # kani-driver reads the crate's metadata after compiling, so two drivers must not share a
    # target dir: take one of three per-property slots exclusively
    slot, lock = _take_slot()
    try:
        cmd = ['cargo', 'kani', '--target-dir', target_dir(h['group'] + '-drv%d' % slot, prop)] + \
              group_args(h['group']) + ['-Z', 'stubbing', '--exact', '--harness', h['full'], '-Z',
                                        'concrete-playback', '--concrete-playback=print']
        t0 = time.time()
        try:
            p = subprocess.run(cmd, cwd=os.path.join(REPO, g['crate']), env=ENV, stdout=subprocess.PIPE,
                               stderr=subprocess.STDOUT, text=True, timeout=cap, preexec_fn=(_limits_big if mem_gb else _limits))
            outp = p.stdout
        except subprocess.TimeoutExpired as e:
            return dict(verdict='timeout', tests=[], wall_s=time.time() - t0, raw='')
    finally:
        lock.release()
    verdict = 'unknown'
    if 'VERIFICATION:- SUCCESSFUL' in outp:
        verdict = 'pass'
    elif 'VERIFICATION:- FAILED' in outp:
        # kani prints FAILED also when CBMC itself died (out of memory, signal): that is no verdict
        if re.search(r'^Failed Checks:', outp, re.M) and not re.search(r'out of memory|bad_alloc|CBMC failed|CBMC crashed', outp, re.I):
            verdict = 'fail'
        else:
            verdict = 'inconclusive'
    tests = []
    for m in PB_BLOCK.finditer(outp):
        code = m.group(2)
        chk = re.search(r'/// Check for `(\w+)`: "(.*?)"\s*$', code, re.M | re.S)
        fn = re.search(r'fn (kani_concrete_playback_\w+)\(', code)
        # the doc comment kani prints in front of the test repeats the checked condition verbatim; a condition
        # written over several source lines leaves its continuation lines outside the comment - keep only the test
        k = code.find('#[test]')
        if k > 0:
            code = code[k:]
        vals = re.findall(r'^\s*// (.*)$', code, re.M)
        tests.append(dict(harness=m.group(1), kind=chk.group(1) if chk else '?', check=chk.group(2) if chk else '?',
                          test=fn.group(1) if fn else '?', values=vals, code=code))
    return dict(verdict=verdict, tests=tests, wall_s=round(time.time() - t0, 1), raw=outp[-3000:])


def native_playback(group, tests_by_file, cap=900):
    """Write the solver's unit tests next to the harnesses and run them natively.
    Returns {test fn name: 'FAILED'|'ok'|'missing'}, log tail."""
    ensure_playback_files()
    g = GROUPS[group]
    written = []
    import fcntl
    lock = open(os.path.join(ROOT, '.build', 'playback.lock'), 'w')
    fcntl.flock(lock, fcntl.LOCK_EX)  # the include files are shared by all checks
    try:
        for f, tests in tests_by_file.items():
            p = os.path.join(PLAYBACK_DIR, f + '.rs')
            with open(p, 'w') as fo:
                for t in tests:
                    fo.write(t['code'] + '\n')
            written.append(p)
        env = dict(ENV, CARGO_TARGET_DIR=os.path.join(BUILD, 'pb-' + group))
        cmd = ['cargo', 'kani', 'playback', '-Z', 'concrete-playback'] + group_args(group) + \
              ['--lib', '--', 'kani_concrete_playback', '--test-threads', '4']
        try:
            p = subprocess.run(cmd, cwd=os.path.join(REPO, g['crate']), env=env, stdout=subprocess.PIPE,
                               stderr=subprocess.STDOUT, text=True, timeout=cap)
            outp = p.stdout
        except subprocess.TimeoutExpired:
            return {}, 'native playback timed out'
        st = {}
        for m in re.finditer(r'^test (\S+) \.\.\. (ok|FAILED)', outp, re.M):
            st[m.group(1).split('::')[-1]] = m.group(2)
        # panic=abort builds print no per-test line for the aborting test
        for m in re.finditer(r"thread '(\S+)' \(\d+\) panicked at", outp):
            st.setdefault(m.group(1).split('::')[-1], 'FAILED')
        return st, outp[-4000:]
    finally:
        for p in written:
            open(p, 'w').write('')
        fcntl.flock(lock, fcntl.LOCK_UN)
        lock.close()


# --------------------------------------------------------------------------
# property driver
# --------------------------------------------------------------------------

def load_known():
    p = os.path.join(ROOT, 'known_findings.json')
    if not os.path.exists(p):
        return {}
    d = json.load(open(p))
    return {f['id']: f for f in d.get('findings', [])}


def select(prop, tier, only=None):
    hs = [h for h in discover_harnesses() if prop in h['props']]
    if tier == 'quick':
        hs = [h for h in hs if h['tier'] == 'quick']
    elif not only:
        # tier=experimental: harnesses that were written but do not finish inside a cap on this machine; they are
        # kept in the files (and named in DESIGN.md) but belong to no registered command
        hs = [h for h in hs if h['tier'] in ('quick', 'thorough')]
    if only:
        hs = [h for h in hs if only in h['name']]
    return hs


def run_property(prop, tier, seed, only=None, list_only=False, jobs=10, write_evidence=True, extra=None):
    t_start = time.time()
    hs = select(prop, tier, only)
    if list_only:
        for h in hs:
            print('%-55s %-8s cap=%-5d %s %s' % (h['name'], h['tier'], h['cap'], h['group'], h['known'] or ''))
        return 0
    if not hs and not extra:
        log('no harnesses registered for', prop)
        return 2
    known = load_known()
    results = []
    build_s = {}
    problems = []  # inconclusive things -> exit 2
    groups = sorted({h['group'] for h in hs})
    metas = {}
    for g in groups:
        ghs = [h for h in hs if h['group'] == g]
        log('[%s] building %d harness(es) of group %s from /repo working tree ...' % (prop, len(ghs), g))
        by, dt, err = build(g, ghs, prop)
        build_s[g] = round(dt, 1)
        if by is None:
            log(err)
            problems.append('build of group %s failed' % g)
            continue
        metas[g] = by
        log('[%s] build %s: %.1fs' % (prop, g, dt))
    workdir = os.path.join(BUILD, 'work', prop)
    shutil.rmtree(workdir, ignore_errors=True)
    runnable = [h for h in hs if h['group'] in metas]
    # longest caps first so the pool drains evenly
    runnable.sort(key=lambda h: -h['cap'])
    rnd = random.Random(seed * 7919 + sum(map(ord, prop)))
    nx = 2 if tier == 'quick' else 5
    if os.environ.get('VERIF_NO_XCHECK'):
        nx = 0  # development runs only
    cand = [h for h in runnable if h['cap'] <= 400]
    rnd.shuffle(cand)
    if not cand:
        cand = sorted(runnable, key=lambda h: h['cap'])
    drv = {}
    with cf.ThreadPoolExecutor(max_workers=max(1, jobs)) as ex:
        futs = {ex.submit(run_harness, h, metas[h['group']][h['full']], workdir): h for h in runnable}
        dfuts = {ex.submit(kani_driver_run, h, 2 * h['cap'] + 120, prop): h for h in cand[:nx]}
        for f in cf.as_completed(futs):
            h = futs[f]
            r = f.result()
            r['tier'] = h['tier']
            r['doc'] = h['doc']
            r['known'] = h['known']
            r['group'] = h['group']
            r['file'] = h['file']
            results.append(r)
            log('[%s] %-52s %-8s %6.1fs %s' % (prop, r['name'], r['status'], r.get('wall_s', 0), r['detail'][:140]))
        for f in cf.as_completed(dfuts):
            drv[dfuts[f]['name']] = f.result()
    results.sort(key=lambda r: r['name'])
    hmap = {h['name']: h for h in hs}

    # ---- failing harnesses: get the solver's assignment from the real driver, replay natively
    violations, known_hits = [], []
    failing = [r for r in results if r['status'] == 'fail']
    import nativelib
    replay_dir = nativelib.replay_dir()
    if failing:
        os.makedirs(replay_dir, exist_ok=True)
    by_group = {}

    def _cex(r):
        h = hmap[r['name']]
        log('[%s] %s failed %d check(s); asking kani for the concrete counterexample ...' % (prop, r['name'], len(r['failed'])))
        d0 = drv.get(r['name'])
        if d0 and d0['verdict'] == 'fail' and d0['tests']:
            return r, d0
        return r, kani_driver_run(h, max(4 * h['cap'], 900), prop, mem_gb=28)

    # counterexample extraction re-runs the real kani driver, which is slow: replay the (up to) four
    # cheapest failing harnesses plus every known-finding twin; one confirmed violation decides the check
    failing.sort(key=lambda r: (0 if r['known'] else 1, r.get('wall_s', 0)))
    n_known = sum(1 for r in failing if r['known'])
    to_replay = failing[:n_known + 4]
    for r in failing[n_known + 4:]:
        r['status'] = 'fail-unreplayed'
        r['detail'] = 'failed checks; not replayed because other failing harnesses of this property were'
    with cf.ThreadPoolExecutor(max_workers=max(1, min(jobs, 6))) as ex:
        cex = list(ex.map(_cex, to_replay))
    for r, d in cex:
        h = hmap[r['name']]
        r['driver_verdict'] = d['verdict']
        tests = [t for t in d['tests'] if t['kind'] != 'cover']
        r['cex_tests'] = tests
        if d['verdict'] != 'fail' or not tests:
            r['status'] = 'noreplay'
            r['detail'] = 'kani driver verdict=%s, %d counterexample test(s): cannot replay' % (d['verdict'], len(tests))
            continue
        by_group.setdefault(h['group'], {}).setdefault(h['file'], []).extend(tests)
    for g, tbf in by_group.items():
        log('[%s] replaying %d counterexample test(s) natively (cargo kani playback, group %s) ...' % (
            prop, sum(len(v) for v in tbf.values()), g))
        st, tail = native_playback(g, tbf)
        for r in failing:
            if r['status'] != 'fail' or r['group'] != g:
                continue
            outcomes = {t['test']: st.get(t['test'], 'missing') for t in r['cex_tests']}
            r['native'] = outcomes
            reproduced = [t for t in r['cex_tests'] if outcomes[t['test']] == 'FAILED']
            if not reproduced:
                r['status'] = 'noreplay'
                r['detail'] = 'counterexample did not reproduce natively: %s' % outcomes
                r['native_log'] = tail
                if 'missing' in outcomes.values():
                    log('[%s] native playback output (tests missing):\n%s' % (prop, tail[-2500:]))
                continue
            rp = os.path.join(replay_dir, '%s-%s.json' % (prop, r['name']))
            json.dump(dict(property=prop, harness=r['name'], full=r['full'], group=g, file=r['file'],
                           failed_checks=r['failed'], tests=r['cex_tests'], native=outcomes,
                           how='bin/check %s --replay %s' % (prop, rp)), open(rp, 'w'), indent=1)
            r['replay'] = rp
            kid = r['known']
            if kid and kid in known and known[kid].get('property') == prop:
                known_hits.append((r, known[kid]))
            else:
                violations.append(r)
    for r in results:
        if r['status'] in ('pass', 'fail'):
            continue
        if r['status'] == 'fail-unreplayed' and violations:
            continue
        problems.append('%s: %s %s' % (r['name'], r['status'], r['detail'][:200]))
    # a "known" harness that passes: the finding no longer reproduces - fine, say so
    for r in results:
        if r['known'] and r['status'] == 'pass':
            log('[%s] note: known finding %s no longer reproduces (%s passes)' % (prop, r['known'], r['name']))

    # ---- cross-check against the real kani driver + witnesses for the evidence
    samples, xcheck = [], []
    for name, d in drv.items():
        r = next((x for x in results if x['name'] == name), None)
        if r is None:
            continue
        mine = 'pass' if r['status'] == 'pass' else ('fail' if r['status'] in ('fail', 'noreplay') or r.get('replay') else r['status'])
        agree = (d['verdict'] == mine) or mine not in ('pass', 'fail') or d['verdict'] not in ('pass', 'fail')
        xcheck.append(dict(harness=name, runner=mine, kani_driver=d['verdict'], agree=agree))
        log('[%s] cross-check %s: runner=%s kani driver=%s' % (prop, name, mine, d['verdict']))
        if not agree:
            problems.append('cross-check: runner=%s but kani driver=%s for %s' % (mine, d['verdict'], name))
        for t in d['tests']:
            if t['kind'] == 'cover':
                samples.append(dict(harness=name, cover=t['check'], witness_kani_any_values=t['values']))

    # ---- engine extras (B / S drivers hand in their own result dicts)
    extra_ev = {}
    if extra:
        for fn in extra:
            try:
                ev = fn(prop, tier, seed)
            except Exception as e:  # noqa - an engine that dies (tool time-out, missing file) decides nothing: inconclusive, never a crash
                import traceback
                log(traceback.format_exc()[-1500:])
                problems.append('engine part %s died: %r' % (getattr(fn, '__name__', '?'), e))
                continue
            if ev['engine'] in extra_ev:
                # two parts of the same engine (e.g. engine M: print arm + string filters): keep both coverages
                prev = extra_ev[ev['engine']]
                pc = prev.get('coverage', {})
                parts = pc['parts'] if list(pc.keys()) == ['parts'] else [pc]
                prev['coverage'] = dict(parts=parts + [ev.get('coverage', {})])
            else:
                extra_ev[ev['engine']] = ev
            for v in ev.get('violations', []):
                violations.append(v)
            for k in ev.get('known_hits', []):
                known_hits.append(k)
            problems.extend(ev.get('problems', []))

    # ---- report
    for r, kf in known_hits:
        print('KNOWN-FINDING: property=%s %s' % (prop, kf['what']))
    for r in violations:
        print('VIOLATION property=%s replay=%s' % (prop, r['replay']))
        for fc in r.get('failed', [])[:6]:
            print('  failed: %s @ %s' % (fc['desc'], fc['loc']))
    for pr in problems:
        print('INCONCLUSIVE: %s' % pr)
    wall = time.time() - t_start
    if write_evidence:
        write_ev(prop, tier, seed, results, samples, xcheck, build_s, wall, violations, known_hits, problems, extra_ev)
    npass = sum(1 for r in results if r['status'] == 'pass')
    log('[%s] tier=%s harnesses=%d pass=%d violations=%d known=%d inconclusive=%d wall=%.0fs' % (
        prop, tier, len(results), npass, len(violations), len(known_hits), len(problems), wall))
    if violations:
        return 1
    if problems:
        return 2
    return 0


def write_ev(prop, tier, seed, results, samples, xcheck, build_s, wall, violations, known_hits, problems, extra_ev):
    os.makedirs(os.path.join(ROOT, 'evidence'), exist_ok=True)
    hv = []
    for r in results:
        hv.append(dict(
            harness=r['full'], what=r['doc'], tier=r['tier'], group=r['group'], status=r['status'],
            unwind=r.get('unwind'), stubs=r.get('stubs'), checks=r.get('checks'),
            checks_failed=len(r.get('failed', [])) if 'failed' in r else None,
            covers_satisfied=sum(1 for c in r.get('covers', []) if c['sat']), covers_total=len(r.get('covers', [])),
            cover_conditions=[c['desc'] for c in r.get('covers', [])],
            vcc=r.get('vcc'), vcc_after_simplification=r.get('vcc_remaining'), sat_vars=r.get('sat_vars'),
            sat_clauses=r.get('sat_clauses'), solver_queries=r.get('solver_queries'), solver_s=r.get('solver_s'),
            wall_s=r.get('wall_s'), cap_s=r.get('cap'), detail=r.get('detail') or None,
            failed=r.get('failed') or None, known_finding=r.get('known'), replay=r.get('replay')))
    evals = sum((r.get('checks') or 0) + len(r.get('covers', [])) for r in results)
    nontriv = sum(1 for r in results if r['status'] == 'pass' and (r.get('checks') or 0) > 0)
    if not samples:
        samples = [dict(harness=r['full'], what=r['doc'], covers=[c['desc'] for c in r.get('covers', [])])
                   for r in results[:3]]
    cov = dict(
        evaluations=evals, distinct_nontrivial=nontriv,
        rule='one evaluation = one CBMC property (automatic panic/overflow/bounds check, user assertion or cover) '
             'decided by the SAT solver over all inputs inside the harness bounds; distinct_nontrivial = harnesses '
             'with >=1 decided check, all assertions proved AND every kani::cover! witness satisfied (non-vacuous)',
        samples=samples[:12],
        harnesses=hv,
        harnesses_run=len(results), harnesses_passed=sum(1 for r in results if r['status'] == 'pass'),
        solver_queries=sum(r.get('solver_queries') or 0 for r in results),
        solver_s=round(sum(r.get('solver_s') or 0 for r in results), 1),
        cbmc_wall_s=round(sum(r.get('wall_s') or 0 for r in results), 1),
        build_s=build_s,
        kani_driver_crosscheck=xcheck,
        known_findings_reproduced=[kf['id'] for _, kf in known_hits],
        inconclusive=problems,
        exhaustive=False,
        explanation='Bounded model checking (Kani 0.68 -> CBMC 6.11, cadical) of the real functions compiled from '
                    '/repo\'s working tree; every verdict is for ALL values of the symbolic inputs inside the '
                    'stated unwind/size bounds, nothing outside them.',
    )
    level = 'model_checking'
    assumptions = list(ASSUMPTIONS)
    if 'B' in extra_ev:
        # engine B decides this property: its keys are the level's own keys; the Kani part (if any) is kept beside
        level = 'translation_validation'
        bcov = dict(extra_ev['B'].get('coverage', {}))
        kcov = cov
        cov = bcov
        cov['kani_kernels'] = dict(harnesses=kcov['harnesses'], harnesses_run=kcov['harnesses_run'],
                                   harnesses_passed=kcov['harnesses_passed'], solver_s=kcov['solver_s'])
        cov['known_findings_reproduced'] = [kf['id'] for _, kf in known_hits]
        cov['inconclusive'] = problems
        cov['exhaustive'] = False
        cov['explanation'] = ('the instruction streams emitted by the real compiler for a generated program family are '
                              'validated with z3 against the property (see family); solver counterexamples are replayed on the real engine')
        assumptions = ['the dump tool links the real lexer/parser/code generator of /repo (unstable_machinery_serde)',
                       'VM effects per instruction as extracted from vm/mod.rs on this run; operand arities from the hand-written table in bytecode/encoder.py',
                       'programs outside the generated family are not covered',
                       'native replay contexts: a fixed family of 14 contexts over the variables the generator uses']
    if 'M' in extra_ev:
        cov['mir'] = extra_ev['M'].get('coverage', {})
        assumptions = assumptions + ['engine M: the MIR rustc (nightly) emits from the current source for the interpreter functions named in coverage.mir (perform_super / perform_include / call_block, or eval_impl); panics/unwind edges are not followed; '
                                     'the effect table names the acquire/release functions of five resources (frame, block cursor, recursion depth, macro closure, output capture); '
                                     'an Output capture need not be returned on an error exit (the Output does not outlive the failing call)']
    if 'Bx' in extra_ev:
        cov['bytecode_expressions'] = extra_ev['Bx'].get('coverage', {})
    if 'Bs' in extra_ev:
        # C12: the VM use-site audit (bytecode/sites.py) rides along with the Kani kernels
        cov['vm_sites'] = extra_ev['Bs'].get('coverage', {})
        assumptions = assumptions + ['VM use sites: the guard each eval_impl arm applies is classified from the text of vm/mod.rs on this run (an arm that cannot be classified is inconclusive); the full (mode, operand) matrix of every site is also rendered natively as validation']
    if 'Lc' in extra_ev:
        cov['template_store'] = extra_ev['Lc'].get('coverage', {})
        assumptions = assumptions + ['template store (fast reload): the store operations are translated from the text of loader.rs by store/engine_l.py; the compiler is a symbolic predicate; names/sources range over small finite sets; histories up to coverage.template_store.history_bound steps']
    if 'L' in extra_ev:
        kcov = cov
        cov = dict(extra_ev['L'].get('coverage', {}))
        if 'mir' in kcov:
            cov['mir'] = kcov['mir']
        cov['kani_kernels'] = dict(harnesses=kcov['harnesses'], harnesses_run=kcov['harnesses_run'],
                                   harnesses_passed=kcov['harnesses_passed'], solver_s=kcov['solver_s'])
        cov['known_findings_reproduced'] = [kf['id'] for _, kf in known_hits]
        cov['inconclusive'] = problems
        assumptions = ['the store operations are translated from the text of loader.rs by store/engine_l.py (a small grammar of '
                       'tier operations; anything else is inconclusive); the translation is validated against the real store on random histories',
                       'the template compiler is abstracted to a symbolic predicate "this source compiles"; compiled templates are identified by their source',
                       'names and sources range over small finite sets (see coverage.names / coverage.sources); histories up to coverage.history_bound steps for the BMC query',
                       'filters/tests/globals registries, clones of the environment, concurrent renders and thread-local caches are outside this check']
    ev = dict(property_id=prop, tier=tier, seed=seed, level=level, coverage=cov,
              assumptions=assumptions, wall_s=round(wall, 1), violations=len(violations))
    json.dump(ev, open(os.path.join(ROOT, 'evidence', prop + '.json'), 'w'), indent=1)


ASSUMPTIONS = [
    'Kani 0.68 / CBMC 6.11 translate MIR faithfully; rustc std is trusted',
    'feature `debug` is off in harness builds (group core); the functions under test do not depend on it',
    'alloc::fmt::format is stubbed to an empty String where a harness says so (only error *messages* are affected)',
    'heap allocation never fails (--no-malloc-may-fail), as in Kani\'s default model',
    'results hold only inside each harness\'s stated bounds (unwind, lengths); unwinding assertions are on',
    'composition of the verified kernels into whole renders is outside the claim (see DESIGN.md section 0)',
]


def replay(prop, path):
    d = json.load(open(path))
    st, tail = native_playback(d['group'], {d['file']: d['tests']})
    print(tail)
    rep = [t for t in d['tests'] if st.get(t['test']) == 'FAILED']
    if rep:
        print('VIOLATION property=%s replay=%s' % (prop, path))
        return 1
    print('counterexample does not reproduce on the current tree')
    return 0
