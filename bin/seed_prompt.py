#!/usr/bin/env python3
"""Print the prompt handed to a seeding sub-agent for one property.

The prompt contains only the property's text and the path of a scratch
worktree; nothing about /verif's machinery.
usage: seed_prompt.py C09 /tmp/wt-C09 [n_changes]
"""
import json, sys

pid, wt = sys.argv[1], sys.argv[2]
n = int(sys.argv[3]) if len(sys.argv) > 3 else 2
out = sys.argv[4] if len(sys.argv) > 4 else '/tmp/seed-out'
avoid = sys.argv[5] if len(sys.argv) > 5 else ''
prop = None
for line in open('/verif/properties.jsonl'):
    p = json.loads(line)
    if p['id'] == pid:
        prop = p
assert prop, pid

print(f"""You are helping to evaluate a verification framework by planting realistic bugs ("seeded changes") in a Rust project.

Project: mitsuhiko/minijinja (a Jinja2-compatible template engine in Rust). You have your own scratch git worktree of it at {wt} . Work ONLY inside {wt} and inside the output directory {out}/{pid}/ . Never touch /repo or /verif (do not even read /verif). The sandbox has no network: always run cargo with `--offline` and set `CARGO_TARGET_DIR={wt}/target`.

The semantic property under study ({pid}: {prop['title']}):

STATEMENT: {prop['statement']}

QUANTIFIED OVER: {prop['quantifier']['text']}

Code the property is anchored in: {', '.join(prop['anchors']['files'])}

Your task: produce {n} independent, *different* changes to the minijinja source (library code, not tests) each of which
  (a) BREAKS the property above (a real violation, observable through the public API),
  (b) still compiles, and still passes the whole existing test suite unchanged: `cd {wt} && CARGO_TARGET_DIR={wt}/target cargo test --workspace --no-fail-fast --offline` (run this yourself and confirm 0 failures; do not edit, delete or re-bless any existing test or snapshot),
  (c) looks like a realistic developer mistake or plausible "optimisation"/"refactoring" (an off-by-one, a dropped case, a wrong boundary, a reordered pair of statements, a missing restore on one path, ...), a few lines, not sabotage,
  (d) needs something SPECIFIC to manifest - an unusual input or boundary value, a particular multi-step sequence of operations, a particular path/interleaving/fault point, or two cooperating sites that each look fine alone - so that ordinary use and the existing tests do not expose it at once.

For each change i (1..{n}) deliver, in {out}/{pid}/<i>/ :
  * patch.diff  - `git diff` of the change against the worktree's HEAD (source change only; it must apply with `git apply` to a clean checkout of HEAD),
  * a demonstration: either demo_test.rs (a self-contained Rust integration test file that can be dropped into {wt}/minijinja/tests/ - or the relevant crate's tests/ - and run with `cargo test --offline --test <name>`, plus the exact cargo features it needs) or a small example program; it must FAIL (or show the wrong behaviour, asserting on it) with the change applied and PASS on the unchanged tree. Check both yourself.
  * notes.md    - which clause of the property it breaks, what exactly is needed to make it manifest, the commands you ran and their results (test-suite pass with the change; demo fail with / pass without).

Procedure per change: make the edit, run the full suite, write and run the demo, save `git diff > patch.diff`, then `git checkout -- .` (and remove your untracked demo file from the worktree after copying it to the output dir) before starting the next change, so each patch is independent and the worktree ends clean. Spread the changes over different functions/mechanisms of the anchored code. Prefer subtle over blatant. If a candidate change makes an existing test fail, discard it and try another.

{('Changes that earlier rounds already produced for this property - do NOT repeat these or close variants of them, pick other functions/mechanisms: ' + avoid + chr(10) + chr(10)) if avoid else ''}Finish with a short report: for each change, one paragraph (file/function touched, what breaks, what is needed to trigger it) and confirmation that (a)-(d) were checked.""")
