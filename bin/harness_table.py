#!/usr/bin/env python3-vt
"""Prints, per property, the number of registered quick / additional thorough / experimental harnesses and their names."""
import sys, os
sys.path.insert(0, os.path.dirname(os.path.abspath(__file__)))
import kanilib as K
hs = K.discover_harnesses()
props = sorted({p for h in hs for p in h['props'] if p})
for p in props:
    q = [h['name'] for h in hs if p in h['props'] and h['tier'] == 'quick']
    t = [h['name'] for h in hs if p in h['props'] and h['tier'] == 'thorough']
    e = [h['name'] for h in hs if p in h['props'] and h['tier'] == 'experimental']
    print('%s quick=%d thorough=+%d experimental=%d' % (p, len(q), len(t), len(e)))
    if '-v' in sys.argv:
        print('   experimental:', ' '.join(e))
