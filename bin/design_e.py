#!/usr/bin/env python3
"""Rewrites section E of DESIGN.md from seeded/*/meta.json (run bin/seed_report.py first)."""
import json, glob, os, re, collections
rows = []
for d in sorted(glob.glob('/verif/seeded/C*-*')):
    m = json.load(open(os.path.join(d, 'meta.json')))
    det = m.get('detection') or {}
    oth = m.get('detection_by_other_property_checks') or {}
    st = 'not run'
    if det:
        st = 'caught' if det['rc'] == 1 and det['violations'] > 0 else ('inconclusive' if det['rc'] == 2 else 'missed')
    for k, v in oth.items():
        if v['rc'] == 1 and v['violations'] > 0 and st != 'caught':
            st = 'caught by the %s check' % k
            det = v
    first = (det.get('first_failed') or '')
    first = re.sub(r'^.*?failed: ', '', first)[:150]
    rows.append((m['seed'], ', '.join(os.path.basename(f) for f in m['files_touched']), st, first))
cnt = collections.Counter(r[2].split(' by ')[0] for r in rows)
lines = ['## E. Seeded changes (independent sub-agents, `/verif/seeded/<id>-<n>/`)', '',
         'Each change was written by a fresh sub-agent that saw only the property text and its own scratch worktree, was confirmed by',
         '`bin/confirm_seed` (existing suite green with the change, demonstration fails with / passes without it) and run through `bin/seedtest`',
         '(the registered quick check of its property against a scratch worktree carrying the change).  %d changes: **%d caught** (VIOLATION with native replay),'
         % (len(rows), cnt['caught']),
         '%d missed (exit 0), %d inconclusive (exit 2: time-out / out of memory / a native scenario misbehaves without a solver counterexample), %d not run.'
         % (cnt['missed'], cnt['inconclusive'], cnt['not run']),
         'Full table with the demonstrations: `seeded/RESULTS.md`, per seed `seeded/<id>/meta.json`.', '',
         '| seed | file | verdict of the check | what fired |', '|---|---|---|---|']
for r in rows:
    lines.append('| %s | %s | %s | %s |' % (r[0], r[1], r[2], r[3].replace('|', '/')))
lines += ['',
          'What the misses have in common: they change the *meaning* of a filter or value operation on data shapes no kernel harness reaches (`sort`/`groupby`/`unique`/`format`/`replace`/`indent` in `filters.rs`,',
          '`Value::eq` for lazy iterables, `get_path`, `Map::as_const`, the `~` fast path in the VM, raw-block and line-comment lexing, `render_debug_info`): Kani does not get through `dyn Object` iteration, `String`',
          'building or the Unicode tables, and these are not control-flow facts engine M or B could type.  They are the "filters and value shapes outside" lines of the claims in section B.', '']
s = open('/verif/DESIGN.md').read()
i = s.index('## E. Seeded changes')
j = s.index('## F. Tiers')
open('/verif/DESIGN.md', 'w').write(s[:i] + '\n'.join(lines) + '\n' + s[j:])
print(cnt)
