#!/usr/bin/env python3
"""Rewrites section E of DESIGN.md from seeded/*/meta.json (run bin/seed_report.py first)."""
import json, glob, os, re, collections
rows = []
for d in sorted(glob.glob('/verif/seeded/C*-*')):
    m = json.load(open(os.path.join(d, 'meta.json')))
    det = m.get('detection') or {}
    oth = m.get('detection_by_other_property_checks') or {}
    st = 'not run'
    if det:
        st = 'caught' if det['rc'] == 1 and det['violations'] > 0 else ('inconclusive' if det['rc'] == 2 else 'missed')
    for k, v in oth.items():
        if v['rc'] == 1 and v['violations'] > 0 and st != 'caught':
            st = 'caught by the %s check' % k
            det = v
    first = (det.get('first_failed') or '')
    first = re.sub(r'^.*?failed: ', '', first)[:150]
    rows.append((m['seed'], ', '.join(os.path.basename(f) for f in m['files_touched']), st, first))
cnt = collections.Counter(r[2].split(' by ')[0] for r in rows)
lines = ['## E. Seeded changes (independent sub-agents, `/verif/seeded/<id>-<n>/`)', '',
         'Each change was written by a fresh sub-agent that saw only the property text and its own scratch worktree, was confirmed by',
         '`bin/confirm_seed` (existing suite green with the change, demonstration fails with / passes without it) and run through `bin/seedtest`',
         '(the registered quick check of its property against a scratch worktree carrying the change).  %d changes: **%d caught** (VIOLATION with native replay),'
         % (len(rows), cnt['caught']),
         '%d missed (exit 0), %d inconclusive (exit 2: time-out / out of memory / a native scenario misbehaves without a solver counterexample), %d not run.'
         % (cnt['missed'], cnt['inconclusive'], cnt['not run']),
         'Full table with the demonstrations: `seeded/RESULTS.md`, per seed `seeded/<id>/meta.json`.', '',
         '| seed | file | verdict of the check | what fired |', '|---|---|---|---|']
for r in rows:
    lines.append('| %s | %s | %s | %s |' % (r[0], r[1], r[2], r[3].replace('|', '/')))
lines += ['',
          'What is still missed (exit 0): `Map::as_const` skipping a non-constant key (C04-3), a keyword argument whose value is none treated as not given (C03-7), `undeclared_variables` re-parsing with the',
          'environment\'s current delimiters after `set_syntax` (C18-5) and `render_debug_info` (C14-2, C14-6): Kani does not get through `BTreeMap`-backed kwargs, the `fmt` machinery or a whole `Template`, and these',
          'are not control-flow or data-flow facts that a MIR query states without naming the very expression that was changed.  C01-6 (loop controls accepted in a macro body inside a loop; the render then panics) is',
          'missed by the C01 check and caught by the C05 check (engine B\'s typing of the emitted stream), which is recorded as such.  Inconclusive (exit 2): the three harnesses that time out on the changed code, C20-7,',
          'where the changed `LoaderStore::clear` leaves the grammar engine L translates, and C09-7, a parser-level rejection of `x[a:b:]` that only the native spelling row of the slice grid sees.',
          'Rounds 6, 7 and 8 (independent sub-agents, 36 changes) were first run against the checks as they stood - of the 12 changes of round 7 only C15-4 and C20-5 were caught at that point - and the checks were then extended where a missed change pointed at a fact that a',
          'solver query over the MIR or the bytecode can state in general terms (captures, safe-string sources, comparison arms, flag discipline of the notifier, comparators of the ordering filters, pooled buffers,',
          'state ids, literal radix ...); each extension is described in A.2 / A.4 with the seed it now catches, and was also run on a behaviour-preserving refactoring where one was easy to write (e.g. the capture mode',
          'held in a local first; `clear()` only on the recycle side of the pool).', '']
s = open('/verif/DESIGN.md').read()
i = s.index('## E. Seeded changes')
j = s.index('## F. Tiers')
open('/verif/DESIGN.md', 'w').write(s[:i] + '\n'.join(lines) + '\n' + s[j:])
print(cnt)
