#!/usr/bin/env python3
"""Writes seeded/<id>/meta.json for every seeded change and seeded/RESULTS.md from
/tmp/seedtest.summary-style lines kept in seeded/detection.log (appended by hand from bin/seedtest runs)."""
import json, os, re, glob

ROOT = '/verif/seeded'
props = {json.loads(l)['id']: json.loads(l)['title'] for l in open('/verif/properties.jsonl')}
det = {}
p = os.path.join(ROOT, 'detection.log')
if os.path.exists(p):
    for line in open(p):
        m = re.match(r'(\S+): (?:prop=(\S+) tier=(\S+) head=(\S+) )?rc=(\d+) violations=(\d+) wall=(\d+)s\s*(.*)', line.strip())
        if m:
            prop = m.group(2) or m.group(1).split('-')[0]
            # the latest run of a seed against its own property wins; runs against another property are kept aside
            key = m.group(1) if prop == m.group(1).split('-')[0] else m.group(1) + '@' + prop
            det[key] = dict(property_checked=prop, tier=m.group(3) or 'quick', repo_head=m.group(4), rc=int(m.group(5)), violations=int(m.group(6)),
                            wall_s=int(m.group(7)), first_failed=m.group(8).strip()[:300], raw=line.strip()[:400])
rows = []
for d in sorted(glob.glob(os.path.join(ROOT, 'C*-*'))):
    sid = os.path.basename(d)
    prop = sid.split('-')[0]
    notes = open(os.path.join(d, 'notes.md')).read() if os.path.exists(os.path.join(d, 'notes.md')) else ''
    conf = json.load(open(os.path.join(d, 'confirm.json'))) if os.path.exists(os.path.join(d, 'confirm.json')) else None
    patch = open(os.path.join(d, 'patch.diff')).read()
    files = sorted(set(re.findall(r'^\+\+\+ b/(\S+)', patch, re.M)))
    needs = ''
    m = re.search(r'(?is)(what (?:is )?need(?:s|ed)[^\n]*\n+|## trigger[^\n]*\n+|needs? to manifest[^\n]*\n+)(.{0,600})', notes)
    if m:
        needs = ' '.join(m.group(2).split())[:500]
    dd = det.get(sid)
    other = {k.split('@')[1]: v for k, v in det.items() if k.startswith(sid + '@')}
    meta = dict(seed=sid, property=prop, property_title=props.get(prop), files_touched=files,
                needs_to_manifest=needs or 'see notes.md', origin='independent sub-agent given only the property text and a scratch worktree',
                confirmed_by_me=conf, check_run=('bin/seedtest %s  (scratch worktree of /repo HEAD + patch.diff; VERIF_REPO=<worktree> bin/check %s --tier quick --no-evidence; worktree removed)' % (sid, prop)),
                detection=dd, detection_by_other_property_checks=other or None)
    json.dump(meta, open(os.path.join(d, 'meta.json'), 'w'), indent=1)
    status = 'not run'
    if dd:
        status = 'CAUGHT (VIOLATION, replayed natively)' if dd['rc'] == 1 and dd['violations'] > 0 else ('inconclusive (exit 2)' if dd['rc'] == 2 else 'missed (exit 0)')
    rows.append((sid, prop, ', '.join(files), 'yes' if conf and conf.get('confirmed') else ('?' if not conf else 'NO'), status, (dd or {}).get('first_failed', '')[:110]))
with open(os.path.join(ROOT, 'RESULTS.md'), 'w') as f:
    f.write('# Seeded changes and what the checks report on them\n\n')
    f.write('Each change was produced by an independent sub-agent (property text + scratch worktree only), confirmed by\n`bin/confirm_seed` (suite green with the change; demo fails with / passes without), and run through `bin/seedtest`.\n\n')
    f.write('| seed | property | files | confirmed | quick check | first failed assertion |\n|---|---|---|---|---|---|\n')
    for r in rows:
        f.write('| %s | %s | %s | %s | %s | %s |\n' % r)
print(open(os.path.join(ROOT, 'RESULTS.md')).read())
