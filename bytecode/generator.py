"""Program family for engine B.

Every program is a chain of up to `depth` nested scoped constructs with a leaf in the innermost
body; after every construct (at every nesting level) a sentinel text `|k` is emitted and the whole
template ends with `{{ lt }}|END` so that a render shows (a) that text after each construct still
reaches the real output and (b) which auto-escape mode is in effect at the end.

Conditions, iterables and auto-escape flags are plain context variables (c1.., l1.., f1..) so that a
counterexample path found on the bytecode can be turned into a context for native replay.
"""
import itertools, random

SCOPED = ['for', 'forelse', 'forrec', 'forrecne', 'forfilter', 'with', 'setblock', 'setblockf', 'filter', 'autoescape', 'if', 'ifelse']
SCOPED_MACRO = ['macrocall', 'callblock']
LEAVES_EXTRA = ['setblockself', 'looplookup', 'slice', 'nsset', 'callarg', 'testarg', 'ifexpr', 'mapkey']
LEAVES = ['text', 'emit', 'break', 'continue', 'set', 'ifbreak', 'ifcontinue', 'emitvar', 'setself', 'withself', 'recurse']


class Gen:
    def __init__(self):
        self.n = 0

    def fresh(self, p):
        self.n += 1
        return '%s%d' % (p, self.n)

    def leaf(self, kind, loopvar):
        if kind == 'text':
            return 'T'
        if kind == 'emit':
            return '{{ a }}'
        if kind == 'emitvar':
            return '{{ %s }}' % (loopvar or 'b')
        if kind == 'break':
            return '{% break %}'
        if kind == 'continue':
            return '{% continue %}'
        if kind == 'ifbreak':
            return '{%% if %s %%}{%% break %%}{%% endif %%}B' % self.fresh('c')
        if kind == 'ifcontinue':
            return '{%% if %s %%}{%% continue %%}{%% endif %%}C' % self.fresh('c')
        if kind == 'set':
            return '{% set s = a %}'
        if kind == 'setself':
            return '{% set q = q %}{{ q }}'
        if kind == 'withself':
            return '{% with w = w %}{{ w }}{% endwith %}'
        if kind == 'setblockself':
            return '{% set z %}[{{ z }}]{% endset %}{{ z }}'
        if kind == 'slice':
            return '{{ sl[i1:i2:i3] }}'
        if kind == 'nsset':
            return '{% set nsx.attr = a %}'
        if kind == 'callarg':
            return '{{ fn1(ca1, k=ca2) }}{{ ob1.meth(ca3) }}'
        if kind == 'testarg':
            return '{{ a is divisibleby(ta1) }}{{ a|default(da1) }}'
        if kind == 'ifexpr':
            return '{{ ie1 if ie2 else ie3 }}{{ [li1, (tu1, tu2), {"k": ma1}] }}'
        if kind == 'mapkey':
            # a dict literal whose key is an expression, a keyword-argument value and a subscript key
            return '{{ {mk1: 1, "k": mv1} }}{{ {(mk2 ~ "_id"): 2}|length }}{{ a[mk3] }}{{ dict(kw=mk4) }}'
        if kind == 'looplookup':
            return '{{ loop.index }}'
        if kind == 'recurse':
            return '{{ loop(%s.c) }}' % (loopvar or 'x')
        raise ValueError(kind)

    def wrap(self, kind, body, level):
        s = '|%d' % level
        if kind == 'for':
            v = self.fresh('x')
            return '{%% for %s in %s %%}%s{%% endfor %%}%s' % (v, self.fresh('l'), body(v), s)
        if kind == 'forelse':
            v = self.fresh('x')
            return '{%% for %s in %s %%}%s{%% else %%}E{%% endfor %%}%s' % (v, self.fresh('l'), body(v), s)
        if kind == 'forelsevar':
            # the else body runs after the loop frame is gone: the loop target read there is an outer name
            v = self.fresh('x')
            return '{%% for %s in %s %%}%s{%% set inloop = a %%}{%% else %%}{{ %s }}{{ inloop }}{%% endfor %%}%s' % (v, self.fresh('l'), body(v), v, s)
        if kind == 'forrec':
            v = self.fresh('x')
            return '{%% for %s in %s recursive %%}%s{{ loop(%s.c) }}{%% else %%}E{%% endfor %%}%s' % (v, self.fresh('l'), body(v), v, s)
        if kind == 'forrecne':
            v = self.fresh('x')
            return '{%% for %s in %s recursive %%}%s{{ loop(%s.c) }}{%% endfor %%}%s' % (v, self.fresh('l'), body(v), v, s)
        if kind == 'forfilterloop':
            v = self.fresh('x')
            return '{%% for %s in %s if loop %%}%s{%% endfor %%}%s' % (v, self.fresh('l'), body(v), s)
        if kind == 'forloopiter':
            v = self.fresh('x')
            return '{%% for %s in loop %%}%s{%% endfor %%}%s' % (v, body(v), s)
        if kind == 'forunpack':
            v = self.fresh('x')
            return '{%% for (%s, %s_b) in %s %%}%s{{ %s_b }}{%% endfor %%}%s' % (v, v, self.fresh('l'), body(v), v, s)
        if kind == 'forfilter':
            v = self.fresh('x')
            return '{%% for %s in %s if %s %%}%s{%% endfor %%}%s' % (v, self.fresh('l'), v, body(v), s)
        if kind == 'with':
            return '{%% with %s = a %%}%s{%% endwith %%}%s' % (self.fresh('w'), body(None), s)
        if kind == 'with2':
            # a later binding reads an earlier target of the same with statement
            w1, w2 = self.fresh('w'), self.fresh('w')
            return '{%% with %s = a, %s = %s %%}%s{{ %s }}{%% endwith %%}%s' % (w1, w2, w1, body(None), w2, s)
        if kind == 'setblock':
            v = self.fresh('sb')
            return '{%% set %s %%}%s{%% endset %%}{{ %s }}%s' % (v, body(None), v, s)
        if kind == 'setblockf':
            v = self.fresh('sb')
            return '{%% set %s | replace(ra, rb) %%}%s{%% endset %%}{{ %s }}%s' % (v, body(None), v, s)
        if kind == 'filter':
            return '{%% filter replace(ra, rb) %%}%s{%% endfilter %%}%s' % (body(None), s)
        if kind == 'autoescape':
            # the mode is rendered on entry and before the exit of the block: `(k=<` ... `<=k)`; a scoped
            # construct in between must leave it as found
            return '{%% autoescape %s %%}(%d={{ lt }}%s{{ lt }}=%d){%% endautoescape %%}%s' % (
                self.fresh('f'), level, body(None), level, s)
        if kind == 'block':
            return '{%% block %s %%}%s{%% endblock %%}%s' % (self.fresh('blk'), body(None), s)
        if kind == 'if':
            return '{%% if %s %%}%s{%% endif %%}%s' % (self.fresh('c'), body(None), s)
        if kind == 'ifelse':
            return '{%% if %s %%}%s{%% else %%}F{%% endif %%}%s' % (self.fresh('c'), body(None), s)
        if kind == 'macrocall':
            m = self.fresh('m')
            return '{%% macro %s(p) %%}%s{%% endmacro %%}{{ %s(a) }}%s' % (m, body(None), m, s)
        if kind == 'callblock':
            m = self.fresh('m')
            return '{%% macro %s() %%}[{{ caller() }}]{%% endmacro %%}{%% call %s() %%}%s{%% endcall %%}%s' % (m, m, body(None), s)
        raise ValueError(kind)


def program(chain, leaf):
    g = Gen()

    def build(i, loopvar):
        if i == len(chain):
            return g.leaf(leaf, loopvar)
        kind = chain[i]
        return g.wrap(kind, lambda v: build(i + 1, v or loopvar) + 'u', i)

    return build(0, None) + '{{ lt }}|END'


def block_in_loop_family():
    """a block inside a loop body starts a scope of its own: loop controls directly in it are rejected by the
    parser (they are compiled by a generator that knows no enclosing loop); if they are accepted, the emitted
    clean-up must still balance - the typing decides"""
    out = []
    for chain in (['for', 'block'], ['for', 'block', 'with'], ['for', 'block', 'setblock'], ['forelse', 'block', 'with'], ['for', 'with', 'block', 'if']):
        for leaf in ('text', 'emit', 'break', 'continue', 'ifbreak', 'ifcontinue'):
            out.append(dict(chain=list(chain), leaf=leaf, src=program(chain, leaf)))
    return out


def family(max_depth, with_macros=False, leaves=None, scoped=None):
    scoped = scoped or (SCOPED + (SCOPED_MACRO if with_macros else []))
    leaves = leaves or LEAVES
    out = []
    for d in range(1, max_depth + 1):
        for chain in itertools.product(scoped, repeat=d):
            for leaf in leaves:
                # loop controls / recursion need an enclosing loop; the parser rejects the rest, skip them early
                has_loop = any(k.startswith('for') for k in chain)
                if leaf in ('break', 'continue', 'ifbreak', 'ifcontinue') and not has_loop:
                    continue
                if leaf == 'recurse' and not any(k.startswith('forrec') for k in chain):
                    continue
                out.append(dict(chain=list(chain), leaf=leaf, src=program(chain, leaf)))
    return out


# ---------------------------------------------------------------------------------------------
# Macro family (C18 with macros / call blocks, C03 closure soundness)
#
# A macro `m(<signature>)` whose body reads `v` (and `w`) under different control flow, defined after an
# optional template-level `{% set v = "T" %}`, then called.  Arguments are context variables p1/p2 so that a
# bytecode path can be driven natively.  Every read of v that the body's own frames do not bind prints
# `[value]`: with the template-level set it must print [T] (or [M] after a set inside the macro), never the
# context's [CTX] and never [] - that is the native oracle of the closure check.
# ---------------------------------------------------------------------------------------------
MACRO_PREFIX = ['', '{% set v = "T" %}', '{% if p2 %}{% set v = "T" %}{% endif %}', '{% for v in l1 %}{% endfor %}{% set w = "T" %}',
                # the template assigns a name that is also a PARAMETER of the macro: a default that reads it (`b=a`) is evaluated before the parameter is bound
                '{% set a = "T" %}']
MACRO_SIGS = [('a', 'p1'), ('a, b=a', 'p1'), ('a=v, b=1', ''), ('a, b=v', 'p1'), ('a=a', ''), ('a, b=a, c=b', 'p1'), ('a, v=1', 'p1'), ('a, b=w', 'p1')]
MACRO_BODIES = [
    '[v={{ v }}]',
    '{% if a %}{% set v = "M" %}{% endif %}[v={{ v }}]',
    '{% for v in a %}{{ v }}{% endfor %}[v={{ v }}]',
    '{% with v = a %}{{ v }}{% endwith %}[v={{ v }}]',
    '{% set v = v %}[v={{ v }}]',
    '{% for x in a %}{% set v = x %}{% else %}[v={{ v }}]{% endfor %}',
    '{% if a %}{% set v = "M" %}{% else %}{% set w = "M" %}{% endif %}[v={{ v }}][w={{ w }}]',
    '{% macro inner() %}[v={{ v }}]{% endmacro %}{{ inner() }}',
    '{% if a %}{% if b %}{% set v = "M" %}{% endif %}{% endif %}[v={{ v }}]',
    '{% for x in a %}{% if x %}{% set v = "M" %}{% endif %}[v={{ v }}]{% endfor %}',
    '{% if a %}{% set v = "M" %}{% elif b %}{% set v = "M" %}{% else %}{% endif %}[v={{ v }}]',
    '{% set v %}x{% endset %}[v={{ v }}]',
    '{% for x in a %}{% else %}{% set v = "M" %}{% endfor %}[v={{ v }}]',
    '{% filter upper %}{% set v = "M" %}{% endfilter %}[v={{ v }}]',
]
# a macro that calls itself: its own name is enclosed at the definition, before the macro is stored
SELFREC_BODIES = ['{% if a %}{{ m(0) }}x{% endif %}[v={{ v }}]', '{% for x in a %}{{ m(0) }}{% endfor %}']
CALLER_BODIES = ['[x={{ x }}{{ y }}]', '[v={{ v }}]', '{% if x %}{% set v = "M" %}{% endif %}[v={{ v }}]', '{% set x = v %}[x={{ x }}]']
CALLER_SIGS = ['x', 'x, y=x', 'x, y=v', 'x=v, y=1']


def macro_family():
    out = []
    for pre in MACRO_PREFIX:
        for sig, arg in MACRO_SIGS:
            for body in MACRO_BODIES:
                src = '%s{%% macro m(%s) %%}%s{%% endmacro %%}{{ m(%s) }}|END' % (pre, sig, body, arg)
                out.append(dict(chain=['macro', sig], leaf=body, src=src, prefix=MACRO_PREFIX.index(pre)))
        for body in SELFREC_BODIES:
            src = '%s{%% macro m(a) %%}%s{%% endmacro %%}{{ m(p1) }}|END' % (pre, body)
            out.append(dict(chain=['macro', 'a'], leaf=body, src=src, prefix=MACRO_PREFIX.index(pre), selfrec=['m']))
        for sig in CALLER_SIGS:
            for body in CALLER_BODIES:
                src = '%s{%% macro m() %%}<{{ caller(p1) }}>{%% endmacro %%}{%% call(%s) m() %%}%s{%% endcall %%}|END' % (pre, sig, body)
                out.append(dict(chain=['callblock', sig], leaf=body, src=src, prefix=MACRO_PREFIX.index(pre)))
    return out


def closure_oracle(prefix, ctx, out):
    """Names that the template assigns unconditionally before the macro is defined must be seen by the macro
    (value T, or M after a set inside the macro): a read printed as `n=CTX..` (render context) or `n=]`
    (undefined) shows the closure missed the name."""
    names = {1: ['v'], 2: ['v'] if ctx.get('p2') else [], 3: ['w']}.get(prefix, [])
    for n in names:
        if ('%s=CTX' % n) in out or ('%s=]' % n) in out:
            return 'the macro reads %s as %r' % (n, out[:80])
    return None


# signatures for the prologue check: (signature text, [(param, default or None)]); ('const', x) / ('name', n)
PROLOGUE_SIGS = [
    ('a, b="DB", c="DC"', [('a', None), ('b', ('const', 'DB')), ('c', ('const', 'DC'))]),
    ('a="DA", b="DB"', [('a', ('const', 'DA')), ('b', ('const', 'DB'))]),
    ('a, b="DB"', [('a', None), ('b', ('const', 'DB'))]),
    ('a="DA", b="DB", c="DC"', [('a', ('const', 'DA')), ('b', ('const', 'DB')), ('c', ('const', 'DC'))]),
    ('a, b=v, c=w', [('a', None), ('b', ('name', 'v')), ('c', ('name', 'w'))]),
    ('a, b, c="DC"', [('a', None), ('b', None), ('c', ('const', 'DC'))]),
    ('a, b=1, c=2, d=3', [('a', None), ('b', ('const', 1)), ('c', ('const', 2)), ('d', ('const', 3))]),
]


def prologue_family():
    out = []
    for sig, spec in PROLOGUE_SIGS:
        body = ''.join('[%s={{ %s }}]' % (p, p) for p, _ in spec)
        n = len(spec)
        calls = ''.join('{{ m(%s) }}' % ', '.join('"A%d"' % (i + 1) for i in range(j)) for j in range(n + 1))
        kw = '{{ m(%s="K") }}' % spec[-1][0]
        out.append(dict(kind='macro', sig=sig, spec=spec, src='{%% macro m(%s) %%}%s{%% endmacro %%}%s%s|END' % (sig, body, calls, kw)))
        out.append(dict(kind='callblock', sig=sig, spec=spec,
                        src='{%% macro m() %%}%s{%% endmacro %%}{%% call(%s) m() %%}%s{%% endcall %%}|END' % (
                            ''.join('<{{ caller(%s) }}>' % ', '.join('"A%d"' % (i + 1) for i in range(j)) for j in range(n + 1)), sig, body)))
    return out


def prologue_expected(spec, ctx):
    """Expected native output of the body for the calls with the first j arguments provided."""
    def val(i, j, kwlast=False):
        p, d = spec[i]
        if i < j:
            return 'A%d' % (i + 1)
        if d is None:
            return ''
        return str(d[1]) if d[0] == 'const' else str(ctx.get(d[1], ''))
    n = len(spec)
    outs = []
    for j in range(n + 1):
        outs.append(''.join('[%s=%s]' % (spec[i][0], val(i, j)) for i in range(n)))
    return outs


def macro_contexts():
    out = []
    for p1 in (0, 1, [], [0], [1], [0, 1]):
        for p2 in (0, 1):
            out.append({'p1': p1, 'p2': p2, 'v': 'CTXV', 'w': 'CTXW', 'b': p2, 'a': 'CTXA', 'x': 'CTXX', 'l1': [1]})
    return out


def sample(progs, n, seed):
    rnd = random.Random(seed)
    if len(progs) <= n:
        return progs
    return rnd.sample(progs, n)


if __name__ == '__main__':
    import sys
    f = family(int(sys.argv[1]) if len(sys.argv) > 1 else 2, with_macros=True)
    print(len(f))
    for p in f[:5] + f[-5:]:
        print(p['src'])


# ---------------------------------------------------------------------------------------------
# C06: from-import / import statements (engine B, run_c06)
# ---------------------------------------------------------------------------------------------
IMPORT_NAMES = ['a', 'b', 'c']
MODULE_SRC = ''.join('{%% macro %s() %%}<%s>{%% endmacro %%}' % (n, n) for n in IMPORT_NAMES) + '{% set v = "MV" %}{% set w %}MW{% endset %}'


def import_family():
    """`{% from "m" import <items> %}` for item lists over the exported names a, b, c with and without aliases
    (including aliases that collide with other exported names and swapped pairs), placed at top level, inside a
    loop, an if, a with block, a macro and a block; followed by one call per bound name."""
    item_lists = [
        [('a', None)], [('a', 'x')], [('a', 'b')], [('a', 'b'), ('b', 'a')], [('a', 'x'), ('b', None)],
        [('a', None), ('b', 'y'), ('c', None)], [('b', 'a'), ('c', 'b'), ('a', 'c')], [('c', 'x'), ('a', 'y')],
        [('v', None)], [('v', 'a'), ('a', 'v')], [('w', None)], [('w', 'x'), ('a', None)],
    ]
    places = [
        ('top', '%s'),
        ('for', '{%% for i in l1 %%}%s{%% endfor %%}'),
        ('if', '{%% if c1 %%}%s{%% endif %%}'),
        ('with', '{%% with q = 1 %%}%s{%% endwith %%}'),
        ('macro', '{%% macro outer() %%}%s{%% endmacro %%}{{ outer() }}'),
        ('block', '{%% block blk %%}%s{%% endblock %%}'),
    ]
    out = []
    for items in item_lists:
        stmt = '{%% from "m" import %s %%}' % ', '.join(n if al is None else '%s as %s' % (n, al) for n, al in items)
        uses = ''.join('[%s=%s]' % (al or n, '{{ %s }}' % (al or n) if n in ('v', 'w') else '{{ %s() }}' % (al or n)) for n, al in items)
        exp = ''.join('[%s=%s]' % (al or n, 'MV' if n == 'v' else 'MW' if n == 'w' else '<%s>' % n) for n, al in items)
        for pname, tpl in places:
            out.append(dict(kind='from', place=pname, items=items, src=(tpl % (stmt + uses)) + '|END', expected=exp))
    return out
