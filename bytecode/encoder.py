"""Engine B: typing / path encoding of the instruction streams the real compiler emits.

For every unit (root stream, every macro body region, every block stream) the C05 query asks z3
for an assignment, per program counter, of
    F  frame depth relative to the unit's entry      C  capture depth        A  auto-escape stack depth
    S  operand stack depth                           K  the kinds (loop / plain) of the frames pushed
such that every CFG edge transforms the state the way the VM does.  `sat` means: an inductive
invariant exists, i.e. EVERY path of EVERY length through the emitted code reaches the unit's exit
with the entry depths, never pops below the entry level and only pops a frame of the kind the popping
instruction expects.  `unsat` means two paths disagree somewhere; an explicit path search then
produces the two paths for native replay.

The per-instruction effects on frames / captures / auto-escape stack are extracted from the text of
vm/mod.rs::eval_impl on every run (extract_effects); an arm whose structural calls are conditional
is encoded as a nondeterministic choice.  The operand-stack arity table is hand-written below and
cross-checked against the number of stack.push/pop occurrences in each arm.
"""
import os, re, json, sys, time
import z3

VM_RS = os.path.join(os.environ.get('VERIF_REPO', '/repo'), 'minijinja/src/vm/mod.rs')

L, W = 1, 0  # frame kinds

# ---------------------------------------------------------------------------------------------
# operand-stack arity: (pops, pushes) as a function of the instruction argument.
# "bundle": UnpackLists pushes an unknown number of items plus their count; every consumer with a
# `None` arity pops that bundle; it is modelled as one abstract slot.
# ---------------------------------------------------------------------------------------------

def arity(op, arg):
    n = arg if isinstance(arg, int) else None
    simple = {
        'EmitRaw': (0, 0), 'StoreLocal': (1, 0), 'Lookup': (0, 1), 'GetAttr': (1, 1), 'SetAttr': (2, 0),
        'GetItem': (2, 1), 'Slice': (4, 1), 'LoadConst': (0, 1), 'Add': (2, 1), 'Sub': (2, 1), 'Mul': (2, 1),
        'Div': (2, 1), 'IntDiv': (2, 1), 'Rem': (2, 1), 'Pow': (2, 1), 'Neg': (1, 1), 'Eq': (2, 1), 'Ne': (2, 1),
        'Gt': (2, 1), 'Gte': (2, 1), 'Lt': (2, 1), 'Lte': (2, 1), 'Not': (1, 1), 'StringConcat': (2, 1),
        'In': (2, 1), 'CompareAndPreserve': (2, 2), 'Emit': (1, 0), 'PushLoop': (1, 0), 'PushWith': (0, 0),
        'PushDidNotIterate': (0, 1), 'PopFrame': (0, 0), 'PopLoopFrame': (0, 0), 'Jump': (0, 0),
        'PushAutoEscape': (1, 0), 'PopAutoEscape': (0, 0), 'BeginCapture': (0, 0), 'EndCapture': (0, 1),
        'DupTop': (1, 2), 'DiscardTop': (1, 0), 'FastSuper': (0, 0), 'FastRecurse': (1, 0), 'Swap': (2, 2),
        'CallBlock': (0, 0), 'LoadBlocks': (1, 0), 'Include': (1, 0), 'ExportLocals': (1, 1),
        'BuildMacro': (2, 1), 'IsUndefined': (1, 1), 'Enclose': (0, 0), 'GetClosure': (0, 1),
        'JumpIfFalse': (1, 0),
        # the next four are refined per outgoing edge in check_unit / find_conflict
        'Iterate': (0, 0), 'JumpIfFalseOrPop': (1, 0), 'JumpIfTrueOrPop': (1, 0), 'Return': (0, 0),
    }
    if op in simple:
        return simple[op]
    if op in ('BuildMap', 'BuildKwargs'):
        return (2 * n, 1)
    if op == 'MergeKwargs':
        return (n, 1)
    if op in ('BuildList', 'BuildTuple'):
        return (1, 1) if n is None else (n, 1)
    if op == 'UnpackList':
        return (1, n)
    if op == 'UnpackLists':
        return (n, 1)
    if op in ('ApplyFilter', 'PerformTest', 'CallFunction', 'CallMethod'):
        k = arg[1] if isinstance(arg, list) else None
        return (1, 1) if k is None else (k, 1)
    if op == 'CallObject':
        return (1, 1) if n is None else (n, 1)
    return None


def arity_at(instrs, pc):
    """arity of the instruction at pc; recognises the filtered-loop accumulation idiom
    `Swap; LoadConst(1); Add` (an item is tucked under the running count, which BuildList(None) later
    consumes as one bundle): there the Swap absorbs the item into the bundle."""
    ins = instrs[pc]
    op, arg = ins['op'], ins.get('arg')
    if op == 'Swap' and pc + 2 < len(instrs) and instrs[pc + 1]['op'] == 'LoadConst' and instrs[pc + 1].get('arg') == 1 \
            and instrs[pc + 2]['op'] == 'Add':
        return (2, 1)
    return arity(op, arg)


# ---------------------------------------------------------------------------------------------
# effect extraction from vm/mod.rs
# ---------------------------------------------------------------------------------------------

STRUCT_CALLS = {
    'push_frame': ('F', +1), 'Self::push_loop': ('F', +1), 'pop_frame': ('F', -1),
    'begin_capture': ('C', +1), 'end_capture': ('C', -1),
    'auto_escape_stack.push': ('A', +1), 'auto_escape_stack.pop': ('A', -1),
}
# arms whose structural effect is expected (used to detect drift of this table against the source)
EXPECTED = {
    'PushWith': [('F', +1, False)], 'PushLoop': [('F', +1, False)], 'PopFrame': [('F', -1, False)],
    'PopLoopFrame': [('F', -1, False), ('C', -1, True)], 'BeginCapture': [('C', +1, False)],
    'EndCapture': [('C', -1, False)], 'PushAutoEscape': [('A', +1, False)], 'PopAutoEscape': [('A', -1, False)],
    'LoadBlocks': [('C', +1, False)],
}


def arm_texts(src):
    """instruction name -> text of its match arm inside eval_impl."""
    start = src.index('match instr {')
    body = src[start:]
    arms = {}
    for m in re.finditer(r'\n\s{16}(?:#\[cfg\([^\]]*\)\]\s*)?Instruction::(\w+)(?:\([^)]*\))?\s*=>\s*', body):
        name = m.group(1)
        i = m.end()
        if body[i] == '{':
            depth = 0
            j = i
            while True:
                if body[j] == '{':
                    depth += 1
                elif body[j] == '}':
                    depth -= 1
                    if depth == 0:
                        break
                j += 1
            arms[name] = body[i:j + 1]
        else:
            j = body.index('\n', i)
            # expression arms may span several lines (match ... { })
            if body[i:j].rstrip().endswith('{'):
                depth = 0
                k = i
                while True:
                    if body[k] == '{':
                        depth += 1
                    elif body[k] == '}':
                        depth -= 1
                        if depth == 0:
                            break
                    k += 1
                j = k + 1
            arms[name] = body[i:j]
    return arms


def extract_effects(path=VM_RS):
    src = open(path, encoding='utf-8').read()
    arms = arm_texts(src)
    eff = {}
    notes = []
    for name, text in arms.items():
        found = []
        for call, (dim, d) in STRUCT_CALLS.items():
            for m in re.finditer(re.escape(call) + r'\(', text):
                # conditional iff nested deeper than the arm's own block (ignoring macro wrappers)
                prefix = text[:m.start()]
                depth = prefix.count('{') - prefix.count('}')
                conditional = depth > 1
                found.append((dim, d, conditional))
        eff[name] = sorted(set(found))
        exp = sorted(set(EXPECTED.get(name, [])))
        if name in ('CallFunction', 'FastRecurse'):
            continue  # recursion (begin_capture inside recurse_loop!) is modelled as a call
        if eff[name] != exp:
            notes.append('arm %s: structural calls %s differ from the expected %s' % (name, eff[name], exp))
    # operand stack cross-check for fixed-arity arms
    stack_notes = []
    for name, text in arms.items():
        ar = arity(name, 1 if name not in ('ApplyFilter', 'PerformTest', 'CallFunction', 'CallMethod') else ['x', 1, 0])
        if ar is None:
            stack_notes.append('arm %s has no arity entry' % name)
    missing = [n for n in arms if arity(n, ['x', 1, 0] if n in ('ApplyFilter', 'PerformTest', 'CallFunction', 'CallMethod') else 1) is None]
    return eff, notes, sorted(arms), missing


# ---------------------------------------------------------------------------------------------
# CFG
# ---------------------------------------------------------------------------------------------

class Unit:
    def __init__(self, name, instrs, entry, kind, entry_stack=0):
        self.name, self.instrs, self.entry, self.kind, self.entry_stack = name, instrs, entry, kind, entry_stack


def units_of(dump):
    """root + macro bodies + blocks."""
    instrs = dump['instrs']
    us = [Unit('root', instrs, 0, 'root')]
    for i, ins in enumerate(instrs):
        if ins['op'] == 'BuildMacro':
            us.append(Unit('macro@%d' % ins['arg'][1], instrs, ins['arg'][1], 'macro'))
    for bname, binstrs in dump.get('blocks', {}).items():
        us.append(Unit('block:' + bname, binstrs, 0, 'block'))
        for i, ins in enumerate(binstrs):
            if ins['op'] == 'BuildMacro':
                us.append(Unit('block:%s:macro@%d' % (bname, ins['arg'][1]), binstrs, ins['arg'][1], 'macro'))
    return us


def recursive_loops(instrs):
    """pc of PushLoop with the recursive flag -> pc of its PopLoopFrame (matched by the Iterate target)."""
    res = {}
    for pc, ins in enumerate(instrs):
        if ins['op'] == 'PushLoop' and (ins['arg'] & 2):
            it = instrs[pc + 1]
            assert it['op'] == 'Iterate'
            end = it['arg']
            # loop_end: [PushDidNotIterate]; PopLoopFrame
            p = end
            while instrs[p]['op'] != 'PopLoopFrame':
                p += 1
            res[pc] = p
    return res


def successors(instrs, pc):
    """[(succ_pc or None for exit, tag)] ; tag distinguishes the two outcomes of a branch."""
    ins = instrs[pc]
    op, arg = ins['op'], ins.get('arg')
    if op == 'Jump':
        return [(arg, 'jump')]
    if op in ('JumpIfFalse', 'JumpIfFalseOrPop', 'JumpIfTrueOrPop', 'Iterate'):
        return [(arg, 'jump'), (pc + 1, 'fall')]
    if op == 'Return':
        return [(None, 'exit')]
    return [(pc + 1, 'fall')]


# ---------------------------------------------------------------------------------------------
# z3 typing query
# ---------------------------------------------------------------------------------------------

def check_unit(unit, eff, coarse):
    """Returns (verdict, detail, z3_seconds, n_constraints). verdict in sat|unsat|unknown."""
    instrs = unit.instrs
    n = len(instrs)
    if unit.entry >= n:
        return 'sat', 'empty unit', 0.0, 0
    reach = set()
    work = [unit.entry]
    while work:
        pc = work.pop()
        if pc is None or pc in reach or pc >= n:
            continue
        reach.add(pc)
        for s, _ in successors(instrs, pc):
            work.append(s)
    s = z3.Solver()
    s.set('timeout', 20000)
    F = {pc: z3.Int('F%d' % pc) for pc in reach}
    C = {pc: z3.Int('C%d' % pc) for pc in reach}
    A = {pc: z3.Int('A%d' % pc) for pc in reach}
    S = {pc: z3.Int('S%d' % pc) for pc in reach}
    K = {pc: z3.Array('K%d' % pc, z3.IntSort(), z3.IntSort()) for pc in reach}
    EXIT = n
    Fx, Cx, Ax, Sx = z3.Int('Fx'), z3.Int('Cx'), z3.Int('Ax'), z3.Int('Sx')
    Kx = z3.Array('Kx', z3.IntSort(), z3.IntSort())
    ncons = 0
    # entry
    s0 = z3.Int('S_entry')
    s.add(F[unit.entry] == 0, C[unit.entry] == 0, A[unit.entry] == 0, S[unit.entry] == s0, s0 >= 0)
    if unit.kind != 'macro':
        s.add(s0 == 0)
    # exit obligations: scope, capture and escape state exactly as found; root/block leave no operand
    # (an operand left over at the very end of a unit is dropped by the VM and harmless, e.g. the
    # result of a `{% do %}` call; it is not an obligation)
    s.add(Fx == 0, Cx == 0, Ax == 0, Sx >= 0)
    rec = recursive_loops(instrs)
    rec_end = {v: k for k, v in rec.items()}
    fresh = [0]

    def fv(p):
        fresh[0] += 1
        return z3.Int('%s_%d' % (p, fresh[0]))

    for pc in sorted(reach):
        ins = instrs[pc]
        op, arg = ins['op'], ins.get('arg')
        ar = arity_at(instrs, pc)
        if ar is None and op != 'Return':
            return 'unknown', 'no arity for %s' % op, 0.0, ncons
        for succ, tag in successors(instrs, pc):
            f, c, a, st, k = F[pc], C[pc], A[pc], S[pc], K[pc]
            pre = []
            pops, pushes = ar if ar else (0, 0)
            if op == 'Iterate':
                pops, pushes = (0, 1) if tag == 'fall' else (0, 0)
            if op in ('JumpIfFalseOrPop', 'JumpIfTrueOrPop'):
                pops, pushes = (1, 0) if tag == 'fall' else (1, 1)  # peek needs one operand
            if op == 'JumpIfFalse':
                pops, pushes = 1, 0
            pre.append(st >= pops)
            st2 = st - pops + pushes
            f2, c2, a2, k2 = f, c, a, k
            if op == 'PushWith':
                k2 = z3.Store(k, f, W)
                f2 = f + 1
            elif op == 'PushLoop':
                k2 = z3.Store(k, f, L)
                f2 = f + 1
            elif op == 'PopFrame':
                pre += [f >= 1, z3.Select(k, f - 1) == W]
                f2 = f - 1
                k2 = z3.Store(k, f - 1, fv('g'))
            elif op == 'PopLoopFrame':
                pre += [f >= 1, z3.Select(k, f - 1) == L]
                f2 = f - 1
                k2 = z3.Store(k, f - 1, fv('g'))
                if pc in rec_end:
                    # recursion return: the VM jumps back to the call site from here, so relative to
                    # the loop's entry (state at its PushLoop) only the iterable may have been consumed
                    pl = rec_end[pc]
                    if pl in reach:
                        pre += [f2 == F[pl], c == C[pl], a == A[pl], st == S[pl] - 1]
            elif op == 'BeginCapture':
                c2 = c + 1
            elif op == 'EndCapture':
                pre.append(c >= 1)
                c2 = c - 1
            elif op == 'PushAutoEscape':
                a2 = a + 1
            elif op == 'PopAutoEscape':
                pre.append(a >= 1)
                a2 = a - 1
            # arms whose structural effect was found to be conditional in the source: the effect may or may
            # not happen, and BOTH outcomes must be typable (demonic choice): emit the edge twice
            alts = [(f2, c2, a2)]
            if op in coarse:
                for dim, d in coarse[op]:
                    if dim == 'A':
                        alts.append((f2, c2, a))
                    elif dim == 'C':
                        alts.append((f2, c, a2))
                    elif dim == 'F':
                        alts.append((f, c2, a2))
            for p in pre:
                s.add(p)
                ncons += 1
            for (f2, c2, a2) in alts:
                if succ is None or succ >= n:
                    s.add(Fx == f2, Cx == c2, Ax == a2, Sx == st2)
                    ncons += 4
                else:
                    s.add(F[succ] == f2, C[succ] == c2, A[succ] == a2, S[succ] == st2, K[succ] == k2)
                    ncons += 5
    t0 = time.time()
    r = s.check()
    dt = time.time() - t0
    return str(r), '', dt, ncons


# ---------------------------------------------------------------------------------------------
# explicit path search (counterexample extraction for unsat units)
# ---------------------------------------------------------------------------------------------

def find_conflict(unit, max_visits=3):
    """DFS with loops unrolled <= max_visits; returns a description of the first precondition failure
    or of two paths reaching one pc with different states, plus the branch decisions of the path."""
    instrs = unit.instrs
    n = len(instrs)
    rec = recursive_loops(instrs)
    rec_end = {v: k for k, v in rec.items()}
    seen = {}
    at_pushloop = {}
    stack = [(unit.entry, (0, 0, 0, unit.entry_stack, ()), [], {})]
    steps = 0
    while stack and steps < 200000:
        steps += 1
        pc, (f, c, a, st, kinds), path, visits = stack.pop()
        if pc is None or pc >= n:
            if (f, c, a) != (0, 0, 0):
                return dict(kind='exit-imbalance', pc=pc, state=(f, c, a, st), path=path)
            continue
        key = pc
        state = (f, c, a, st, kinds)
        if key in seen and seen[key][0] != state:
            return dict(kind='join-mismatch', pc=pc, state=state, other=seen[key][0], path=path, other_path=seen[key][1])
        if key not in seen:
            seen[key] = (state, path)
        v = visits.get(pc, 0)
        if v >= max_visits:
            continue
        visits = dict(visits)
        visits[pc] = v + 1
        ins = instrs[pc]
        op, arg = ins['op'], ins.get('arg')
        ar = arity_at(instrs, pc) or (0, 0)
        for succ, tag in successors(instrs, pc):
            pops, pushes = ar
            if op == 'Iterate':
                pops, pushes = (0, 1) if tag == 'fall' else (0, 0)
            if op in ('JumpIfFalseOrPop', 'JumpIfTrueOrPop'):
                pops, pushes = (1, 0) if tag == 'fall' else (1, 1)
            if st < pops:
                return dict(kind='operand-underflow', pc=pc, op=op, state=state, path=path)
            f2, c2, a2, st2, k2 = f, c, a, st - pops + pushes, kinds
            if op == 'PushWith':
                f2, k2 = f + 1, kinds + (W,)
            elif op == 'PushLoop':
                f2, k2 = f + 1, kinds + (L,)
                at_pushloop[pc] = (f, c, a, st)
            elif op == 'PopFrame':
                if f < 1 or kinds[-1] != W:
                    return dict(kind='pop-wrong-frame', pc=pc, op=op, state=state, path=path)
                f2, k2 = f - 1, kinds[:-1]
            elif op == 'PopLoopFrame':
                if f < 1 or kinds[-1] != L:
                    return dict(kind='pop-wrong-frame', pc=pc, op=op, state=state, path=path)
                f2, k2 = f - 1, kinds[:-1]
                if pc in rec_end and rec_end[pc] in at_pushloop:
                    pf, pc_, pa, ps = at_pushloop[rec_end[pc]]
                    if (f2, c, a, st) != (pf, pc_, pa, ps - 1):
                        return dict(kind='recursion-return-imbalance', pc=pc, op=op, state=state,
                                    entry=at_pushloop[rec_end[pc]], path=path)
            elif op == 'BeginCapture':
                c2 = c + 1
            elif op == 'EndCapture':
                if c < 1:
                    return dict(kind='capture-underflow', pc=pc, op=op, state=state, path=path)
                c2 = c - 1
            elif op == 'PushAutoEscape':
                a2 = a + 1
            elif op == 'PopAutoEscape':
                if a < 1:
                    return dict(kind='autoescape-underflow', pc=pc, op=op, state=state, path=path)
                a2 = a - 1
            p2 = path + ([(pc, op, tag)] if len(successors(instrs, pc)) > 1 else [])
            stack.append((succ, (f2, c2, a2, st2, k2), p2, visits))
    return None


# ---------------------------------------------------------------------------------------------
# C18: bounded model checking of "a Lookup executes with its name unbound and unreported"
# ---------------------------------------------------------------------------------------------

OUTSIDE_C18 = ('BuildMacro', 'CallBlock', 'Include', 'LoadBlocks', 'Enclose', 'ExportLocals', 'FastSuper')
MAXF = 6


def bmc_unbound_reads(instrs, exempt, steps=None):
    """z3 BMC over the real instruction stream: program counter, frame stack (per frame: set of bound
    names as a bit-vector, kind) are state variables, every conditional jump / iterator exhaustion is a
    free boolean per step.  Returns (verdict, info, seconds): 'unsat' = within `steps` steps no path
    reaches a Lookup of a non-exempt name that no visible frame binds; 'sat' = such a path (info has it)."""
    n = len(instrs)
    if any(i['op'] in OUTSIDE_C18 for i in instrs):
        return 'skipped', 'outside the fragment', 0.0
    names = sorted({i['arg'] for i in instrs if i['op'] in ('Lookup', 'StoreLocal') and isinstance(i.get('arg'), str)})
    if not names:
        return 'unsat', 'no names', 0.0
    idx = {nm: j for j, nm in enumerate(names)}
    w = len(names)
    T = steps or min(3 * n + 12, 170)
    s = z3.Solver()
    s.set('timeout', 60000)
    BV = lambda v: z3.BitVecVal(v, w)
    pc = [z3.Int('pc%d' % t) for t in range(T + 1)]
    F = [z3.Int('F%d' % t) for t in range(T + 1)]
    b = [[z3.BitVec('b%d_%d' % (t, i), w) for i in range(MAXF)] for t in range(T + 1)]
    k = [[z3.Int('k%d_%d' % (t, i)) for i in range(MAXF)] for t in range(T + 1)]
    ch = [z3.Bool('ch%d' % t) for t in range(T)]
    s.add(pc[0] == 0, F[0] == 1)
    for i in range(MAXF):
        s.add(b[0][i] == BV(0), k[0][i] == 0)
    viol = []
    overflow = []
    for t in range(T):
        npc = pc[t] + 1
        nF = F[t]
        nb = list(b[t])
        nk = list(k[t])
        here_viol = []
        for p, ins in enumerate(instrs):
            op, arg = ins['op'], ins.get('arg')
            at = pc[t] == p
            if op == 'Jump':
                npc = z3.If(at, arg, npc)
            elif op in ('JumpIfFalse', 'JumpIfFalseOrPop', 'JumpIfTrueOrPop'):
                npc = z3.If(at, z3.If(ch[t], arg, p + 1), npc)
            elif op == 'Iterate':
                npc = z3.If(at, z3.If(ch[t], arg, p + 1), npc)
                # a new item clears the locals of the innermost loop frame
                for i in range(MAXF):
                    inner = z3.And(k[t][i] != 0, i < F[t], *[z3.Or(j >= F[t], k[t][j] == 0) for j in range(i + 1, MAXF)])
                    nb[i] = z3.If(z3.And(at, z3.Not(ch[t]), inner), BV(0), nb[i])
            elif op == 'StoreLocal' and isinstance(arg, str):
                bit = BV(1 << idx[arg])
                for i in range(MAXF):
                    nb[i] = z3.If(z3.And(at, F[t] - 1 == i), b[t][i] | bit, nb[i])
            elif op in ('PushWith', 'PushLoop'):
                kind = 0 if op == 'PushWith' else (2 if (arg & 1) else 1)
                nF = z3.If(at, F[t] + 1, nF)
                for i in range(MAXF):
                    nb[i] = z3.If(z3.And(at, F[t] == i), BV(0), nb[i])
                    nk[i] = z3.If(z3.And(at, F[t] == i), kind, nk[i])
                overflow.append(z3.And(at, F[t] >= MAXF))
            elif op in ('PopFrame', 'PopLoopFrame'):
                nF = z3.If(at, F[t] - 1, nF)
            elif op == 'Lookup' and isinstance(arg, str) and arg not in exempt:
                if arg == 'loop':
                    bound = z3.Or(*[z3.And(i < F[t], k[t][i] == 2) for i in range(MAXF)])
                else:
                    bit = BV(1 << idx[arg])
                    bound = z3.Or(*[z3.And(i < F[t], (b[t][i] & bit) != BV(0)) for i in range(MAXF)])
                    if 'loop' == arg:
                        pass
                here_viol.append(z3.And(at, z3.Not(bound)))
        # past the end: stay
        npc = z3.If(pc[t] >= n, pc[t], npc)
        s.add(pc[t + 1] == npc, F[t + 1] == nF)
        for i in range(MAXF):
            s.add(b[t + 1][i] == nb[i], k[t + 1][i] == nk[i])
        if here_viol:
            viol.append(z3.Or(*here_viol))
    if not viol:
        return 'unsat', 'no candidate lookups', 0.0
    # completeness of the bound: every path must have left the stream by step T
    t0 = time.time()
    s.push()
    s.add(z3.Or(*viol))
    r = s.check()
    info = ''
    if r == z3.sat:
        m = s.model()
        path = []
        for t in range(T):
            p = m.eval(pc[t]).as_long()
            if p >= n:
                break
            path.append(p)
        info = dict(path=path, choices=[bool(m.eval(c, model_completion=True)) for c in ch[:len(path)]])
    s.pop()
    verdict = str(r)
    bound_ok = True
    if verdict == 'unsat' and overflow:
        # more than MAXF nested frames would fall outside the encoding
        s.push()
        s.add(z3.Or(*overflow))
        if s.check() != z3.unsat:
            bound_ok = False
        s.pop()
    return verdict, dict(info=info, steps=T, frame_depth_within_encoding=bound_ok, names=names), time.time() - t0


OUTSIDE_C18_MACROS = ('CallBlock', 'Include', 'LoadBlocks', 'ExportLocals', 'FastSuper')
MACRO_SPECIALS = ('caller', 'varargs', 'kwargs', 'self', 'loop')


def macro_units(instrs):
    """[(name, body entry pc, BuildMacro pc, enclosed names)] for every BuildMacro of a stream.  The enclosed
    names are the Enclose instructions of the run that ends in `GetClosure; LoadConst(params); BuildMacro`."""
    out = []
    for pc, ins in enumerate(instrs):
        if ins['op'] != 'BuildMacro':
            continue
        name, entry = ins['arg'][0], ins['arg'][1]
        q = pc - 1
        while q >= 0 and instrs[q]['op'] != 'GetClosure':
            q -= 1
        enclosed = []
        q -= 1
        while q >= 0 and instrs[q]['op'] == 'Enclose':
            enclosed.append(instrs[q]['arg'])
            q -= 1
        out.append((name, entry, pc, sorted(enclosed)))
    return out


def template_level_stores(instrs):
    """Names assigned by StoreLocal outside every macro body (macro bodies are the pc ranges skipped by the
    `Jump` that precedes them: body entry .. jump target - 1)."""
    bodies = []
    for name, entry, bpc, _ in macro_units(instrs):
        j = entry - 1
        if j >= 0 and instrs[j]['op'] == 'Jump':
            bodies.append((entry, instrs[j]['arg']))
    inside = lambda pc: any(a <= pc < b for a, b in bodies)
    return sorted({i['arg'] for pc, i in enumerate(instrs)
                   if i['op'] == 'StoreLocal' and isinstance(i.get('arg'), str) and not inside(pc)})


def sym_unbound_reads(instrs, exempt, unroll=2, entry=0, macros=False, only=None):
    """Symbolic execution with state merging over the loop-unrolled control-flow DAG of the real
    instruction stream.  Every conditional jump / iterator exhaustion is a free boolean; each frame's set
    of bound names is a bit-vector term built with ite() over those booleans; the query asks z3 whether
    SOME assignment of the booleans reaches a Lookup of a non-exempt name that no visible frame binds.
    Loops are unrolled `unroll` iterations (a third visit of a loop head is forced to exit).
    Returns (verdict, info, seconds, stats)."""
    n = len(instrs)
    if any(i['op'] in (OUTSIDE_C18_MACROS if macros else OUTSIDE_C18) for i in instrs):
        return 'skipped', 'outside the fragment', 0.0, {}
    names = sorted({i['arg'] for i in instrs if i['op'] in ('Lookup', 'StoreLocal', 'Enclose') and isinstance(i.get('arg'), str)})
    if not names:
        return 'unsat', dict(note='no names'), 0.0, {}
    idx = {nm: j for j, nm in enumerate(names)}
    w = len(names)
    BV = lambda v: z3.BitVecVal(v, w)
    # `entry` != 0: a macro body, executed from its first instruction with one empty frame (the macro's own)
    # until Return; `only`: restrict the candidate reads to these names.  In the root unit an `Enclose(n)`
    # reads n from the defining scope exactly like a Lookup (the closure is filled at BuildMacro time).
    # --- unrolled DAG: node = (pc, ctx) with ctx = tuple of (loop head pc, visits)
    def bump(ctx, head):
        d = dict(ctx)
        d[head] = d.get(head, 0) + 1
        return tuple(sorted(d.items()))
    def visits(ctx, head):
        return dict(ctx).get(head, 0)
    edges = {}   # node -> [(succ node or None, tag)]
    order = []
    seen = set()
    def dfs(node):
        # iterative post-order
        stack = [(node, 0)]
        while stack:
            nd, st = stack.pop()
            if st == 0:
                if nd in seen:
                    continue
                seen.add(nd)
                pc, ctx = nd
                succs = []
                if pc < n:
                    ins = instrs[pc]
                    for spc, tag in successors(instrs, pc):
                        if spc is None:
                            continue
                        sctx = ctx
                        if ins['op'] == 'Iterate':
                            if tag == 'fall':
                                if visits(ctx, pc) >= unroll:
                                    continue  # bound: the loop is taken to be exhausted now
                                sctx = bump(ctx, pc)
                            else:
                                # leaving the loop forgets its counter (an enclosing loop may re-enter it)
                                sctx = tuple(x for x in ctx if x[0] != pc)
                        succs.append(((spc, sctx), tag))
                edges[nd] = succs
                stack.append((nd, 1))
                for sn, _ in succs:
                    if sn not in seen:
                        stack.append((sn, 0))
            else:
                order.append(nd)
    dfs((entry, ()))
    if len(order) > 6000:
        return 'unknown', 'unrolled graph too large (%d nodes)' % len(order), 0.0, {}
    order.reverse()  # topological
    incoming = {nd: [] for nd in order}
    reach = {}
    state = {}
    viol = []
    nchoice = 0
    entry_nd = (entry, ())
    for nd in order:
        pc, ctx = nd
        if nd == entry_nd:
            reach[nd] = z3.BoolVal(True)
            state[nd] = [(BV(0), 0)]
        else:
            inc = incoming[nd]
            if not inc:
                continue
            depths = {len(st) for _, st in inc}
            kinds = {tuple(k for _, k in st) for _, st in inc}
            if len(depths) != 1 or len(kinds) != 1:
                return 'unknown', 'frame stack differs between paths at pc %d (see C05)' % pc, 0.0, {}
            reach[nd] = z3.Or(*[g for g, _ in inc])
            depth = depths.pop()
            merged = []
            for lvl in range(depth):
                term = inc[0][1][lvl][0]
                for g, st in inc[1:]:
                    term = z3.If(g, st[lvl][0], term)
                merged.append((term, inc[0][1][lvl][1]))
            state[nd] = merged
        if pc >= n:
            continue
        ins = instrs[pc]
        op, arg = ins['op'], ins.get('arg')
        st = state[nd]
        if op in ('Lookup', 'Enclose') and isinstance(arg, str) and arg not in exempt and (only is None or arg in only):
            if arg == 'loop':
                bound = z3.BoolVal(any(k == 2 for _, k in st))
            else:
                bit = BV(1 << idx[arg])
                bound = z3.Or(*[(bv & bit) != BV(0) for bv, _ in st]) if st else z3.BoolVal(False)
            viol.append((nd, arg, z3.And(reach[nd], z3.Not(bound))))
        succs = edges[nd]
        cvar = None
        if len(successors(instrs, pc)) > 1:
            nchoice += 1
            cvar = z3.Bool('ch_%d_%d' % (pc, nchoice))
        for sn, tag in succs:
            g = reach[nd]
            if cvar is not None:
                g = z3.And(g, cvar if tag == 'jump' else z3.Not(cvar))
            st2 = list(st)
            if op == 'StoreLocal' and isinstance(arg, str) and st2:
                bv, kd = st2[-1]
                st2[-1] = (bv | BV(1 << idx[arg]), kd)
            elif op == 'PushWith':
                st2.append((BV(0), 0))
            elif op == 'PushLoop':
                st2.append((BV(0), 2 if (arg & 1) else 1))
            elif op in ('PopFrame', 'PopLoopFrame'):
                if not st2:
                    return 'unknown', 'frame underflow at pc %d (see C05)' % pc, 0.0, {}
                st2.pop()
            elif op == 'Iterate' and tag == 'fall':
                # a new item clears the locals of the innermost loop frame
                for lvl in range(len(st2) - 1, -1, -1):
                    if st2[lvl][1] != 0:
                        st2[lvl] = (BV(0), st2[lvl][1])
                        break
            if sn in incoming:
                incoming[sn].append((g, st2))
    stats = dict(dag_nodes=len(order), branch_booleans=nchoice, candidate_lookups=len(viol), names=len(names), unroll=unroll)
    if not viol:
        return 'unsat', dict(note='no candidate lookups'), 0.0, stats
    s = z3.Solver()
    s.set('timeout', 30000)
    s.add(z3.Or(*[v for _, _, v in viol]))
    t0 = time.time()
    r = s.check()
    dt = time.time() - t0
    info = {}
    if r == z3.sat:
        m = s.model()
        hit = [(nd[0], nm) for nd, nm, v in viol if z3.is_true(m.eval(v, model_completion=True))]
        info = dict(lookups=hit[:4], choices={str(d): bool(m[d]) for d in m.decls()})
    return str(r), info, dt, stats


# ---------------------------------------------------------------------------------------------
# Macro prologue: which value ends up in which parameter (C03: defaults and keyword arguments)
# ---------------------------------------------------------------------------------------------

def macro_params(instrs, build_pc):
    """Parameter names of the macro built at build_pc (the LoadConst right before BuildMacro)."""
    a = instrs[build_pc - 1]
    return list(a['arg']) if a['op'] == 'LoadConst' and isinstance(a.get('arg'), list) else None


def sym_macro_prologue(instrs, entry, params, expected_defaults):
    """Symbolic execution of a macro body's prologue on the real instruction stream.  On entry the operand
    stack holds one value per parameter (last parameter on top); whether the caller provided argument i is a
    free boolean: the value is ARG_i or undefined.  Values are integers: 0 = undefined, 100+i = ARG_i, one id
    per distinct constant / looked-up name.  The query asks z3 whether SOME combination of provided/omitted
    arguments stores into a parameter anything but `ARG_i if provided else its own default`.
    expected_defaults: {param: ('const', value) | ('name', ident) | None}.
    Returns (verdict, info, seconds, stats)."""
    k = len(params)
    provided = [z3.Bool('provided_%s' % p) for p in params]
    ids = {}
    def vid(kind, x):
        key = (kind, json.dumps(x, sort_keys=True))
        if key not in ids:
            ids[key] = 1000 + len(ids)
        return ids[key]
    stack0 = [('int', z3.If(provided[i], z3.IntVal(100 + i), z3.IntVal(0))) for i in range(k)]
    stores = {}     # param -> [(guard, value)]
    paths = [(z3.BoolVal(True), entry, list(stack0), 0)]
    steps = 0
    done_paths = 0
    while paths:
        guard, pc, st, nstored = paths.pop()
        while True:
            steps += 1
            if steps > 4000 or pc >= len(instrs):
                return 'unknown', 'prologue did not terminate', 0.0, {}
            if nstored == k:
                done_paths += 1
                break
            ins = instrs[pc]
            op, arg = ins['op'], ins.get('arg')
            if op == 'DupTop':
                st.append(st[-1]); pc += 1
            elif op == 'IsUndefined':
                t, v = st.pop()
                st.append(('bool', v == 0)); pc += 1
            elif op == 'JumpIfFalse':
                t, b = st.pop()
                if t != 'bool':
                    return 'unknown', 'JumpIfFalse on a non-boolean in the prologue at pc %d' % pc, 0.0, {}
                paths.append((z3.And(guard, z3.Not(b)), arg, list(st), nstored))
                guard = z3.And(guard, b); pc += 1
            elif op == 'DiscardTop':
                st.pop(); pc += 1
            elif op == 'LoadConst':
                st.append(('int', z3.IntVal(vid('const', arg)))); pc += 1
            elif op == 'Lookup':
                st.append(('int', z3.IntVal(vid('name', arg)))); pc += 1
            elif op == 'StoreLocal':
                t, v = st.pop()
                if arg in params:
                    stores.setdefault(arg, []).append((guard, v))
                    nstored += 1
                pc += 1
            else:
                return 'unknown', 'unexpected instruction %s in a macro prologue at pc %d' % (op, pc), 0.0, {}
    bad = []
    for i, p_ in enumerate(params):
        ed = expected_defaults.get(p_)
        dflt = z3.IntVal(0) if ed is None else z3.IntVal(vid(ed[0], ed[1]))
        want = z3.If(provided[i], z3.IntVal(100 + i), dflt)
        for g, v in stores.get(p_, []):
            bad.append((p_, z3.And(g, v != want)))
        if not stores.get(p_):
            return 'sat', dict(param=p_, note='parameter is never stored'), 0.0, {}
    s_ = z3.Solver()
    s_.set('timeout', 30000)
    s_.add(z3.Or(*[b for _, b in bad]))
    t0 = time.time()
    r = s_.check()
    dt = time.time() - t0
    info = {}
    if r == z3.sat:
        m = s_.model()
        info = dict(provided={str(d): bool(m[d]) for d in m.decls()},
                    params=[p_ for p_, b in bad if z3.is_true(m.eval(b, model_completion=True))])
    return str(r), info, dt, dict(params=k, paths=done_paths, stores=sum(len(v) for v in stores.values()))


# ---------------------------------------------------------------------------------------------
# C06: `{% from T import n1 as a1, ... %}` binds each alias to the imported template's export of that name
# ---------------------------------------------------------------------------------------------
def from_import_sites(instrs):
    """pcs of `Include` instructions that belong to a from-import: PushWith; <name expr>; Include; Lookup*;
    PopFrame; StoreLocal*."""
    out = []
    for pc, ins in enumerate(instrs):
        if ins['op'] == 'Include' and pc >= 2 and instrs[pc - 2]['op'] == 'PushWith' and pc + 1 < len(instrs) \
                and instrs[pc + 1]['op'] == 'Lookup':
            out.append(pc)
    return out


def sym_from_import(instrs, pc_include, items):
    """Symbolic execution of the real instructions from the Include of a from-import to its last StoreLocal.
    The imported template is an arbitrary module: for every name x a free boolean says whether the module
    defines x; a Lookup(x) inside the import frame yields MOD_x if it does and OUTER_x (whatever the enclosing
    scope has) otherwise.  Query: is there a module for which some alias is bound to anything but the value of
    ITS OWN exported name?  items: [(name, alias|None)].  Returns (verdict, info, seconds, stats)."""
    names = sorted({n for n, _ in items} | {a for _, a in items if a})
    idx = {n: i for i, n in enumerate(names)}
    defined = {n: z3.Bool('module_defines_%s' % n) for n in names}

    def lookup_in_module(n):
        if n not in idx:
            return None
        return z3.If(defined[n], z3.IntVal(100 + idx[n]), z3.IntVal(200 + idx[n]))
    stack = []
    stores = {}
    pc = pc_include + 1
    in_frame = True
    steps = 0
    want_stores = len(items)
    while len(stores) < want_stores:
        steps += 1
        if pc >= len(instrs) or steps > 200:
            return 'unknown', 'from-import sequence did not finish at pc %d' % pc, 0.0, {}
        ins = instrs[pc]
        op, arg = ins['op'], ins.get('arg')
        if op == 'Lookup' and in_frame:
            v = lookup_in_module(arg)
            if v is None:
                return 'sat', dict(note='the import frame looks up %r, which the statement does not mention' % arg), 0.0, {}
            stack.append(v)
        elif op == 'PopFrame' and in_frame:
            in_frame = False
        elif op == 'StoreLocal' and not in_frame:
            if not stack:
                return 'sat', dict(note='StoreLocal(%s) with an empty operand stack' % arg), 0.0, {}
            stores[arg] = stack.pop()
        else:
            return 'unknown', 'unexpected instruction %s in a from-import at pc %d' % (op, pc), 0.0, {}
        pc += 1
    bad = []
    for n, al in items:
        target = al or n
        if target not in stores:
            return 'sat', dict(note='%s is never bound' % target), 0.0, {}
        bad.append((target, stores[target] != lookup_in_module(n)))
    s_ = z3.Solver()
    s_.set('timeout', 30000)
    s_.add(z3.Or(*[b for _, b in bad]))
    t0 = time.time()
    r = s_.check()
    dt = time.time() - t0
    info = {}
    if r == z3.sat:
        m = s_.model()
        info = dict(module={n: bool(z3.is_true(m.eval(defined[n], model_completion=True))) for n in names},
                    wrong=[t for t, b in bad if z3.is_true(m.eval(b, model_completion=True))])
    return str(r), info, dt, dict(names=len(names), stores=len(stores))
