"""Engine B driver: C05 (typing of emitted code) and C18 (bounded model checking of unbound-name reads).

Called by bin/check through kanilib.run_property(extra=[...]); returns a result dict
{engine, coverage, violations:[{replay:..}], known_hits:[(r, kf)], problems:[..]}.
"""
import os, sys, json, time, subprocess, random, hashlib

HERE = os.path.dirname(os.path.abspath(__file__))
sys.path.insert(0, HERE)
import generator as G
import encoder as E

ROOT = '/verif'
sys.path.insert(0, os.path.join(ROOT, 'bin'))
import nativelib
REPO = nativelib.REPO
BUILD = nativelib.BUILD
NATIVE = os.path.join(BUILD, 'native', 'debug')
ENV = dict(os.environ, CARGO_NET_OFFLINE='true', CARGO_TARGET_DIR=os.path.join(BUILD, 'native'))


def log(*a):
    print(*a, file=sys.stderr, flush=True)


def build_native():
    p = subprocess.run(['cargo', 'build', '--offline', '--bins'], cwd=nativelib.native_dir(), env=ENV,
                       stdout=subprocess.PIPE, stderr=subprocess.STDOUT, text=True)
    if p.returncode != 0:
        return p.stdout[-3000:]
    return None


def run_tool(tool, reqs, timeout=600):
    inp = '\n'.join(json.dumps(r) for r in reqs) + '\n'
    p = subprocess.run([os.path.join(NATIVE, tool)], input=inp, stdout=subprocess.PIPE, stderr=subprocess.PIPE,
                       text=True, timeout=timeout)
    out = [json.loads(l) for l in p.stdout.split('\n') if l.strip()]
    return out


NODE = {'v': 1, 'c': [{'v': 2, 'c': []}]}


def contexts():
    """A small family of contexts used to turn a bytecode path into a native run."""
    out = []
    for cond in (True, False):
        for lst in ([], [NODE], [NODE, NODE]):
            for flag in (True, False):
                ctx = {'a': 'A', 'b': 'B', 'lt': '<', 'ra': 'T', 'rb': 'U', 'q': 'Q', 'w': 'W', 's': 'S'}
                for i in range(1, 16):
                    ctx['c%d' % i] = cond
                    ctx['l%d' % i] = lst
                    ctx['f%d' % i] = flag
                out.append(ctx)
    # mixed: first condition true, later ones false and vice versa (break taken in iteration 1 / later)
    for flip in (1, 2):
        ctx = dict(out[2])
        for i in range(1, 16):
            ctx['c%d' % i] = (i % 2 == flip % 2)
        out.append(ctx)
    return out


def native_outcomes(src):
    reqs = [dict(src=src, ctx=c) for c in contexts()]
    return run_tool('render', reqs)


def looks_broken(res):
    """A native render shows a C05 violation if it panics, or succeeds without the final sentinel
    (text after a construct did not reach the output) or with the wrong escape mode at the end."""
    if 'panic' in res:
        return 'panic: %s' % res['panic'][:120]
    if 'ok' in res:
        if not res['ok'].endswith('<|END'):
            return 'output does not end with "<|END": ...%r' % res['ok'][-30:]
        import re
        for k in range(4):
            modes = set(re.findall(r'\(%d=(&lt;|<)' % k, res['ok'])) | set(re.findall(r'(&lt;|<)=%d\)' % k, res['ok']))
            if len(modes) > 1:
                return 'auto-escape mode changes inside autoescape block %d: %r' % (k, res['ok'][-60:])
    return None


# ------------------------------------------------------------------------------------------ C05

KF_REC_SRC = "{% for x in t recursive %}[{{ x.v }}{{ 'A' ~ loop(x.c) }}]{% else %}E{% endfor %}"
KF_REC_CTX = {'t': [{'v': 1, 'c': [{'v': 2, 'c': []}]}]}
KF_REC_WANT = '[1A[2AE]]'


def run_c05(prop, tier, seed):
    t0 = time.time()
    ev = dict(engine='B', violations=[], known_hits=[], problems=[], coverage={})
    err = build_native()
    if err:
        ev['problems'].append('engine B: native tools did not build: ' + err[-400:])
        return ev
    eff, notes, arms, missing = E.extract_effects()
    coarse = {}
    for name, found in eff.items():
        exp = sorted(set(E.EXPECTED.get(name, [])))
        if name in ('CallFunction', 'FastRecurse'):
            continue
        if found != exp:
            # an arm whose frame/capture/auto-escape effect is conditional (or changed): keep the real
            # effect as a nondeterministic choice so that the solver explores both outcomes
            coarse[name] = [(dim, d) for dim, d, cond in (found or exp)]
    if missing:
        ev['problems'].append('engine B: no operand arity for VM arms %s' % missing)
    fam = G.family(2, with_macros=True)
    if tier == 'quick':
        fam += G.sample(G.family(3), 600, seed)
    else:
        fam += G.family(3, with_macros=True)
    fam += G.block_in_loop_family()
    # the repository's own fixtures
    fixtures = []
    fx_dir = os.path.join(REPO, 'minijinja/tests/inputs')
    for fn in sorted(os.listdir(fx_dir)):
        if fn.endswith(('.txt', '.html')):
            txt = open(os.path.join(fx_dir, fn), encoding='utf-8').read()
            fctx = {}
            if '\n---\n' in txt:
                hdr, txt = txt.split('\n---\n', 1)
                try:
                    fctx = json.loads(hdr)
                except Exception:
                    fctx = {}
            fixtures.append(dict(chain=['fixture:' + fn], leaf='', src=txt, ctx=fctx))
    progs = fam + fixtures
    for i, p in enumerate(progs):
        p['id'] = i
    dumps = run_tool('dump', [dict(id=p['id'], src=p['src']) for p in progs], timeout=1200)
    by_id = {d['id']: d for d in dumps}
    n_units = n_sat = n_unsat = n_unknown = n_rejected = 0
    z3_s = 0.0
    ncons = 0
    unsat_items = []
    samples = []
    for p in progs:
        d = by_id.get(p['id'])
        if d is None or 'error' in d:
            n_rejected += 1
            continue
        for u in E.units_of(d):
            if u.kind == 'macro':
                # arguments are on the operand stack when a macro body is entered
                for i, ins in enumerate(u.instrs):
                    if ins['op'] == 'BuildMacro' and ins['arg'][1] == u.entry:
                        prev = u.instrs[i - 1]
                        if prev['op'] == 'LoadConst' and isinstance(prev.get('arg'), list):
                            u.entry_stack = len(prev['arg'])
            verdict, detail, dt, nc = E.check_unit(u, eff, coarse)
            n_units += 1
            z3_s += dt
            ncons += nc
            if verdict == 'sat':
                n_sat += 1
                if len(samples) < 4 and p['chain'] and not p['chain'][0].startswith('fixture'):
                    samples.append(dict(program=p['src'], unit=u.name, instructions=len(u.instrs), verdict='typing exists (sat)'))
            elif verdict == 'unsat':
                n_unsat += 1
                unsat_items.append((p, d, u))
            else:
                n_unknown += 1
                ev['problems'].append('engine B: z3 returned %s for %s unit %s (%s)' % (verdict, p['src'][:60], u.name, detail))
    log('[%s] engine B: %d programs (%d rejected by the parser), %d units: sat=%d unsat=%d unknown=%d, z3 %.1fs' % (
        prop, len(progs), n_rejected, n_units, n_sat, n_unsat, n_unknown, z3_s))
    # ---- unsat units: extract the conflicting paths and replay natively
    known = {}
    kp = os.path.join(ROOT, 'known_findings.json')
    if os.path.exists(kp):
        known = {f['id']: f for f in json.load(open(kp)).get('findings', [])}
    kf_rec = known.get('KF-C05-recursive-else')
    kf_rec_reproduced = None
    nativelib.replay_dir()
    n_replayed = n_confirmed = 0
    untypable_fixtures = []
    seen_viol = set()
    for p, d, u in unsat_items:
        conflict = E.find_conflict(u)
        ckind = conflict['kind'] if conflict else 'none-found'
        is_rec_else = ckind == 'recursion-return-imbalance' or (
            conflict is None and any(i['op'] == 'PushLoop' and (i['arg'] & 2) for i in u.instrs))
        if is_rec_else and kf_rec and any(i['op'] == 'PushDidNotIterate' for i in u.instrs):
            if kf_rec_reproduced is None:
                r = run_tool('render', [dict(src=KF_REC_SRC, ctx=KF_REC_CTX)])[0]
                kf_rec_reproduced = (r.get('ok') != KF_REC_WANT)
                if kf_rec_reproduced:
                    ev['known_hits'].append((dict(replay=None), kf_rec))
            if kf_rec_reproduced:
                continue
        n_replayed += 1
        if 'ctx' in p:
            # a repository fixture: its own context; only a panic counts (it has no sentinels)
            outs = run_tool('render', [dict(src=p['src'], ctx=p['ctx'])])
            bad = [(i, 'panic: ' + o['panic'][:100]) for i, o in enumerate(outs) if 'panic' in o]
        else:
            outs = native_outcomes(p['src'])
            bad = [(i, looks_broken(o)) for i, o in enumerate(outs) if looks_broken(o)]
        if bad:
            n_confirmed += 1
            key = (tuple(p['chain']), p['leaf'])
            if key in seen_viol:
                continue
            seen_viol.add(key)
            h = hashlib.sha1(p['src'].encode()).hexdigest()[:10]
            rp = os.path.join(nativelib.replay_dir(), '%s-B-%s.json' % (prop, h))
            ctxs = contexts() if 'ctx' not in p else [p['ctx']]
            json.dump(dict(property=prop, engine='B', program=p['src'], unit=u.name, conflict=_js(conflict),
                           native=[dict(context_index=i, context=ctxs[i], outcome=outs[i], why=w) for i, w in bad[:3]],
                           how='bin/check %s --replay %s' % (prop, rp)), open(rp, 'w'), indent=1)
            ev['violations'].append(dict(replay=rp, failed=[dict(desc='%s in unit %s of %r: %s' % (ckind, u.name, p['src'][:90], bad[0][1]), loc='bytecode pc %s' % (conflict or {}).get('pc'))]))
            if len(ev['violations']) >= 5:
                break
        elif coarse:
            pass  # the model was deliberately over-approximate for the coarse arms
        elif 'ctx' in p:
            # a repository fixture outside the typable fragment (e.g. a `{% do %}` result left on the
            # operand stack inside a loop): recorded, not a verdict
            untypable_fixtures.append(p['chain'][0])
        else:
            ev['problems'].append('engine B: typing unsat (%s at pc %s, state %s) for %r unit %s but no native run shows it' % (
                ckind, (conflict or {}).get('pc'), (conflict or {}).get('state'), p['src'][:80], u.name))
            if len(ev['problems']) > 8:
                break
    # ---- validation of the abstraction on the sat side (translator validation, not deciding)
    rnd = random.Random(seed + 17)
    val = [p for p in progs if by_id.get(p['id']) and 'error' not in by_id[p['id']] and not p['chain'][0].startswith('fixture')]
    val = rnd.sample(val, min(len(val), 120 if tier == 'quick' else 600))
    unsat_ids = {p['id'] for p, _, _ in unsat_items}
    disagreements = 0
    for p in val:
        if p['id'] in unsat_ids:
            continue
        for o in native_outcomes(p['src']):
            w = looks_broken(o)
            if w:
                disagreements += 1
                ev['problems'].append('engine B: typing says balanced but native run of %r is broken: %s' % (p['src'][:80], w))
                break
        if disagreements > 3:
            break
    ev['coverage'] = dict(
        programs=len(progs) - n_rejected, units=n_units, typing_sat=n_sat, typing_unsat=n_unsat,
        unsat_replayed=n_replayed, unsat_confirmed_natively=n_confirmed, rejected_by_parser=n_rejected,
        disagreements_checked=len(val), disagreements=disagreements, z3_seconds=round(z3_s, 1), constraints=ncons,
        untypable_fixtures=untypable_fixtures, vm_arms_read=len(arms), coarse_arms=sorted(coarse), extraction_notes=notes[:6],
        family='all chains of <=2 nested scoped constructs (for/for-else/recursive for/filtered for/with/set-block/'
               'set-block with filter/filter/autoescape/if/if-else/macro+call/call-block) x 11 leaves (text, emit, break, '
               'continue, if-break, if-continue, set, ...)' + (' + seeded sample of 600 depth-3 chains' if tier == 'quick' else ' + all depth-3 chains') +
               ' + every file of minijinja/tests/inputs; paths through each unit are unbounded (inductive typing)',
        samples=samples, wall_s=round(time.time() - t0, 1))
    return ev


def _js(o):
    return json.loads(json.dumps(o, default=lambda x: list(x) if isinstance(x, (tuple, set, frozenset)) else str(x)))


def replay_c05(path):
    d = json.load(open(path))
    outs = native_outcomes(d['program'])
    bad = [looks_broken(o) for o in outs if looks_broken(o)]
    print(json.dumps(dict(program=d['program'], broken=bad[:3]), indent=1))
    return bool(bad)


# ------------------------------------------------------------------------------------------ C18

C18_SCOPED = ['for', 'forelse', 'forelsevar', 'forfilter', 'forfilterloop', 'forloopiter', 'forunpack', 'with', 'with2', 'setblock', 'setblockf', 'filter', 'autoescape', 'if', 'ifelse']
C18_LEAVES = ['emit', 'emitvar', 'set', 'setself', 'withself', 'ifbreak', 'setblockself', 'looplookup', 'slice', 'nsset', 'callarg', 'testarg', 'ifexpr', 'mapkey']


def c18_reads(src):
    return run_tool('reads', [dict(src=src, ctx=c) for c in contexts()])


def run_c18(prop, tier, seed):
    t0 = time.time()
    ev = dict(engine='B', violations=[], known_hits=[], problems=[], coverage={})
    err = build_native()
    if err:
        ev['problems'].append('engine B: native tools did not build: ' + err[-400:])
        return ev
    fam = G.family(2, leaves=C18_LEAVES, scoped=C18_SCOPED)
    if tier == 'thorough':
        fam += G.sample(G.family(3, leaves=C18_LEAVES, scoped=C18_SCOPED), 1500, seed)
    else:
        fam += G.sample(G.family(3, leaves=C18_LEAVES, scoped=C18_SCOPED), 150, seed)
    for i, p in enumerate(fam):
        p['id'] = i
    dumps = {d['id']: d for d in run_tool('dump', [dict(id=p['id'], src=p['src']) for p in fam], timeout=1200)}
    probe = run_tool('reads', [dict(src='x', ctx={})])[0]
    env_globals = set(probe['globals'])
    n_q = n_unsat = n_sat = n_skip = n_rej = 0
    z3_s = 0.0
    agg = {}
    samples = []
    nativelib.replay_dir()
    n_confirmed = 0
    unconfirmed = []
    for p in fam:
        d = dumps.get(p['id'])
        if d is None or 'error' in d:
            n_rej += 1
            continue
        exempt = set(d['undeclared']) | env_globals | {'self'}
        verdict, info, dt, stats = E.sym_unbound_reads(d['instrs'], exempt, unroll=2 if tier == 'quick' else 3)
        z3_s += dt
        for kk, vv in stats.items():
            if isinstance(vv, int):
                agg[kk] = agg.get(kk, 0) + vv
        if verdict == 'skipped':
            n_skip += 1
            continue
        n_q += 1
        if verdict == 'unsat':
            n_unsat += 1
            if len(samples) < 4:
                samples.append(dict(program=p['src'], reported=d['undeclared'], verdict='no path (all branch outcomes, loops unrolled) reads an unreported unbound name (unsat)', encoding=stats))
        elif verdict == 'sat':
            n_sat += 1
            # replay: the recording context must show the read on the real engine
            outs = c18_reads(p['src'])
            hit = None
            for ci, o in enumerate(outs):
                extra = set(o['reads']) - set(o['undeclared']) - set(o['globals']) - {'self'}
                if extra:
                    hit = (ci, sorted(extra), o)
                    break
            if hit:
                n_confirmed += 1
                if len(ev['violations']) < 5:
                    h = hashlib.sha1(p['src'].encode()).hexdigest()[:10]
                    rp = os.path.join(nativelib.replay_dir(), '%s-B-%s.json' % (prop, h))
                    json.dump(dict(property=prop, engine='B', program=p['src'], reported=d['undeclared'], bytecode_path=_js(info),
                                   native=dict(context=contexts()[hit[0]], reads=hit[2]['reads'], unreported_reads=hit[1]),
                                   how='bin/check %s --replay %s' % (prop, rp)), open(rp, 'w'), indent=1)
                    ev['violations'].append(dict(replay=rp, failed=[dict(desc='render of %r looks up %s which undeclared_variables() = %s does not report' % (p['src'][:100], hit[1], d['undeclared']), loc='bytecode lookups %s' % (info.get('lookups') if isinstance(info, dict) else '?'))]))
            else:
                unconfirmed.append('engine B/C18: solver path reads an unreported name in %r but no native run shows the read' % p['src'][:90])
        else:
            ev['problems'].append('engine B/C18: z3 returned %s for %r' % (verdict, p['src'][:80]))
        if len(ev['problems']) > 6:
            break
    if unconfirmed and not n_confirmed:
        ev['problems'].extend(unconfirmed[:5])
    # validation of the encoding on the unsat side: the real engine's recorded reads must be covered
    rnd = random.Random(seed + 5)
    val = rnd.sample(fam, min(len(fam), 100 if tier == 'quick' else 400))
    disagreements = 0
    for p in val:
        d = dumps.get(p['id'])
        if d is None or 'error' in d:
            continue
        for o in c18_reads(p['src'])[:6]:
            extra = set(o['reads']) - set(o['undeclared']) - set(o['globals']) - {'self'}
            if extra:
                disagreements += 1
    macro_cov = c18_macro_part(prop, tier, seed, ev, env_globals)
    log('[%s] engine B: %d programs, %d BMC queries: unsat=%d sat=%d (confirmed natively %d), skipped=%d, z3 %.1fs' % (
        prop, len(fam), n_q, n_unsat, n_sat, n_confirmed, n_skip, z3_s))
    ev['coverage'] = dict(programs=n_q, queries=n_q, unsat=n_unsat, sat=n_sat, sat_confirmed_natively=n_confirmed,
                          rejected_by_parser=n_rej, outside_fragment=n_skip, disagreements_checked=len(val),
                          native_reads_not_covered=disagreements, z3_seconds=round(z3_s, 1), encoding_totals=agg, macro_family=macro_cov,
                          family='all chains of <=2 nested constructs from %s x leaves %s%s; every branch outcome symbolic, loops unrolled %d iterations' % (
                              C18_SCOPED, C18_LEAVES, ' + seeded sample of depth-3 chains', 2 if tier == 'quick' else 3),
                          samples=samples, wall_s=round(time.time() - t0, 1))
    return ev


def _known():
    kp = os.path.join(ROOT, 'known_findings.json')
    if not os.path.exists(kp):
        return {}
    return {f['id']: f for f in json.load(open(kp)).get('findings', [])}


def _macro_dumps():
    fam = G.macro_family()
    for i, p in enumerate(fam):
        p['id'] = i
    dumps = {d['id']: d for d in run_tool('dump', [dict(id=p['id'], src=p['src']) for p in fam], timeout=1200)}
    return fam, dumps


def c18_macro_part(prop, tier, seed, ev, env_globals):
    """C18 on the macro family: (root) every Enclose(n) is a read of n at the definition point; (macro and
    call-block bodies) a Lookup(n) that the body's own frames leave unbound on some path and that is not
    enclosed falls through to the render context: n must then be reported."""
    fam, dumps = _macro_dumps()
    unroll = 2 if tier == 'quick' else 3
    nq = nun = nsat = nconf = nskip = 0
    z3s = 0.0
    unconfirmed = []
    for p in fam:
        d = dumps.get(p['id'])
        if d is None or 'error' in d:
            continue
        ins = d['instrs']
        exempt = set(d['undeclared']) | env_globals | {'self'}
        own = set(p.get('selfrec') or [])
        # known finding KF-C18-recursive-macro-name: the name of a self-recursive macro is enclosed (= looked up)
        # at its definition, before the macro is stored.  That read is queried on its own; every other read of
        # the same program stays in the main query.
        queries = [('root', E.sym_unbound_reads(ins, exempt | own, unroll=unroll, macros=True))]
        if own:
            v2, i2, dt2, _ = E.sym_unbound_reads(ins, exempt - own, unroll=unroll, macros=True, only=own)
            z3s += dt2
            nq += 1
            if v2 == 'sat':
                o = run_tool('reads', [dict(src=p['src'], ctx=G.macro_contexts()[1])])[0]
                if own & (set(o['reads']) - set(o['undeclared']) - set(o['globals'])):
                    kf = _known().get('KF-C18-recursive-macro-name')
                    if kf:
                        if not any(k[1]['id'] == kf['id'] for k in ev['known_hits']):
                            ev['known_hits'].append((dict(replay=None), kf))
                    else:
                        h = hashlib.sha1(p['src'].encode()).hexdigest()[:10]
                        rp = os.path.join(nativelib.replay_dir(), '%s-B-%s.json' % (prop, h))
                        json.dump(dict(property=prop, engine='B', program=p['src'], reported=d['undeclared'], unit='root', bytecode_path=_js(i2), macro_family=True,
                                       native=dict(context=G.macro_contexts()[1], reads=o['reads'], unreported_reads=sorted(own)), how='bin/check %s --replay %s' % (prop, rp)), open(rp, 'w'), indent=1)
                        ev['violations'].append(dict(replay=rp, failed=[dict(desc='render of %r looks up its own macro name %s which undeclared_variables() = %s does not report' % (p['src'][:120], sorted(own), d['undeclared']), loc='Enclose at the macro definition')]))
            else:
                nun += 1
        for name, entry, bpc, enc in E.macro_units(ins):
            queries.append(('macro %s@%d' % (name, entry),
                            E.sym_unbound_reads(ins, exempt | set(enc) | set(E.MACRO_SPECIALS), unroll=unroll, entry=entry, macros=True)))
        for unit, (verdict, info, dt, stats) in queries:
            z3s += dt
            if verdict == 'skipped':
                nskip += 1
                continue
            nq += 1
            if verdict == 'unsat':
                nun += 1
            elif verdict == 'sat':
                nsat += 1
                hit = None
                for ci, c in enumerate(G.macro_contexts()):
                    o = run_tool('reads', [dict(src=p['src'], ctx=c)])[0]
                    extra = set(o['reads']) - set(o['undeclared']) - set(o['globals']) - {'self'}
                    if extra:
                        hit = (c, sorted(extra), o)
                        break
                if hit:
                    nconf += 1
                    if len(ev['violations']) < 5:
                        h = hashlib.sha1(p['src'].encode()).hexdigest()[:10]
                        rp = os.path.join(nativelib.replay_dir(), '%s-B-%s.json' % (prop, h))
                        json.dump(dict(property=prop, engine='B', program=p['src'], reported=d['undeclared'], unit=unit, bytecode_path=_js(info),
                                       native=dict(context=hit[0], reads=hit[2]['reads'], unreported_reads=hit[1]), macro_family=True,
                                       how='bin/check %s --replay %s' % (prop, rp)), open(rp, 'w'), indent=1)
                        ev['violations'].append(dict(replay=rp, failed=[dict(desc='render of %r looks up %s which undeclared_variables() = %s does not report' % (p['src'][:120], hit[1], d['undeclared']), loc='%s, bytecode lookups %s' % (unit, info.get('lookups') if isinstance(info, dict) else '?'))]))
                else:
                    unconfirmed.append('engine B/C18 macros: solver path reads an unreported name in %r (%s) but no native run shows the read' % (p['src'][:100], unit))
            else:
                ev['problems'].append('engine B/C18 macros: z3 returned %s for %r' % (verdict, p['src'][:80]))
    if unconfirmed and not nconf:
        ev['problems'].extend(unconfirmed[:5])
    log('[%s] engine B macros: %d programs, %d unit queries: unsat=%d sat=%d (confirmed natively %d), z3 %.1fs' % (prop, len(fam), nq, nun, nsat, nconf, z3s))
    return dict(programs=len(fam), unit_queries=nq, unsat=nun, sat=nsat, sat_confirmed_natively=nconf, outside_fragment=nskip, z3_seconds=round(z3s, 1))


def run_c03(prop, tier, seed):
    """C03, closure soundness of macros and call blocks (the clause 'assignments at template level persist'
    as seen from inside a macro): on the real instruction stream of every program of the macro family, z3
    decides per macro body whether SOME path (all branch outcomes free, loops unrolled) reaches a Lookup(n)
    that none of the body's own frames binds although n is assigned at template level and the compiler did
    not emit Enclose(n) for that macro - the macro would then see the render context (or nothing) instead of
    the template's variable.  sat is replayed natively: the render must show `n=CTX..` or `n=]`."""
    t0 = time.time()
    ev = dict(engine='B', violations=[], known_hits=[], problems=[], coverage={})
    err = build_native()
    if err:
        ev['problems'].append('engine B: native tools did not build: ' + err[-400:])
        return ev
    fam, dumps = _macro_dumps()
    unroll = 2 if tier == 'quick' else 3
    nq = nun = nsat = nconf = 0
    z3s = 0.0
    samples = []
    unconfirmed = []
    nativelib.replay_dir()
    for p in fam:
        d = dumps.get(p['id'])
        if d is None or 'error' in d:
            ev['problems'].append('engine B/C03: the compiler rejected a family program: %r %s' % (p['src'][:80], (d or {}).get('error')))
            continue
        ins = d['instrs']
        tl = set(E.template_level_stores(ins))
        for name, entry, bpc, enc in E.macro_units(ins):
            only = tl - set(enc) - set(E.MACRO_SPECIALS)
            if not only:
                nq += 1
                nun += 1
                continue
            verdict, info, dt, stats = E.sym_unbound_reads(ins, set(), unroll=unroll, entry=entry, macros=True, only=only)
            z3s += dt
            nq += 1
            if verdict == 'unsat':
                nun += 1
                if len(samples) < 4:
                    samples.append(dict(program=p['src'], macro=name, enclosed=enc, template_level_names=sorted(tl), verdict='unsat: no path of the body reads a template-level name that is neither bound in the macro nor enclosed', encoding=stats))
            elif verdict == 'sat':
                nsat += 1
                bad = None
                for c in G.macro_contexts():
                    o = run_tool('render', [dict(src=p['src'], ctx=c)])[0]
                    why = G.closure_oracle(p.get('prefix'), c, o['ok']) if 'ok' in o else None
                    if why:
                        bad = (c, o['ok'])
                        break
                    if 'panic' in o:
                        bad = (c, 'panic: ' + o['panic'])
                        break
                if bad:
                    nconf += 1
                    if len(ev['violations']) < 5:
                        h = hashlib.sha1(p['src'].encode()).hexdigest()[:10]
                        rp = os.path.join(nativelib.replay_dir(), '%s-B-%s.json' % (prop, h))
                        json.dump(dict(property=prop, engine='B', program=p['src'], prefix=p.get('prefix'), macro=name, enclosed=enc, bytecode_path=_js(info),
                                       native=dict(context=bad[0], output=bad[1]), how='bin/check %s --replay %s' % (prop, rp)), open(rp, 'w'), indent=1)
                        ev['violations'].append(dict(replay=rp, failed=[dict(desc='macro %s of %r reads %s which is assigned at template level but not enclosed; native render: %r' % (name, p['src'][:120], info.get('lookups'), bad[1][:80]), loc='macro body @%d' % entry)]))
                else:
                    unconfirmed.append('engine B/C03: solver path in macro %s of %r reads an unenclosed template-level name %s but no native render shows [CTX] / []' % (name, p['src'][:100], info.get('lookups')))
            else:
                ev['problems'].append('engine B/C03: z3 returned %s (%s) for %r' % (verdict, info, p['src'][:80]))
    if unconfirmed:
        ev['problems'].extend(unconfirmed[:5])
    prologue_cov = c03_prologue_part(prop, tier, ev)
    # control flow: bytecode paths vs a reference interpreter of the documented semantics (bytecode/flow.py)
    import flow
    fl = flow.run_flow(prop, tier, seed, run_tool)
    ev['violations'].extend(fl['violations'][:max(0, 5 - len(ev['violations']))])
    ev['problems'].extend(fl['problems'])
    flow_cov = fl['coverage']
    log('[%s] engine B control flow: %d programs, %d bytecode paths, %d queries: unsat=%d sat=%d (confirmed natively %d); reference validated on %d native renders (%d mismatches)' % (
        prop, flow_cov.get('programs', 0), flow_cov.get('bytecode_paths', 0), flow_cov.get('queries', 0), flow_cov.get('unsat', 0), flow_cov.get('sat', 0),
        flow_cov.get('sat_confirmed_natively', 0), flow_cov.get('native_validation_renders', 0), flow_cov.get('native_validation_mismatches', 0)))
    log('[%s] engine B closures: %d programs, %d macro-body queries: unsat=%d sat=%d (confirmed natively %d), z3 %.1fs' % (prop, len(fam), nq, nun, nsat, nconf, z3s))
    n_all_q = nq + prologue_cov.get('queries', 0) + flow_cov.get('queries', 0)
    n_all_sat = nsat + prologue_cov.get('sat', 0) + flow_cov.get('sat', 0)
    ev['coverage'] = dict(programs=len(fam) + prologue_cov.get('programs', 0) + flow_cov.get('programs', 0), disagreements_checked=n_all_sat,
                          evaluations=n_all_q, distinct_nontrivial=n_all_q - n_all_sat + nconf + prologue_cov.get('sat_confirmed_natively', 0) + flow_cov.get('sat_confirmed_natively', 0),
                          rule='one evaluation = one z3 query on the instruction stream the real compiler emitted for one family program (macro body / prologue / control-flow program), '
                               'all branch outcomes (and iterable lengths 0..2) symbolic; non-trivial = decided unsat, or sat and confirmed on the real engine; '
                               'disagreements_checked = sat answers replayed natively',
                          macro_programs=len(fam), queries=nq, unsat=nun, sat=nsat, sat_confirmed_natively=nconf, z3_seconds=round(z3s, 1), prologues=prologue_cov, control_flow=flow_cov,
                          family='macro family: %d prefixes x %d signatures x %d bodies + call blocks (%d signatures x %d bodies); every branch outcome symbolic, loops unrolled %d' % (
                              len(G.MACRO_PREFIX), len(G.MACRO_SIGS), len(G.MACRO_BODIES), len(G.CALLER_SIGS), len(G.CALLER_BODIES), unroll),
                          samples=samples, wall_s=round(time.time() - t0, 1))
    return ev


def c03_prologue_part(prop, tier, ev):
    """Macro and call-block prologues: every parameter receives its own argument or its own default."""
    fam = G.prologue_family()
    for i, p in enumerate(fam):
        p['id'] = i
    dumps = {d['id']: d for d in run_tool('dump', [dict(id=p['id'], src=p['src']) for p in fam], timeout=600)}
    nq = nun = nsat = nconf = 0
    z3s = 0.0
    ctx = {'v': 'CTXV', 'w': 'CTXW'}
    for p in fam:
        d = dumps.get(p['id'])
        if d is None or 'error' in d:
            ev['problems'].append('engine B/C03 prologue: the compiler rejected %r: %s' % (p['src'][:80], (d or {}).get('error')))
            continue
        ins = d['instrs']
        want_name = 'm' if p['kind'] == 'macro' else 'caller'
        for name, entry, bpc, enc in E.macro_units(ins):
            if name != want_name:
                continue
            params = E.macro_params(ins, bpc)
            spec = dict(p['spec'])
            if params is None or params != [x for x, _ in p['spec']]:
                ev['problems'].append('engine B/C03 prologue: parameter list %s of %r does not match the signature' % (params, p['src'][:60]))
                continue
            verdict, info, dt, stats = E.sym_macro_prologue(ins, entry, params, spec)
            z3s += dt
            nq += 1
            if verdict == 'unsat':
                nun += 1
            elif verdict == 'sat':
                nsat += 1
                o = run_tool('render', [dict(src=p['src'], ctx=ctx)])[0]
                exp = G.prologue_expected(p['spec'], ctx)
                ok = 'ok' in o and all(e in o['ok'] for e in exp)
                if not ok:
                    nconf += 1
                    if len(ev['violations']) < 5:
                        h = hashlib.sha1(p['src'].encode()).hexdigest()[:10]
                        rp = os.path.join(nativelib.replay_dir(), '%s-B-%s.json' % (prop, h))
                        json.dump(dict(property=prop, engine='B', kind='prologue', program=p['src'], spec=p['spec'], bytecode_path=_js(info),
                                       native=dict(context=ctx, output=o.get('ok', o), expected_fragments=exp), how='bin/check %s --replay %s' % (prop, rp)), open(rp, 'w'), indent=1)
                        ev['violations'].append(dict(replay=rp, failed=[dict(desc='%s(%s): a parameter does not receive its own argument/default (%s); native render %r lacks one of %s' % (
                            want_name, p['sig'], info, str(o.get('ok', o))[:120], exp), loc='macro prologue @%d' % entry)]))
                else:
                    ev['problems'].append('engine B/C03 prologue: solver finds a wrong binding in %r (%s) but the native render is as expected' % (p['src'][:80], info))
            else:
                ev['problems'].append('engine B/C03 prologue: %s (%s) for %r' % (verdict, info, p['src'][:80]))
    log('[%s] engine B prologues: %d programs, %d queries: unsat=%d sat=%d (confirmed natively %d), z3 %.1fs' % (prop, len(fam), nq, nun, nsat, nconf, z3s))
    return dict(programs=len(fam), queries=nq, unsat=nun, sat=nsat, sat_confirmed_natively=nconf, z3_seconds=round(z3s, 1))


def replay_c03(path):
    d = json.load(open(path))
    if d.get('kind') == 'flow':
        import flow
        return flow.replay_flow(path, run_tool)
    o = run_tool('render', [dict(src=d['program'], ctx=d['native']['context'])])[0]
    print(json.dumps(o))
    if d.get('kind') == 'prologue':
        return not ('ok' in o and all(e in o['ok'] for e in d['native']['expected_fragments']))
    if d.get('kind') == 'flow':
        import flow
        return flow.replay_flow(path, run_tool)
    return 'panic' in o or ('ok' in o and G.closure_oracle(d.get('prefix'), d['native']['context'], o['ok']) is not None)


def replay_c18(path):
    d = json.load(open(path))
    if d.get('macro_family'):
        outs = run_tool('reads', [dict(src=d['program'], ctx=c) for c in G.macro_contexts()])
    else:
        outs = c18_reads(d['program'])
    for o in outs:
        extra = set(o['reads']) - set(o['undeclared']) - set(o['globals']) - {'self'}
        if extra:
            print(json.dumps(dict(program=d['program'], unreported_reads=sorted(extra), undeclared=o['undeclared'])))
            return True
    return False


# ---------------------------------------------------------------------------------------------
# C06: from-import bindings
# ---------------------------------------------------------------------------------------------
def run_c06(prop, tier, seed):
    """Every `{% from "m" import n as a, ... %}` of the import family: on the real instruction stream z3
    decides whether some imported module exists for which an alias is bound to anything but the module's
    export of its own name; sat is replayed by rendering the program next to a module that defines a, b, c."""
    t0 = time.time()
    ev = dict(engine='B', violations=[], known_hits=[], problems=[], coverage={})
    err = build_native()
    if err:
        ev['problems'].append('engine B: native tools did not build: ' + err[-400:])
        return ev
    fam = G.import_family()
    for i, p in enumerate(fam):
        p['id'] = i
    dumps = {d['id']: d for d in run_tool('dump', [dict(id=p['id'], src=p['src']) for p in fam], timeout=600)}
    nq = nun = nsat = nconf = 0
    z3s = 0.0
    samples = []
    ctx = {'l1': [1], 'c1': True}
    for p in fam:
        d = dumps.get(p['id'])
        if d is None or 'error' in d:
            ev['problems'].append('engine B/C06: the compiler rejected %r: %s' % (p['src'][:80], (d or {}).get('error')))
            continue
        streams = [('root', d['instrs'])] + [('block ' + k, v) for k, v in sorted((d.get('blocks') or {}).items())]
        sites = [(nm, ins, pc) for nm, ins in streams for pc in E.from_import_sites(ins)]
        if len(sites) != 1:
            ev['problems'].append('engine B/C06: expected one from-import site in %r, found %d' % (p['src'][:80], len(sites)))
            continue
        nm, ins, pc = sites[0]
        verdict, info, dt, stats = E.sym_from_import(ins, pc, p['items'])
        z3s += dt
        nq += 1
        if len(samples) < 4:
            samples.append(dict(program=p['src'], unit=nm, include_pc=pc, verdict=verdict))
        if verdict == 'unsat':
            nun += 1
            continue
        if verdict != 'sat':
            ev['problems'].append('engine B/C06: %s (%s) for %r' % (verdict, info, p['src'][:80]))
            continue
        nsat += 1
        o = run_tool('render', [dict(src=p['src'], ctx=ctx, templates={'m': G.MODULE_SRC})])[0]
        ok = 'ok' in o and p['expected'] in o['ok']
        if ok:
            ev['problems'].append('engine B/C06: solver finds a wrong binding in %r (%s) but the native render is as expected' % (p['src'][:80], info))
            continue
        nconf += 1
        if len(ev['violations']) < 5:
            h = hashlib.sha1(p['src'].encode()).hexdigest()[:10]
            rp = os.path.join(nativelib.replay_dir(), '%s-B-%s.json' % (prop, h))
            json.dump(dict(property=prop, engine='B', kind='from-import', program=p['src'], items=p['items'], module=G.MODULE_SRC,
                           bytecode_path=_js(info), native=dict(context=ctx, output=o.get('ok', o), expected_fragment=p['expected']),
                           how='bin/check %s --replay %s' % (prop, rp)), open(rp, 'w'), indent=1)
            ev['violations'].append(dict(replay=rp, failed=[dict(
                desc='from-import %s: an alias is not bound to the module\'s export of its own name (%s); native render %r lacks %r' % (
                    p['items'], info, str(o.get('ok', o))[:120], p['expected']), loc='%s @%d' % (nm, pc))]))
    log('[%s] engine B from-import: %d programs, %d queries: unsat=%d sat=%d (confirmed natively %d), z3 %.1fs' % (
        prop, len(fam), nq, nun, nsat, nconf, z3s))
    # validation of the native oracle (not deciding): a sample of unsat programs must render as expected
    val = 0
    rnd = random.Random(seed + 6)
    for p in fam:
        o = run_tool('render', [dict(src=p['src'], ctx=ctx, templates={'m': G.MODULE_SRC})])[0]
        val += 1
        if not ('ok' in o and p['expected'] in o['ok']) and not ev['violations']:
            ev['problems'].append('engine B/C06: %r renders %r, expected fragment %r, although no wrong binding was found on its bytecode' % (
                p['src'][:80], str(o.get('ok', o))[:120], p['expected']))
    ev['coverage'] = dict(
        programs=len(fam), disagreements_checked=nsat, samples=samples,
        evaluations=nq, distinct_nontrivial=nun + nconf,
        rule='one program = one from-import statement (10 item lists incl. colliding and swapped aliases x 6 placements); '
             'one evaluation = one z3 query over ALL imported modules (which of the mentioned names the module defines is symbolic) '
             'on the instruction stream the real compiler emitted; non-trivial = decided unsat, or sat and confirmed natively',
        queries=nq, unsat=nun, sat=nsat, sat_confirmed_natively=nconf, z3_seconds=round(z3s, 2),
        native_validation_renders=val,
        family='from "m" import <1-3 items over a,b,c,v with/without aliases> at top level / in for / if / with / macro / block',
        exhaustive=False)
    ev['wall_s'] = round(time.time() - t0, 1)
    return ev


def replay_c06(path):
    d = json.load(open(path))
    err = build_native()
    if err:
        print(err)
        return False
    o = run_tool('render', [dict(src=d['program'], ctx=d['native']['context'], templates={'m': d['module']})])[0]
    print(json.dumps(o))
    return not ('ok' in o and d['native']['expected_fragment'] in o['ok'])


# ---------------------------------------------------------------------------------------------
# C12: the VM's use sites of the undefined-behaviour helpers (bytecode/sites.py)
# ---------------------------------------------------------------------------------------------
def run_c12(prop, tier, seed):
    import sites
    ev = dict(engine='Bs', violations=[], known_hits=[], problems=[], coverage={})
    err = build_native()
    if err:
        ev['problems'].append('engine B: native tools did not build: ' + err[-400:])
        return ev
    r = sites.run_sites(prop, tier, seed, run_tool)
    ev['violations'] = r['violations']
    ev['problems'] = r['problems']
    ev['coverage'] = r['coverage']
    log('[%s] engine B VM sites: %d sites x 20 (mode, operand) cells symbolic, %d z3 queries, %d disagreeing cells (%d confirmed natively); native matrix %d cells, %d unpredicted' % (
        prop, r['coverage'].get('sites', 0), r['coverage'].get('z3_queries', 0), r['coverage'].get('disagreeing_cells', 0),
        r['coverage'].get('confirmed_natively', 0), r['coverage'].get('native_matrix_cells', 0), r['coverage'].get('native_cells_unpredicted', 0)))
    return ev


def replay_c12(path):
    import sites
    err = build_native()
    if err:
        print(err)
        return False
    return sites.replay_site(path, run_tool)


# ---------------------------------------------------------------------------------------------
# C04: short-circuit expressions (the operators the constant folder re-implements) as emitted by the compiler
# ---------------------------------------------------------------------------------------------
def run_c04(prop, tier, seed):
    import flow
    ev = dict(engine='Bx', violations=[], known_hits=[], problems=[], coverage={})
    err = build_native()
    if err:
        ev['problems'].append('engine B: native tools did not build: ' + err[-400:])
        return ev
    fl = flow.run_flow(prop, tier, seed, run_tool, fam_fn=flow.expression_family)
    ev['violations'] = fl['violations']
    ev['problems'] = fl['problems']
    ev['coverage'] = fl['coverage']
    c = fl['coverage']
    log('[%s] engine B short-circuit expressions: %d programs, %d bytecode paths, %d queries: unsat=%d sat=%d (confirmed natively %d); reference validated on %d native renders (%d mismatches)' % (
        prop, c.get('programs', 0), c.get('bytecode_paths', 0), c.get('queries', 0), c.get('unsat', 0), c.get('sat', 0), c.get('sat_confirmed_natively', 0),
        c.get('native_validation_renders', 0), c.get('native_validation_mismatches', 0)))
    return ev
