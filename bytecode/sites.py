"""Engine B, C12 part: do the VM's use sites consult the undefined-behaviour helpers?

The helpers themselves (`UndefinedBehavior::{is_true, assert_value_not_undefined, assert_iterable,
handle_undefined}`) are model-checked against the documented matrix by the Kani harnesses of C12.  What a
kernel harness cannot see is whether each *site* of the interpreter goes through them - `eval_impl` is out of
CBMC's reach.  This part closes that gap on the source of the interpreter:

  * for every site of the table below, the text of its `eval_impl` match arm (or of `push_loop`) is extracted
    from /repo/minijinja/src/vm/mod.rs ON THIS RUN (local macros `op_binop!` are expanded) and the guard it
    applies to its operand is classified: which helper call, or the inline `strict_undefined` test, or none;
  * z3 then decides, with the undefined-behaviour mode (4) and the operand kind (undefined, silent undefined,
    none, false, a truthy string) SYMBOLIC, whether some site exists at which the outcome of the extracted
    guard (error / no error) differs from the documented matrix for the construct the site implements;
  * every `sat` (site, mode, kind) is replayed: the site's witness template is rendered by the real engine
    under that mode with that operand; only a render whose error/no-error outcome contradicts the matrix is a
    VIOLATION.  A site whose arm text cannot be classified is inconclusive.
Validation (not deciding): for every site, all 20 (mode, kind) cells are also rendered natively and must agree
with the matrix whenever the solver found no disagreement - a disagreement the solver did not predict is exit 2.
"""
import os, re, sys, json, time, hashlib
import z3

HERE = os.path.dirname(os.path.abspath(__file__))
sys.path.insert(0, HERE)
import encoder as E
sys.path.insert(0, '/verif/bin')
import nativelib

MODES = ['chainable', 'lenient', 'semi_strict', 'strict']
KINDS = ['undefined', 'silent_undefined', 'none', 'false', 'truthy']
CH, LE, SS, ST = 0, 1, 2, 3
U, SU, NO, FA, TR = 0, 1, 2, 3, 4

# guard classes and the documented matrix (error?) of each - these formulas are exactly what the C12 Kani
# harnesses prove about the helpers
def g_err(guard, m, k):
    if guard == 'is_true':
        return z3.And(m == ST, k == U)
    if guard in ('not_undefined', 'iterable', 'strict_inline'):
        return z3.And(z3.Or(m == ST, m == SS), k == U)
    if guard == 'strict_only_inline':
        # `a.is_undefined() && Strict`: a silent undefined counts as undefined here
        return z3.And(m == ST, z3.Or(k == U, k == SU))
    if guard == 'handle_parent':
        # looking something up ON the operand: an undefined operand is an error unless chainable; a silent
        # undefined counts as undefined here (is_undefined())
        return z3.And(m != CH, z3.Or(k == U, k == SU))
    if guard == 'none':
        return z3.BoolVal(False)
    raise KeyError(guard)


# site -> (where, required guard, operand name in the arm, witness template, note)
# witness templates use the variable `x` as the operand under test
SITES = {
    'Not': ('arm', 'is_true', '{{ not x }}|END'),
    'JumpIfFalse': ('arm', 'is_true', '{% if x %}T{% else %}F{% endif %}|END'),
    'JumpIfFalseOrPop': ('arm', 'is_true', '{% set r = x and 1 %}|END'),
    'JumpIfTrueOrPop': ('arm', 'is_true', '{% set r = x or 1 %}|END'),
    'Eq': ('arm', 'not_undefined', '{% set r = x == 1 %}|END'),
    'Ne': ('arm', 'not_undefined', '{% set r = x != 1 %}|END'),
    'Lt': ('arm', 'not_undefined', '{% set r = x < 1 %}|END'),
    'Lte': ('arm', 'not_undefined', '{% set r = x <= 1 %}|END'),
    'Gt': ('arm', 'not_undefined', '{% set r = x > 1 %}|END'),
    'Gte': ('arm', 'not_undefined', '{% set r = x >= 1 %}|END'),
    'StringConcat': ('arm', 'not_undefined', '{% set r = x ~ "s" %}|END'),
    'In': ('arm', 'iterable', '{% set r = 1 in x %}|END'),
    'GetAttr': ('arm', 'handle_parent', '{% set r = x.attr %}|END'),
    'GetItem': ('arm', 'handle_parent', '{% set r = x[0] %}|END'),
    'Slice': ('arm', 'strict_only_inline', '{% set r = x[1:] %}|END'),
    'Emit': ('arm', 'strict_inline', '{{ x }}|END'),
    # the same instruction where output is discarded (top level of a child template after `extends`): the print
    # check must not depend on whether anything will be written
    'EmitDiscarded': ('arm:Emit', 'strict_inline', '{% extends "base" %}{{ x }}'),
    'PushLoop': ('fn push_loop', 'iterable', '{% for a in x %}{% endfor %}|END'),
    # the re-entry of a recursive loop through loop(x) goes through the same function
    'PushLoopRecursion': ('fn push_loop', 'iterable', '{% for a in [1] recursive %}{{ loop(x) }}{% endfor %}|END'),
}
# constructs whose documented outcome for the non-undefined falsy kinds is an error for reasons unrelated to
# undefined handling (e.g. `1 in none`) are compared on the undefined kinds only
UNDEFINED_ONLY = {'EmitDiscarded', 'In', 'GetAttr', 'GetItem', 'Slice', 'Lt', 'Lte', 'Gt', 'Gte', 'StringConcat', 'PushLoop', 'PushLoopRecursion', 'Eq', 'Ne'}


def expand_macros(src, text):
    for mac in ('op_binop', 'func_binop'):
        m = re.search(r'macro_rules!\s*%s\s*\{(.*?)\n\s{12}\}' % mac, src, re.S)
        body = m.group(1) if m else ''
        text = re.sub(r'%s!\s*\([^)]*\)' % mac, lambda _: ' { ' + body + ' } ', text)
    return text


def classify(text):
    """Which guards the text applies (set of guard classes)."""
    found = set()
    if re.search(r'undefined_behavior(?:\(\))?\s*\.\s*is_true\s*\(', text):
        found.add('is_true')
    if re.search(r'undefined_behavior(?:\(\))?\s*\.\s*assert_value_not_undefined\s*\(', text):
        found.add('not_undefined')
    if re.search(r'undefined_behavior(?:\(\))?\s*\.\s*(assert_iterable|try_iter)\s*\(', text):
        found.add('iterable')
    if re.search(r'undefined_behavior(?:\(\))?\s*\.\s*handle_undefined\s*\(\s*\w+\s*\.\s*is_undefined\s*\(\s*\)\s*\)', text):
        found.add('handle_parent')
    if re.search(r'strict_undefined\s*&&', text) and re.search(r'Undefined\s*\(\s*UndefinedType::Default\s*\)', text):
        found.add('strict_inline')
    if re.search(r'is_undefined\(\)\s*&&\s*matches!\s*\(\s*undefined_behavior\s*,\s*UndefinedBehavior::Strict\s*\)', text):
        found.add('strict_only_inline')
    return found


def extract(repo):
    src = open(os.path.join(repo, 'minijinja', 'src', 'vm', 'mod.rs'), encoding='utf-8').read()
    arms = E.arm_texts(src)
    out = {}
    problems = []
    for site, (where, need, _tpl) in SITES.items():
        if where.startswith('arm'):
            arm = where.split(':')[1] if ':' in where else site
            if arm not in arms:
                problems.append('no match arm for Instruction::%s in eval_impl' % arm)
                continue
            text = expand_macros(src, arms[arm])
            if site == 'EmitDiscarded':
                found = classify(text)
                # an arm that asks whether output is being discarded (or leaves early) before its guard does not
                # apply the guard on that path
                k = text.find('strict_undefined')
                early = re.search(r'is_discarding\s*\(|\bcontinue\b', text[:k if k >= 0 else len(text)])
                eff = 'none' if (early or need not in found) else need
                out[site] = dict(found=sorted(found), effective=eff, note='early exit before the guard' if early else '')
                continue
        else:
            m = re.search(r'\bfn push_loop\s*\(', src)
            if not m:
                problems.append('fn push_loop not found')
                continue
            i = src.index('{', src.index(')', m.end()))
            d = 0
            j = i
            while True:
                if src[j] == '{':
                    d += 1
                elif src[j] == '}':
                    d -= 1
                    if d == 0:
                        break
                j += 1
            text = src[i:j + 1]
            # every iteration entry must go through the mode-aware helper: a plain `.try_iter()` on the iterable
            # next to it means one of the entries (e.g. the recursive re-entry) bypasses it
            if re.search(r'\biterable\s*\.\s*try_iter\s*\(', text):
                out[site] = dict(found=sorted(classify(text)), effective='none', note='a path iterates the value without the helper')
                continue
        found = classify(text)
        eff = need if need in found else ('none' if not found else sorted(found)[0])
        out[site] = dict(found=sorted(found), effective=eff)
    return out, problems


def solve(extracted):
    """All (site, mode, kind) at which the extracted guard and the required guard disagree, via z3."""
    names = sorted(extracted)
    site = z3.Int('site')
    m, k = z3.Int('mode'), z3.Int('kind')
    s = z3.Solver()
    s.set('timeout', 30000)
    s.add(site >= 0, site < len(names), m >= 0, m < 4, k >= 0, k < 5)
    diffs = []
    for i, nm in enumerate(names):
        need = SITES[nm][1]
        eff = extracted[nm]['effective']
        d = z3.Xor(g_err(need, m, k), g_err(eff, m, k))
        if nm in UNDEFINED_ONLY:
            d = z3.And(d, z3.Or(k == U, k == SU))
        diffs.append(z3.And(site == i, d))
    s.add(z3.Or(*diffs))
    hits = []
    t0 = time.time()
    q = 0
    while True:
        q += 1
        r = s.check()
        if r != z3.sat:
            break
        mod = s.model()
        i, mm, kk = mod[site].as_long(), mod[m].as_long(), mod[k].as_long()
        hits.append((names[i], mm, kk))
        s.add(z3.Not(z3.And(site == i, m == mm, k == kk)))
        if len(hits) > 60:
            break
    return hits, str(r), q, time.time() - t0


def ctx_for(kind):
    if kind == U or kind == SU:
        return {}
    return {'x': {NO: None, FA: False, TR: 'a'}[kind]}


def witness(site, kind):
    tpl = SITES[site][2]
    if kind == SU:
        # a silent undefined is what `x if false` (no else) evaluates to
        tpl = '{% set x = (1 if false) %}' + tpl
    return tpl


def expected_error(site, mode, kind):
    need = SITES[site][1]
    m, k = z3.IntVal(mode), z3.IntVal(kind)
    return z3.is_true(z3.simplify(g_err(need, m, k)))


def run_sites(prop, tier, seed, run_tool):
    t0 = time.time()
    ev = dict(violations=[], problems=[], coverage={})
    extracted, problems = extract(nativelib.REPO)
    ev['problems'].extend('engine B/C12 sites: ' + p for p in problems)
    hits, last, nq, dt = solve(extracted)
    confirmed = 0
    for site, mode, kind in hits:
        req = dict(src=witness(site, kind), ctx=ctx_for(kind), undefined=MODES[mode], templates={'base': 'BASE'})
        o = run_tool('render', [req])[0]
        got_err = 'err' in o and 'UndefinedError' in o['err']
        other_err = ('err' in o and not got_err) or 'panic' in o
        want_err = expected_error(site, mode, kind)
        if other_err:
            continue
        if got_err != want_err:
            confirmed += 1
            if len(ev['violations']) < 5:
                h = hashlib.sha1(('%s %d %d' % (site, mode, kind)).encode()).hexdigest()[:10]
                rp = os.path.join(nativelib.replay_dir(), '%s-B-site-%s.json' % (prop, h))
                json.dump(dict(property=prop, engine='B', kind='site', site=site, mode=MODES[mode], operand=KINDS[kind], request=req,
                               expected_undefined_error=want_err, native=o, extracted=extracted[site],
                               how='bin/check %s --replay %s' % (prop, rp)), open(rp, 'w'), indent=1)
                ev['violations'].append(dict(replay=rp, failed=[dict(
                    desc='VM site %s under %s with an operand that is %s: documented matrix says %s, the real render %s (site applies guard %s, found %s)' % (
                        site, MODES[mode], KINDS[kind], 'UndefinedError' if want_err else 'no error', 'fails' if got_err else 'succeeds: %r' % str(o.get('ok'))[:40],
                        extracted[site]['effective'], extracted[site]['found']), loc='minijinja/src/vm/mod.rs %s' % site)]))
    if hits and not confirmed:
        ev['problems'].append('engine B/C12 sites: the solver finds %d disagreeing (site, mode, operand) cells, e.g. %s, but none reproduces natively (extraction wrong?)' % (
            len(hits), hits[0]))
    # validation: the full matrix natively for every site (20 cells each)
    cells = mism = 0
    reqs, keys = [], []
    for site in sorted(extracted):
        for mode in range(4):
            for kind in range(5):
                if site in UNDEFINED_ONLY and kind not in (U, SU):
                    continue
                reqs.append(dict(src=witness(site, kind), ctx=ctx_for(kind), undefined=MODES[mode], templates={'base': 'BASE'}))
                keys.append((site, mode, kind))
    outs = run_tool('render', reqs)
    hitset = set(hits)
    unpredicted = []
    for (site, mode, kind), o in zip(keys, outs):
        cells += 1
        got_err = 'err' in o and 'UndefinedError' in o['err']
        if ('err' in o and not got_err) or 'panic' in o:
            continue
        if got_err != expected_error(site, mode, kind) and (site, mode, kind) not in hitset:
            mism += 1
            unpredicted.append((site, MODES[mode], KINDS[kind], o))
    if unpredicted and not ev['violations']:
        ev['problems'].append('engine B/C12 sites: %d native cells contradict the matrix although the extracted guards agree with it, first: %s' % (
            len(unpredicted), json.dumps(unpredicted[0])[:300]))
    ev['coverage'] = dict(sites=len(extracted), cells_symbolic=len(extracted) * 20, z3_queries=nq, z3_seconds=round(dt, 2),
                          disagreeing_cells=len(hits), confirmed_natively=confirmed, native_matrix_cells=cells,
                          native_cells_unpredicted=mism, extracted={k: v for k, v in extracted.items()})
    ev['wall_s'] = round(time.time() - t0, 1)
    return ev


def replay_site(path, run_tool):
    d = json.load(open(path))
    o = run_tool('render', [d['request']])[0]
    print(json.dumps(o))
    got_err = 'err' in o and 'UndefinedError' in o['err']
    return got_err != d['expected_undefined_error']
