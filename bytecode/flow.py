"""Engine B, C03 part: translation validation of control flow.

For a generated family of programs built from if / elif / else, for / else with break and continue,
conditional expressions and short-circuit conditions, the instruction stream emitted by the REAL compiler is
executed symbolically (every condition variable an unknown boolean, every iterable an unknown length 0..2),
which yields a set of (path condition, emitted text) pairs.  A small reference interpreter of the documented
semantics does the same on the program's syntax tree.  z3 then decides whether there is an assignment of the
unknowns under which the two disagree:

    exists c1..cn, |l1|..|lm| :  OR over (bytecode path p, reference path r) with text_p != text_r of
                                 (cond_p AND cond_r)          or  no bytecode path applies

A `sat` assignment becomes a render context; the real engine's output under it is compared with the
reference - only a real render that differs from the documented semantics is a VIOLATION.  The reference
itself is validated natively on every program (all-true / all-false / mixed contexts).
"""
import os, sys, json, time, itertools, hashlib
import z3

HERE = os.path.dirname(os.path.abspath(__file__))
sys.path.insert(0, HERE)
sys.path.insert(0, '/verif/bin')
import nativelib

MAXLEN = 2


# ---------------------------------------------------------------------------------------------
# program family (syntax trees)
# ---------------------------------------------------------------------------------------------
class Cond:
    """boolean condition over variables: ('var', name) | ('not', c) | ('and', a, b) | ('or', a, b)"""
    def __init__(self, t):
        self.t = t

    def src(self):
        t = self.t
        if t[0] == 'var':
            return t[1]
        if t[0] == 'not':
            return 'not ' + Cond(t[1]).src()
        return '(%s %s %s)' % (Cond(t[1]).src(), t[0], Cond(t[2]).src())

    def ev(self, asg):
        t = self.t
        if t[0] == 'var':
            return asg[t[1]]
        if t[0] == 'not':
            return not Cond(t[1]).ev(asg)
        if t[0] == 'and':
            return Cond(t[1]).ev(asg) and Cond(t[2]).ev(asg)
        return Cond(t[1]).ev(asg) or Cond(t[2]).ev(asg)

    def val(self, asg):
        """text the expression's VALUE prints as: variables hold 'T<name>' when truthy and '' when falsy"""
        t = self.t
        if t[0] == 'var':
            return ('T' + t[1]) if asg[t[1]] else ''
        if t[0] == 'not':
            return 'False' if Cond(t[1]).ev(asg) else 'True'
        l = Cond(t[1])
        if t[0] == 'and':
            return Cond(t[2]).val(asg) if l.ev(asg) else l.val(asg)
        return l.val(asg) if l.ev(asg) else Cond(t[2]).val(asg)

    def vars(self):
        t = self.t
        if t[0] == 'var':
            return {t[1]}
        if t[0] == 'not':
            return Cond(t[1]).vars()
        return Cond(t[1]).vars() | Cond(t[2]).vars()


class BreakLoop(Exception):
    pass


class ContinueLoop(Exception):
    pass


def node_src(n):
    k = n[0]
    if k == 'text':
        return n[1]
    if k == 'if':
        # ('if', [(cond, body), ...], else_body|None)
        s = ''
        for i, (c, b) in enumerate(n[1]):
            s += '{%% %s %s %%}%s' % ('if' if i == 0 else 'elif', c.src(), body_src(b))
        if n[2] is not None:
            s += '{% else %}' + body_src(n[2])
        return s + '{% endif %}'
    if k == 'for':
        s = '{%% for x in %s %%}%s' % (n[1], body_src(n[2]))
        if n[3] is not None:
            s += '{% else %}' + body_src(n[3])
        return s + '{% endfor %}'
    if k == 'tern':
        return '{{ "%s" if %s else "%s" }}' % (n[2], n[1].src(), n[3])
    if k == 'tern2':
        # a conditional expression in the else position nests to the right: A if c1 else (B if c2 else C)
        return '{{ "%s" if %s else "%s" if %s else "%s" }}' % (n[2], n[1].src(), n[4], n[3].src(), n[5])
    if k == 'emit':
        return '{{ %s }}' % n[1].src()
    if k == 'break':
        return '{% break %}'
    if k == 'continue':
        return '{% continue %}'
    raise KeyError(k)


def body_src(b):
    return ''.join(node_src(n) for n in b)


def run_ref(body, asg, lens, out):
    """documented semantics, concretely"""
    for n in body:
        k = n[0]
        if k == 'text':
            out.append(n[1])
        elif k == 'if':
            for c, b in n[1]:
                if c.ev(asg):
                    run_ref(b, asg, lens, out)
                    break
            else:
                if n[2] is not None:
                    run_ref(n[2], asg, lens, out)
        elif k == 'for':
            cnt = lens[n[1]]
            for _ in range(cnt):
                try:
                    run_ref(n[2], asg, lens, out)
                except BreakLoop:
                    break
                except ContinueLoop:
                    continue
            if cnt == 0 and n[3] is not None:
                # the else block runs iff the loop body never ran
                run_ref(n[3], asg, lens, out)
        elif k == 'tern':
            out.append(n[2] if n[1].ev(asg) else n[3])
        elif k == 'tern2':
            out.append(n[2] if n[1].ev(asg) else (n[4] if n[3].ev(asg) else n[5]))
        elif k == 'emit':
            out.append(n[1].val(asg))
        elif k == 'break':
            raise BreakLoop()
        elif k == 'continue':
            raise ContinueLoop()


def prog_vars(body):
    cs, ls = set(), set()
    for n in body:
        if n[0] == 'if':
            for c, b in n[1]:
                cs |= c.vars()
                a, b2 = prog_vars(b)
                cs |= a
                ls |= b2
            if n[2] is not None:
                a, b2 = prog_vars(n[2])
                cs |= a
                ls |= b2
        elif n[0] == 'for':
            ls.add(n[1])
            for part in (n[2], n[3]):
                if part is not None:
                    a, b2 = prog_vars(part)
                    cs |= a
                    ls |= b2
        elif n[0] in ('tern', 'emit'):
            cs |= n[1].vars()
        elif n[0] == 'tern2':
            cs |= n[1].vars() | n[3].vars()
    return cs, ls


def expression_family(tier):
    """short-circuit expressions as printed VALUES and as conditions (the operators the constant folder re-implements)"""
    v = lambda n: ('var', n)
    shapes = [
        ('and', v('c1'), v('c2')), ('or', v('c1'), v('c2')),
        ('or', ('and', v('c1'), v('c2')), v('c3')), ('and', ('or', v('c1'), v('c2')), v('c3')),
        ('or', v('c1'), ('and', v('c2'), v('c3'))), ('and', v('c1'), ('or', v('c2'), v('c3'))),
        ('and', ('not', v('c1')), v('c2')), ('or', ('and', v('c1'), ('not', v('c2'))), v('c3')),
        ('or', ('and', v('c1'), v('c2')), ('and', v('c3'), v('c4'))), ('and', ('or', v('c1'), v('c2')), ('or', v('c3'), v('c4'))),
        ('or', ('or', v('c1'), v('c2')), v('c3')), ('and', ('and', v('c1'), v('c2')), v('c3')),
        ('not', ('and', v('c1'), v('c2'))), ('not', ('or', v('c1'), ('not', v('c2')))),
    ]
    progs = []
    for sh in shapes:
        c = Cond(sh)
        progs.append([('emit', c), ('text', '|')])
        progs.append([('if', [(c, [('text', 'T')])], [('text', 'F')]), ('text', '|')])
    return [dict(body=b, src=body_src(b)) for b in progs]


def family(tier):
    V = lambda n: Cond(('var', n))
    conds = [V('c1'), Cond(('not', ('var', 'c1'))), Cond(('and', ('var', 'c1'), ('var', 'c2'))),
             Cond(('or', ('var', 'c1'), ('var', 'c2'))),
             Cond(('or', ('and', ('var', 'c1'), ('not', ('var', 'c2'))), ('var', 'c3')))]
    T = lambda s: ('text', s)
    progs = []
    # if / elif chains of 1..4 arms, with and without else
    for arms in (1, 2, 3, 4):
        for has_else in (False, True):
            names = ['c1', 'c2', 'c3', 'c4'][:arms]
            chain = [(V(nm), [T('A%d' % i)]) for i, nm in enumerate(names)]
            progs.append([('if', chain, [T('E')] if has_else else None), T('|')])
    # compound conditions
    for c in conds:
        progs.append([('if', [(c, [T('T')])], [T('F')]), T('|')])
        progs.append([('tern', c, 'P', 'Q'), T('|')])
    # chained conditional expressions (right-nested), also with compound conditions
    progs.append([('tern2', V('c1'), 'P', V('c2'), 'Q', 'R'), T('|')])
    progs.append([('tern2', Cond(('and', ('var', 'c1'), ('var', 'c3'))), 'P', Cond(('not', ('var', 'c2'))), 'Q', 'R'), T('|')])
    progs.append([('if', [(V('c3'), [('tern2', V('c1'), 'P', V('c2'), 'Q', 'R')])], [T('E')]), T('|')])
    # loops with else, break, continue under conditions; nested if chains inside loops
    inner = [
        [T('a')],
        [T('a'), ('if', [(V('c1'), [('break',)])], None), T('b')],
        [T('a'), ('if', [(V('c1'), [('continue',)])], None), T('b')],
        [('if', [(V('c1'), [T('p'), ('break',)]), (V('c2'), [T('q'), ('continue',)])], [T('r')]), T('s')],
        [('if', [(V('c1'), [('if', [(V('c2'), [('break',)])], [('continue',)])])], None), T('z')],
        [('tern', V('c2'), 'm', 'n'), ('if', [(Cond(('and', ('var', 'c1'), ('var', 'c2'))), [('break',)])], None)],
    ]
    for body in inner:
        for has_else in (False, True):
            progs.append([('for', 'l1', body, [T('E')] if has_else else None), T('|')])
    # nested loops: inner break/continue must not leave the outer loop; else blocks of both
    progs.append([('for', 'l1', [T('o'), ('for', 'l2', [T('i'), ('if', [(V('c1'), [('break',)])], None), T('j')], [T('e')]), T('p')], [T('E')]), T('|')])
    progs.append([('for', 'l1', [('for', 'l2', [('if', [(V('c1'), [('continue',)])], None), T('j')], None), ('if', [(V('c2'), [('break',)])], None), T('p')], [T('E')]), T('|')])
    # break / continue in the else block of an inner loop refer to the enclosing loop
    progs.append([('for', 'l1', [T('o'), ('for', 'l2', [T('i')], [T('e'), ('break',)]), T('p')], [T('E')]), T('|')])
    progs.append([('for', 'l1', [T('o'), ('for', 'l2', [T('i')], [('if', [(V('c1'), [('continue',)])], None), T('e')]), T('p')], None), T('|')])
    # loop inside if-chain arms, and an if chain after a loop that broke
    progs.append([('if', [(V('c1'), [('for', 'l1', [T('a'), ('break',)], [T('e')])]), (V('c2'), [('for', 'l1', [T('b')], [T('f')])])], [T('g')]), T('|')])
    progs.append([('for', 'l1', [('if', [(V('c1'), [('break',)])], None), T('a')], [T('e')]), ('if', [(V('c1'), [T('X')])], [T('Y')]), T('|')])
    if tier != 'quick':
        # every pair (loop body) x (condition) as the break guard
        for c in conds:
            for has_else in (False, True):
                progs.append([('for', 'l1', [T('a'), ('if', [(c, [('break',)])], [T('k')]), T('b')], [T('E')] if has_else else None), T('|')])
                progs.append([('for', 'l1', [('if', [(c, [('continue',)])], None), T('b')], [T('E')] if has_else else None), T('|')])
    return [dict(body=b, src=body_src(b)) for b in progs]


# ---------------------------------------------------------------------------------------------
# symbolic execution of the emitted instructions (forking; conditions are decided once per variable)
# ---------------------------------------------------------------------------------------------
class Unsupported(Exception):
    pass


def exec_bytecode(instrs, max_steps=4000):
    """-> list of (asg: {var: bool}, lens: {list: int}, out: str)"""
    done = []
    # state: pc, stack, out, asg, lens, loops[(list, remaining, yielded)]
    work = [(0, [], [], {}, {}, [])]
    steps = 0
    while work:
        pc, st, out, asg, lens, loops = work.pop()
        while True:
            steps += 1
            if steps > max_steps * 50:
                raise Unsupported('too many steps')
            if pc >= len(instrs):
                done.append((asg, lens, ''.join(out)))
                break
            ins = instrs[pc]
            op, arg = ins['op'], ins.get('arg')

            def truth(v):
                """-> list of (bool outcome, asg') for a stack value"""
                if v[0] == 'bool':
                    _, var, neg = v[:3]
                    if var in asg:
                        return [(asg[var] != neg, asg)]
                    return [(True != neg, dict(asg, **{var: True})), (False != neg, dict(asg, **{var: False}))]
                if v[0] == 'flag':
                    return [(v[1], asg)]
                if v[0] == 'const':
                    return [(bool(v[1]), asg)]
                raise Unsupported('truth of %r' % (v,))
            if op == 'Lookup':
                if arg.startswith('c'):
                    st = st + [('bool', arg, False, False)]
                elif arg.startswith('l'):
                    st = st + [('list', arg)]
                else:
                    st = st + [('other', arg)]
                pc += 1
            elif op == 'LoadConst':
                st = st + [('const', arg)]
                pc += 1
            elif op == 'Not':
                v = st[-1]
                if v[0] != 'bool':
                    raise Unsupported('Not on %r' % (v,))
                st = st[:-1] + [('bool', v[1], not v[2], True)]
                pc += 1
            elif op == 'EmitRaw':
                out = out + [arg]
                pc += 1
            elif op == 'Emit':
                v = st[-1]
                if v[0] == 'bool':
                    # the value of a condition variable ('T<name>' / '') or of its negation (True / False)
                    outcomes = truth(v)
                    alts = []
                    for val, a2 in outcomes:
                        if v[3]:
                            text = 'True' if val else 'False'
                        else:
                            text = ('T' + v[1]) if val else ''
                        alts.append((text, a2))
                    for text, a2 in alts[1:]:
                        work.append((pc + 1, st[:-1], out + [text], a2, lens, loops))
                    out = out + [alts[0][0]]
                    asg = alts[0][1]
                    st = st[:-1]
                    pc += 1
                    continue
                if v[0] != 'const':
                    raise Unsupported('Emit of %r' % (v,))
                out = out + [str(v[1])]
                st = st[:-1]
                pc += 1
            elif op == 'Jump':
                pc = arg
            elif op in ('JumpIfFalse', 'JumpIfFalseOrPop', 'JumpIfTrueOrPop'):
                v = st[-1]
                outcomes = truth(v)
                nexts = []
                for val, a2 in outcomes:
                    if op == 'JumpIfFalse':
                        nexts.append((arg if not val else pc + 1, st[:-1], a2))
                    elif op == 'JumpIfFalseOrPop':
                        nexts.append((arg, st, a2) if not val else (pc + 1, st[:-1], a2))
                    else:
                        nexts.append((arg, st, a2) if val else (pc + 1, st[:-1], a2))
                for npc, nst, a2 in nexts[1:]:
                    work.append((npc, nst, out, a2, lens, loops))
                pc, st, asg = nexts[0]
            elif op == 'PushLoop':
                v = st[-1]
                if v[0] != 'list':
                    raise Unsupported('PushLoop over %r' % (v,))
                st = st[:-1]
                name = v[1]
                if name in lens:
                    loops = loops + [(name, lens[name], 0)]
                else:
                    for n in range(1, MAXLEN + 1):
                        work.append((pc + 1, st, out, asg, dict(lens, **{name: n}), loops + [(name, n, 0)]))
                    lens = dict(lens, **{name: 0})
                    loops = loops + [(name, 0, 0)]
                pc += 1
            elif op == 'Iterate':
                name, rem, yielded = loops[-1]
                if rem > 0:
                    loops = loops[:-1] + [(name, rem - 1, yielded + 1)]
                    st = st + [('item',)]
                    pc += 1
                else:
                    pc = arg
            elif op == 'StoreLocal':
                st = st[:-1]
                pc += 1
            elif op == 'PushDidNotIterate':
                st = st + [('flag', loops[-1][2] == 0)]
                pc += 1
            elif op == 'PopLoopFrame':
                loops = loops[:-1]
                pc += 1
            elif op == 'DiscardTop':
                st = st[:-1]
                pc += 1
            else:
                raise Unsupported('instruction %s at pc %d' % (op, pc))
    return done


def ref_paths(body, cvars, lvars):
    out = []
    for bits in itertools.product([False, True], repeat=len(cvars)):
        asg = dict(zip(cvars, bits))
        for ls in itertools.product(range(MAXLEN + 1), repeat=len(lvars)):
            lens = dict(zip(lvars, ls))
            o = []
            run_ref(body, asg, lens, o)
            out.append((asg, lens, ''.join(o)))
    return out


def cond_term(asg, lens, zc, zl):
    parts = [zc[v] if val else z3.Not(zc[v]) for v, val in asg.items()]
    parts += [zl[l] == n for l, n in lens.items()]
    return z3.And(*parts) if parts else z3.BoolVal(True)


def check_program(p, instrs):
    """-> (verdict, model|info, seconds, stats)"""
    cvars, lvars = prog_vars(p['body'])
    cvars, lvars = sorted(cvars), sorted(lvars)
    try:
        bpaths = exec_bytecode(instrs)
    except Unsupported as e:
        return 'unknown', str(e), 0.0, {}
    rpaths = ref_paths(p['body'], cvars, lvars)
    zc = {v: z3.Bool(v) for v in cvars}
    zl = {l: z3.Int('len_' + l) for l in lvars}
    s = z3.Solver()
    s.set('timeout', 30000)
    for l in lvars:
        s.add(zl[l] >= 0, zl[l] <= MAXLEN)
    bterms = [(cond_term(a, l, zc, zl), o) for a, l, o in bpaths]
    bad = [z3.Not(z3.Or(*[t for t, _ in bterms]))]            # no bytecode path applies
    for ra, rl, ro in rpaths:
        rt = cond_term(ra, rl, zc, zl)
        wrong = [t for t, o in bterms if o != ro]
        if wrong:
            bad.append(z3.And(rt, z3.Or(*wrong)))
    s.add(z3.Or(*bad))
    t0 = time.time()
    r = s.check()
    dt = time.time() - t0
    stats = dict(bytecode_paths=len(bpaths), reference_cases=len(rpaths), conds=len(cvars), lists=len(lvars))
    if r == z3.sat:
        m = s.model()
        asg = {v: z3.is_true(m.eval(zc[v], model_completion=True)) for v in cvars}
        lens = {l: m.eval(zl[l], model_completion=True).as_long() for l in lvars}
        return 'sat', dict(asg=asg, lens=lens), dt, stats
    return str(r), None, dt, stats


def context_of(asg, lens):
    ctx = {v: (('T' + v) if t else '') for v, t in asg.items()}
    for l, n in lens.items():
        ctx[l] = list(range(n))
    return ctx


def run_flow(prop, tier, seed, run_tool, fam_fn=None):
    t0 = time.time()
    ev = dict(violations=[], problems=[], coverage={})
    fam = (fam_fn or family)(tier)
    for i, p in enumerate(fam):
        p['id'] = i
    dumps = {d['id']: d for d in run_tool('dump', [dict(id=p['id'], src=p['src']) for p in fam], timeout=600)}
    nq = nun = nsat = nconf = 0
    z3s = 0.0
    paths = 0
    samples = []
    val_reqs, val_exp = [], []
    for p in fam:
        d = dumps.get(p['id'])
        if d is None or 'error' in d:
            ev['problems'].append('engine B/C03 flow: the compiler rejected %r: %s' % (p['src'][:80], (d or {}).get('error')))
            continue
        verdict, info, dt, stats = check_program(p, d['instrs'])
        z3s += dt
        nq += 1
        paths += stats.get('bytecode_paths', 0)
        if len(samples) < 4:
            samples.append(dict(program=p['src'], verdict=verdict, **stats))
        cvars, lvars = prog_vars(p['body'])
        # validation contexts for the reference (all true, all false, alternating; lists of 0, 1, 2 items)
        for k, bits in enumerate(([True] * 8, [False] * 8, [True, False] * 4, [False, True] * 4)):
            asg = dict(zip(sorted(cvars), bits))
            lens = {l: (k + j) % (MAXLEN + 1) for j, l in enumerate(sorted(lvars))}
            o = []
            run_ref(p['body'], asg, lens, o)
            val_reqs.append(dict(src=p['src'], ctx=context_of(asg, lens)))
            val_exp.append((p['src'], asg, lens, ''.join(o)))
        if verdict == 'unsat':
            nun += 1
            continue
        if verdict != 'sat':
            ev['problems'].append('engine B/C03 flow: %s (%s) for %r' % (verdict, info, p['src'][:100]))
            continue
        nsat += 1
        o = []
        run_ref(p['body'], info['asg'], info['lens'], o)
        want = ''.join(o)
        ctx = context_of(info['asg'], info['lens'])
        r = run_tool('render', [dict(src=p['src'], ctx=ctx)])[0]
        if r.get('ok') == want:
            ev['problems'].append('engine B/C03 flow: the symbolic execution of the bytecode of %r disagrees with the reference under %s, but the real render agrees with the reference (executor model wrong?)' % (p['src'][:100], ctx))
            continue
        nconf += 1
        if len(ev['violations']) < 5:
            h = hashlib.sha1(p['src'].encode()).hexdigest()[:10]
            rp = os.path.join(nativelib.replay_dir(), '%s-B-flow-%s.json' % (prop, h))
            json.dump(dict(property=prop, engine='B', kind='flow', program=p['src'], context=ctx, expected=want, native=r,
                           how='bin/check %s --replay %s' % (prop, rp)), open(rp, 'w'), indent=1)
            ev['violations'].append(dict(replay=rp, failed=[dict(
                desc='control flow of %r under %s: documented semantics give %r, the real engine %r' % (p['src'][:120], ctx, want, str(r.get('ok', r))[:80]),
                loc='emitted instructions')]))
    # validate the reference natively
    outs = run_tool('render', val_reqs)
    mism = []
    for (src, asg, lens, want), o in zip(val_exp, outs):
        if o.get('ok') != want:
            mism.append((src, asg, lens, want, o))
    if mism and not ev['violations']:
        ev['problems'].append('engine B/C03 flow: the real engine disagrees with the reference on %d of %d validation renders although the bytecode check found nothing, first: %s' % (
            len(mism), len(outs), json.dumps(mism[0])[:300]))
    ev['coverage'] = dict(programs=len(fam), queries=nq, unsat=nun, sat=nsat, sat_confirmed_natively=nconf, z3_seconds=round(z3s, 2),
                          bytecode_paths=paths, native_validation_renders=len(outs), native_validation_mismatches=len(mism), samples=samples,
                          family='if/elif/else chains (1-4 arms), compound conditions (not/and/or), conditional expressions, for/else with break and continue under conditions, nested loops; condition variables symbolic booleans, iterables symbolic length 0..%d' % MAXLEN)
    ev['wall_s'] = round(time.time() - t0, 1)
    return ev


def replay_flow(path, run_tool):
    d = json.load(open(path))
    r = run_tool('render', [dict(src=d['program'], ctx=d['context'])])[0]
    print(json.dumps(r))
    return r.get('ok') != d['expected']
