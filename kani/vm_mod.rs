#![cfg(all(feature = "builtins", feature = "macros", feature = "multi_template", feature = "adjacent_loop_items", feature = "fuel", feature = "loop_controls"))]
// Kani harnesses for minijinja/src/vm/mod.rs (included under cfg(kani)): the small helpers of the executor
// that can be called without reaching eval_impl (which CBMC does not get through, DESIGN.md section 0).
#![allow(unused_imports)]
use super::*;
use crate::verif_common::*;

fn leaked_state_with_mode(mk: u8) -> State<'static, 'static> {
    let mut env = Environment::empty();
    env.set_undefined_behavior(match mk {
        0 => UndefinedBehavior::Chainable,
        1 => UndefinedBehavior::Lenient,
        2 => UndefinedBehavior::SemiStrict,
        _ => UndefinedBehavior::Strict,
    });
    let env: &'static Environment<'static> = Box::leak(Box::new(env));
    State::new_for_env(env)
}

macro_rules! push_loop_undefined_harness {
    ($name:ident, $recursive_reentry:expr, $silent:expr) => {
        #[kani::proof]
        #[kani::unwind(5)]
        #[kani::stub(std::hash::RandomState::new, crate::verif_common::random_state_stub)]
        #[kani::stub(alloc::fmt::format, crate::verif_common::format_stub)]
        #[kani::stub(crate::error::Error::with_source, crate::error::verif_kani::with_source_model)]
        #[kani::stub(alloc::sync::Arc::drop_slow, crate::verif_common::arc_drop_slow_leak)]
        fn $name() {
            let mk: u8 = kani::any();
            kani::assume(mk < 4);
            let mut state = leaked_state_with_mode(mk);
            let depth_before = state.ctx.depth();
            let v = if $silent { Value(ValueRepr::Undefined(UndefinedType::Silent)) } else { Value::UNDEFINED };
            // the loop entry (PushLoop) and the re-entry of a recursive loop through loop(...) share push_loop;
            // the re-entry passes the recursion jump target
            let jump = if $recursive_reentry { Some((3u32, false)) } else { None };
            let r = Executor::push_loop(&mut state, v, 0, 1, jump);
            // iterating an undefined fails under Strict and SemiStrict and is an empty iteration otherwise -
            // at the loop head and at the recursive re-entry alike; a silent undefined never fails
            let must_fail = !$silent && mk >= 2;
            match r {
                Ok(()) => {
                    assert!(!must_fail);
                    assert!(state.ctx.depth() == depth_before + 1);
                    assert!(state.ctx.current_loop().is_some());
                }
                Err(_) => {
                    assert!(must_fail);
                    assert!(state.ctx.depth() == depth_before);
                }
            }
            kani::cover!(mk == 3);
            kani::cover!(mk == 1);
            core::mem::forget((r, state));
        }
    };
}

// @verif-block props=C12 tier=experimental cap=900 group=core doc=the_iteration_site_Executor::push_loop_on_an_undefined_iterable_under_ALL_4_modes,_at_the_loop_head_and_at_the_re-entry_of_a_recursive_loop_(loop(x)_with_x_undefined):_fails_under_Strict_and_SemiStrict,_pushes_an_empty_loop_frame_otherwise;_a_silent_undefined_never_fails
push_loop_undefined_harness!(c12_push_loop_undefined_at_head, false, false);
push_loop_undefined_harness!(c12_push_loop_undefined_at_recursion, true, false);
push_loop_undefined_harness!(c12_push_loop_silent_undefined, false, true);
// @verif-end

macro_rules! autoescape_arg_harness {
    ($name:ident, $mk:expr, $want_html_if_off:expr, $want_err:expr) => {
        #[kani::proof]
        #[kani::unwind(5)]
        #[kani::stub(alloc::fmt::format, crate::verif_common::format_stub)]
        fn $name() {
            let init_html: bool = kani::any();
            let initial = if init_html { AutoEscape::Html } else { AutoEscape::None };
            let n: i64 = kani::any();
            let v: Value = ($mk)(n);
            let r = Executor::derive_auto_escape(v, initial);
            match r {
                Ok(AutoEscape::Html) => assert!(($want_html_if_off)(n)),
                Ok(AutoEscape::None) => assert!(!($want_html_if_off)(n) && !$want_err),
                Ok(_) => assert!(false),
                Err(_) => assert!($want_err),
            }
            kani::cover!(init_html);
            kani::cover!(!init_html);
            core::mem::forget(r);
        }
    };
}

// @verif-block props=C02,C05 tier=quick cap=300 group=core doc=`{%_autoescape_X_%}`_for_the_listed_argument_and_the_template's_initial_mode_in_{off,_html}:_"html"_and_true_switch_HTML_escaping_on_(true_keeps_an_initial_mode_that_is_already_on),_"none"_and_false_switch_it_off,_an_integer_n_behaves_like_`n_==_true`,_another_string_is_an_error_-_never_a_silent_third_mode
autoescape_arg_harness!(c02_autoescape_arg_html, |_n: i64| Value::from("html"), |_n: i64| true, false); // tier=experimental cap=900
autoescape_arg_harness!(c02_autoescape_arg_none, |_n: i64| Value::from("none"), |_n: i64| false, false); // tier=experimental cap=900
autoescape_arg_harness!(c02_autoescape_arg_true, |_n: i64| Value::from(true), |_n: i64| true, false);
autoescape_arg_harness!(c02_autoescape_arg_false, |_n: i64| Value::from(false), |_n: i64| false, false);
autoescape_arg_harness!(c02_autoescape_arg_int, |n: i64| Value::from(n), |n: i64| n == 1, false);
autoescape_arg_harness!(c02_autoescape_arg_other_str, |_n: i64| Value::from("xml"), |_n: i64| false, true); // tier=experimental cap=900
// @verif-end


// ---------------------------------------------------------------------------
// C06: inheritance cycles are errors, not hangs.  `{% extends %}` does not recurse - it swaps the
// instruction stream - so the ONLY thing that ends a cyclic chain is load_blocks recognising a template it
// has already loaded.  State::get_template (environment lookup through the path-join callback, loader and
// compiler) is replaced by a model that resolves every request to one compiled template named "x/b", the
// way a join callback resolves the relative spelling "./b" used inside "x/a" and "x/b" alike.
// ---------------------------------------------------------------------------
pub(crate) fn get_template_model<'template, 'env>(
    this: &State<'template, 'env>,
    _name: &str,
) -> Result<crate::template::Template<'env, 'env>, Error>
where
    'template: 'template,
    'env: 'env,
{
    let compiled: &'static crate::template::CompiledTemplate<'static> =
        Box::leak(Box::new(crate::template::CompiledTemplate {
            instructions: Instructions::new("x/b", ""),
            blocks: BTreeMap::new(),
            buffer_size_hint: 0,
            syntax_config: Default::default(),
            initial_auto_escape: AutoEscape::None,
        }));
    Ok(crate::template::Template::new(
        this.env(),
        crate::template::CompiledTemplateRef::Borrowed(compiled),
    ))
}

macro_rules! extends_cycle_harness {
    ($name:ident, $first:expr, $second:expr) => {
        #[kani::proof]
        #[kani::unwind(6)]
        #[kani::stub(std::hash::RandomState::new, crate::verif_common::random_state_stub)]
        #[kani::stub(alloc::fmt::format, crate::verif_common::format_stub)]
        #[kani::stub(crate::vm::state::State::get_template, get_template_model)]
        #[kani::stub(alloc::sync::Arc::drop_slow, crate::verif_common::arc_drop_slow_leak)]
        fn $name() {
            let env: &'static Environment<'static> = Box::leak(Box::new(Environment::empty()));
            let mut state = State::new_for_env(env);
            let r1 = Executor::load_blocks(Value::from($first), &mut state);
            assert!(r1.is_ok());
            let r2 = Executor::load_blocks(Value::from($second), &mut state);
            assert!(r2.is_err());
            kani::cover!(true);
            core::mem::forget((r1, r2, state));
        }
    };
}

// @verif props=C06 tier=experimental cap=900 group=core fns=Executor::load_blocks
/// (cost probe) one load_blocks call
#[kani::proof]
#[kani::unwind(6)]
#[kani::stub(std::hash::RandomState::new, crate::verif_common::random_state_stub)]
#[kani::stub(alloc::fmt::format, crate::verif_common::format_stub)]
#[kani::stub(crate::vm::state::State::get_template, get_template_model)]
fn c06_probe_single_load_blocks() {
    let env: &'static Environment<'static> = Box::leak(Box::new(Environment::empty()));
    let mut state = State::new_for_env(env);
    let r1 = Executor::load_blocks(Value::from("./b"), &mut state);
    assert!(r1.is_ok());
    kani::cover!(true);
    core::mem::forget((r1, state));
}

// @verif-block props=C06 tier=experimental cap=900 group=core doc=a_template_that_is_already_part_of_the_inheritance_chain_is_refused_when_`extends`_reaches_it_again_-_whether_the_name_is_spelled_as_the_loaded_template_is_called_("x/b")_or_in_a_relative_form_the_path-join_callback_resolves_to_the_same_template_("./b"):_the_second_load_blocks_is_an_error_(otherwise_a_->_b_->_a_->_..._never_terminates);_State::get_template_replaced_by_a_model_that_resolves_every_request_to_the_template_named_"x/b"
extends_cycle_harness!(c06_extends_cycle_same_spelling, "x/b", "x/b");
extends_cycle_harness!(c06_extends_cycle_relative_spelling, "./b", "./b");
extends_cycle_harness!(c06_extends_cycle_mixed_spelling, "x/b", "./b");
// @verif-end


// ---------------------------------------------------------------------------
// C06 / C05: super() restores the block cursor, the frame depth and the current block on EVERY path.
// The nested evaluation of the parent block (Executor::do_eval, i.e. eval_impl - not reachable for CBMC) is a
// nondeterministic stub that succeeds or fails; everything around it in perform_super is the real code.
// ---------------------------------------------------------------------------
pub(crate) static mut EVAL_MODEL_FAILS: bool = false;
pub(crate) static mut EVAL_MODEL_CALLS: usize = 0;

pub(crate) fn do_eval_model<'env>(
    _state: &mut State<'_, 'env>,
    _out: &mut Output,
    stack: Stack,
    _pc: u32,
) -> Result<Option<Value>, Error>
where
    'env: 'env,
{
    core::mem::forget(stack);
    unsafe {
        EVAL_MODEL_CALLS += 1;
        if EVAL_MODEL_FAILS {
            Err(Error::from(ErrorKind::InvalidOperation))
        } else {
            Ok(None)
        }
    }
}

struct NullSink;
impl std::fmt::Write for NullSink {
    fn write_str(&mut self, _s: &str) -> std::fmt::Result {
        Ok(())
    }
}

macro_rules! super_restores_harness {
    ($name:ident, $levels:expr) => {
        #[kani::proof]
        #[kani::unwind(5)]
        #[kani::stub(std::hash::RandomState::new, crate::verif_common::random_state_stub)]
        #[kani::stub(alloc::fmt::format, crate::verif_common::format_stub)]
        #[kani::stub(crate::error::Error::with_source, crate::error::verif_kani::with_source_model)]
        #[kani::stub(alloc::sync::Arc::drop_slow, crate::verif_common::arc_drop_slow_leak)]
        #[kani::stub(alloc::vec::Vec::pop, crate::verif_common::vec_pop_leaking)]
        #[kani::stub(crate::vm::Executor::do_eval, do_eval_model)]
        fn $name() {
            let env: &'static Environment<'static> = Box::leak(Box::new(Environment::empty()));
            let mut state = State::new_for_env(env);
            let child: &'static Instructions<'static> = Box::leak(Box::new(Instructions::new("child", "")));
            let parent: &'static Instructions<'static> = Box::leak(Box::new(Instructions::new("parent", "")));
            let mut bs = BlockStack::new(child);
            if $levels >= 2 {
                bs.append_instructions(parent);
            }
            state.blocks.insert("b", bs);
            state.current_block = Some("b");
            let fails: bool = kani::any();
            unsafe {
                EVAL_MODEL_FAILS = fails;
                EVAL_MODEL_CALLS = 0;
            }
            let depth_before = state.ctx.depth();
            let mut sink = NullSink;
            let r = {
                let mut out = Output::new(&mut sink);
                let r = Executor::perform_super(&mut state, &mut out, false);
                core::mem::forget(out);
                r
            };
            let calls = unsafe { EVAL_MODEL_CALLS };
            if $levels >= 2 {
                // the parent definition is evaluated exactly once; its failure is the failure of super()
                assert!(calls == 1);
                assert!(r.is_err() == fails);
            } else {
                // no parent definition: refused without evaluating anything
                assert!(calls == 0);
                assert!(r.is_err());
            }
            // restored on every path: the block cursor is back on the definition super() was called from, the
            // frame super() pushed is gone, the current block is unchanged
            assert!(core::ptr::eq(state.blocks.get("b").unwrap().instructions(), child));
            assert!(state.ctx.depth() == depth_before);
            assert!(state.current_block == Some("b"));
            kani::cover!(fails);
            kani::cover!(!fails);
            core::mem::forget((r, state));
        }
    };
}

// @verif-block props=C06,C05 tier=experimental cap=900 group=core doc=super()_(Executor::perform_super_with_the_nested_evaluation_replaced_by_a_stub_that_succeeds_or_fails,_symbolic)_on_a_block_with_1_or_2_definitions:_the_parent_definition_is_evaluated_exactly_once_(refused_without_a_parent),_and_on_EVERY_path_-_success,_failure_of_the_parent,_refusal_-_the_block_cursor_returns_to_the_calling_definition,_the_pushed_frame_is_popped_and_the_current_block_is_unchanged
super_restores_harness!(c06_super_restores_cursor_2_levels, 2);
super_restores_harness!(c06_super_restores_cursor_1_level, 1);
// @verif-end


// ---------------------------------------------------------------------------
// C13: rendering a block through the state API is part of the same render - it runs on the budget that is
// left, not on a fresh one.  Executor::call_block (block lookup + nested evaluation) is replaced by a stub; the
// crate-level entry point `vm::call_block` that `State::render_block` and friends go through is real.
// ---------------------------------------------------------------------------
pub(crate) fn executor_call_block_model<'env>(
    _name: &str,
    _state: &mut State<'_, 'env>,
    _out: &mut Output,
) -> Result<Option<Value>, Error>
where
    'env: 'env,
{
    Ok(None)
}

// @verif props=C13 tier=quick cap=600 group=core fns=vm::call_block,State::fuel_levels stubs=Executor::call_block->model
/// For EVERY budget >= 2: after one unit has been consumed, entering a block render through `vm::call_block`
/// leaves the fuel levels exactly as they were (consumed 1, remaining budget - 1).
#[kani::proof]
#[kani::unwind(4)]
#[kani::stub(std::hash::RandomState::new, crate::verif_common::random_state_stub)]
#[kani::stub(alloc::fmt::format, crate::verif_common::format_stub)]
#[kani::stub(crate::vm::Executor::call_block, executor_call_block_model)]
fn c13_block_render_through_state_shares_budget() {
    let budget: u64 = kani::any();
    kani::assume(budget >= 2);
    let mut env = Environment::empty();
    env.set_fuel(Some(budget));
    let env: &'static Environment<'static> = Box::leak(Box::new(env));
    let mut state = State::new_for_env(env);
    let r0 = state.fuel_tracker.as_mut().unwrap().track(&Instruction::Swap);
    assert!(r0.is_ok());
    core::mem::forget(r0);
    assert!(state.fuel_levels() == Some((1, budget - 1)));
    let mut sink = NullSink;
    let r = {
        let mut out = Output::new(&mut sink);
        let r = call_block("b", &mut state, &mut out);
        core::mem::forget(out);
        r
    };
    assert!(r.is_ok());
    assert!(state.fuel_levels() == Some((1, budget - 1)));
    kani::cover!(budget == u64::MAX);
    kani::cover!(budget == 2);
    core::mem::forget((r, state));
}

#[cfg(test)]
mod playback {
    use super::*;
    include!("/verif/.build/playback/vm_mod.rs");
}
