#![cfg(all(feature = "builtins", feature = "macros", feature = "multi_template", feature = "adjacent_loop_items", feature = "fuel", feature = "loop_controls"))]
// Kani harnesses for minijinja/src/error.rs (included under cfg(kani)).
#![allow(unused_imports)]
use super::*;
use crate::verif_common::*;

/// Stub for `Error::with_source` (Kani `-Z stubbing`): building the
/// `Arc<dyn std::error::Error>` does not get through CBMC (measured: > 200 s and
/// out of memory for a single call).  The model drops nothing, keeps the error
/// as it is and records "a source was attached" in the line number field.
pub(crate) const SOURCE_ATTACHED_MARK: usize = 0x5EED;
pub(crate) fn with_source_model<E: std::error::Error + Send + Sync + 'static>(mut this: Error, source: E) -> Error {
    core::mem::forget(source);
    this.repr.lineno = SOURCE_ATTACHED_MARK;
    this
}

/// The span recorded in an error (the public accessor `Error::range()` needs the `debug` feature).
pub(crate) fn span_of(e: &Error) -> Option<Span> {
    e.repr.span
}

#[cfg(test)]
mod playback {
    use super::*;
    include!("/verif/.build/playback/error.rs");
}
