#![cfg(all(feature = "builtins", feature = "macros", feature = "multi_template", feature = "adjacent_loop_items", feature = "fuel", feature = "loop_controls"))]
// Kani harnesses for minijinja/src/tests.rs (the built-in `is ...` tests; included under cfg(kani)).
#![allow(unused_imports)]
use super::*;
use crate::verif_common::*;

macro_rules! divisibleby_harness {
    ($name:ident, $ta:ty, $divisor:expr) => {
        #[kani::proof]
        #[kani::unwind(4)]
        #[kani::stub(alloc::fmt::format, crate::verif_common::format_stub)]
        fn $name() {
            let x: $ta = kani::any();
            let y: i64 = $divisor;
            let (a, b) = (Value::from(x), Value::from(y));
            // never panics (no division by zero, no remainder overflow) ...
            let r = builtins::is_divisibleby(&a, &b);
            // ... and is the mathematical predicate "y != 0 and y divides x"
            let (xi, yi) = (x as i128, y as i128);
            let want = yi != 0 && (yi == -1 || yi == 1 || xi % yi == 0);
            assert!(r == want);
            kani::cover!(r == want);
            kani::cover!(x < 0);
            core::mem::forget((a, b));
        }
    };
}

// @verif-block props=C01 tier=quick cap=600 group=core doc=`x_is_divisibleby(y)`_for_ANY_integer_x_of_the_listed_width_and_the_listed_divisor_(0,_-1,_2,_-3):_never_panics_(zero_divisor,_MIN_%_-1)_and_equals_"y_!=_0_and_y_divides_x"
divisibleby_harness!(c01_divisibleby_zero, i64, 0);
divisibleby_harness!(c01_divisibleby_zero_i128, i128, 0);
divisibleby_harness!(c01_divisibleby_minus_one_i128, i128, -1);
divisibleby_harness!(c01_divisibleby_two, i64, 2);
divisibleby_harness!(c01_divisibleby_minus_three, i128, -3);
// @verif-end

// @verif props=C01 tier=quick cap=900 group=core fns=tests::is_divisibleby
/// `x is divisibleby(y)` with a symbolic DIVISOR (all i8 values, x all i16 values): never panics and equals the
/// mathematical predicate.
#[kani::proof]
#[kani::unwind(4)]
#[kani::stub(alloc::fmt::format, crate::verif_common::format_stub)]
fn c01_divisibleby_symbolic_divisor_i8() {
    let x: i16 = kani::any();
    let y: i8 = kani::any();
    let (a, b) = (Value::from(x as i64), Value::from(y as i64));
    let r = builtins::is_divisibleby(&a, &b);
    let want = y != 0 && (x as i32) % (y as i32) == 0;
    assert!(r == want);
    kani::cover!(y == 0);
    kani::cover!(r && y < 0 && x < 0);
    core::mem::forget((a, b));
}

// @verif props=C01,C03 tier=quick cap=600 group=core fns=tests::is_odd,tests::is_even
/// `is odd` / `is even` for ANY i64 / i128: never panic, partition the integers (exactly one holds) and agree
/// with the parity of the magnitude (negative odd numbers are odd).
#[kani::proof]
#[kani::unwind(4)]
#[kani::stub(alloc::fmt::format, crate::verif_common::format_stub)]
fn c01_odd_even_partition() {
    let x: i128 = kani::any();
    let small: bool = kani::any();
    let v = if small { Value::from(x as i64) } else { Value::from(x) };
    let xi: i128 = if small { (x as i64) as i128 } else { x };
    let odd = builtins::is_odd(v.clone());
    let even = builtins::is_even(v.clone());
    assert!(odd != even);
    assert!(odd == (xi.unsigned_abs() & 1 == 1));
    kani::cover!(odd && xi < 0);
    kani::cover!(even && xi < 0);
    core::mem::forget(v);
}

#[cfg(test)]
mod playback {
    use super::*;
    include!("/verif/.build/playback/tests.rs");
}
