#![cfg(all(feature = "builtins", feature = "macros", feature = "multi_template", feature = "adjacent_loop_items", feature = "fuel", feature = "loop_controls"))]
// Kani harnesses for minijinja/src/compiler/lexer.rs (included under cfg(kani)).
#![allow(unused_imports)]
use super::*;
use crate::verif_common::*;

fn tokenizer_at(source: &'static str, line: u16, col: u16, offset: usize) -> Tokenizer<'static> {
    Tokenizer {
        source,
        filename: "f",
        stack: Vec::new(),
        current_line: line,
        current_col: col,
        current_offset: offset,
        paren_balance: 0,
        trim_leading_whitespace: false,
        pending_start_marker: None,
        syntax_config: SyntaxConfig::default(),
        ws_config: WhitespaceConfig::default(),
    }
}

// @verif props=C14,C01 tier=quick cap=600 group=core fns=Tokenizer::syntax_error,Tokenizer::loc,Tokenizer::span
/// A syntax error can be reported at ANY position the tokenizer can be in (line/column saturate at 65535):
/// building the error never panics or overflows and the reported span is well formed (end >= start).
#[kani::proof]
#[kani::unwind(4)]
#[kani::stub(alloc::fmt::format, crate::verif_common::format_stub)]
fn c14_syntax_error_at_any_position() {
    let line: u16 = kani::any();
    let col: u16 = kani::any();
    let offset: usize = kani::any();
    kani::assume(line >= 1 && offset <= 4);
    let mut t = tokenizer_at("abcd", line, col, offset);
    let (l, c, o) = t.loc();
    assert!(l == line && c == col && o as usize == offset);
    let sp = t.span((l, c, o));
    assert!(sp.start_line == sp.end_line && sp.start_col == sp.end_col && sp.start_offset == sp.end_offset);
    let e = t.syntax_error("x");
    assert!(matches!(e.kind(), ErrorKind::SyntaxError));
    assert!(e.line() == Some(line as usize));
    kani::cover!(col == u16::MAX);
    kani::cover!(line == u16::MAX);
    core::mem::forget((e, t));
}

macro_rules! error_range_harness {
    ($name:ident, $src:expr, $at_eof:expr) => {
        #[kani::proof]
        #[kani::unwind(6)]
        #[kani::stub(alloc::fmt::format, crate::verif_common::format_stub)]
        fn $name() {
            let src: &'static str = $src;
            let offset: usize = kani::any();
            kani::assume(offset <= src.len() && src.is_char_boundary(offset));
            // known finding KF-C14-eof-range: region "the error is located at the end of the input"
            kani::assume((offset == src.len()) == $at_eof);
            let col: u16 = kani::any();
            let mut t = tokenizer_at(src, 1, col, offset);
            let e = t.syntax_error("x");
            let sp = crate::error::verif_kani::span_of(&e).unwrap();
            let (s, en) = (sp.start_offset as usize, sp.end_offset as usize);
            // the reported byte range is a valid slice of the source: in bounds, on character boundaries
            assert!(s == offset && s <= en);
            assert!(en <= src.len());
            assert!(src.is_char_boundary(s) && src.is_char_boundary(en));
            kani::cover!(true);
            core::mem::forget((e, t));
        }
    };
}

// @verif-block props=C14 tier=quick cap=600 group=core doc=the_byte_range_reported_by_a_lexer_error_located_at_ANY_character_boundary_of_the_listed_source_(ASCII,_2-byte_and_3-byte_characters_mixed)_is_a_valid_slice:_in_bounds_and_on_character_boundaries;_the_sub-region_"error_at_end_of_input"_is_the_recorded_known_finding_(twin_harness)
error_range_harness!(c14_error_range_ascii, "ab", false);
error_range_harness!(c14_error_range_2byte, "a\u{e9}b", false);
error_range_harness!(c14_error_range_3byte, "\u{20ac}x", false);
error_range_harness!(c14_error_range_known_eof, "a\u{e9}", true); // known=KF-C14-eof-range
// @verif-end

macro_rules! advance_harness {
    ($name:ident, $src:expr, $nl:expr, $chars:expr) => {
        #[kani::proof]
        #[kani::unwind(8)]
        fn $name() {
            let line: u16 = kani::any();
            let col: u16 = kani::any();
            kani::assume(line >= 1);
            let mut t = tokenizer_at($src, line, col, 0);
            let n = $src.len();
            let skipped = t.advance(n);
            assert!(skipped.len() == n);
            assert!(t.current_offset == n);
            // the line advances by exactly the number of '\n' bytes (saturating at 65535)
            assert!(t.current_line == line.saturating_add($nl));
            if $nl == 0 {
                // and the column by the number of characters (not bytes), saturating
                assert!(t.current_col == col.saturating_add($chars));
            }
            kani::cover!(line == u16::MAX);
            kani::cover!(col > 65000);
            core::mem::forget(t);
        }
    };
}

// @verif-block props=C14 tier=quick cap=600 group=core doc=Tokenizer::advance_over_the_listed_text_from_ANY_(line,column):_offset_advances_by_the_byte_length,_the_line_by_exactly_the_number_of_newlines_(the_kernel_of_"inserting_N_lines_shifts_the_reported_line_by_N"),_the_column_by_characters_not_bytes,_all_saturating_at_65535_instead_of_overflowing
advance_harness!(c14_advance_plain, "ab", 0, 2);
advance_harness!(c14_advance_multibyte, "\u{e9}x", 0, 2);
advance_harness!(c14_advance_two_newlines, "a\n\nb", 2, 0);
advance_harness!(c14_advance_crlf, "\r\n", 1, 0);
// @verif-end

// @verif props=C10 tier=quick cap=300 group=core fns=Whitespace::from_byte,Whitespace::len
/// The whitespace-control marker after a tag start is '-' (remove) or '+' (preserve) and nothing else,
/// for every byte.
#[kani::proof]
#[kani::unwind(3)]
fn c10_whitespace_marker_bytes() {
    let b: Option<u8> = kani::any();
    let ws = Whitespace::from_byte(b);
    match b {
        Some(b'-') => assert!(ws == Whitespace::Remove && ws.len() == 1),
        Some(b'+') => assert!(ws == Whitespace::Preserve && ws.len() == 1),
        _ => assert!(ws == Whitespace::Default && ws.len() == 0),
    }
    kani::cover!(b == Some(b'+'));
    kani::cover!(b.is_none());
}

// ---------------------------------------------------------------------------
// C10: whitespace-rule kernels of the lexer on symbolic text.
// Every harness builds its text from symbolic bytes over a small ASCII alphabet (stated per harness) with
// a symbolic length, calls the real private function and compares with a byte-loop reference of the rule
// the property names.
// ---------------------------------------------------------------------------

macro_rules! sym_text {
    ($buf:ident, $len:ident, $n:expr, [$($sym:expr),*]) => {
        let mut $buf = [0u8; $n];
        let $len: usize = kani::any();
        kani::assume($len <= $n);
        {
            let mut i = 0;
            while i < $n {
                let c: u8 = kani::any();
                kani::assume(false $(|| c == $sym)*);
                $buf[i] = c;
                i += 1;
            }
        }
    };
}

fn is_hws(b: u8) -> bool {
    b == b' ' || b == b'\t'
}

/// length of `s` after removing trailing horizontal whitespace
fn ref_trim_hws(s: &[u8]) -> usize {
    let mut n = s.len();
    while n > 0 && is_hws(s[n - 1]) {
        n -= 1;
    }
    n
}

fn ws_cfg(keep: bool, lstrip: bool, trim: bool) -> WhitespaceConfig {
    WhitespaceConfig { keep_trailing_newline: keep, lstrip_blocks: lstrip, trim_blocks: trim }
}

fn tokenizer_on<'s>(source: &'s str, offset: usize, ws: WhitespaceConfig) -> Tokenizer<'s> {
    Tokenizer {
        source,
        filename: "f",
        stack: Vec::new(),
        current_line: 1,
        current_col: 0,
        current_offset: offset,
        paren_balance: 0,
        trim_leading_whitespace: false,
        pending_start_marker: None,
        syntax_config: SyntaxConfig::default(),
        ws_config: ws,
    }
}

// @verif props=C10 tier=quick cap=900 group=core fns=lstrip_block
/// lstrip_blocks rule, text side: for EVERY lead text of up to 4 bytes over {space, tab, LF, CR, 'a'} the
/// part removed in front of a block/comment tag is a suffix consisting of spaces and tabs only, it is
/// removed only if what precedes it is the start of the text or a line feed, and then all of it is removed.
#[kani::proof]
#[kani::unwind(7)]
fn c10_lstrip_block_removes_only_line_leading_hws() {
    sym_text!(buf, len, 4, [b' ', b'\t', b'\n', b'\r', b'a']);
    let s = unsafe { core::str::from_utf8_unchecked(&buf[..len]) };
    let r = lstrip_block(s);
    // a prefix of the input
    assert!(r.as_ptr() == s.as_ptr() && r.len() <= len);
    let k = ref_trim_hws(&buf[..len]);
    // only spaces and tabs are ever removed
    assert!(r.len() >= k);
    let at_line_start = k == 0 || buf[k - 1] == b'\n';
    let after_cr = k > 0 && buf[k - 1] == b'\r';
    if at_line_start {
        assert!(r.len() == k);
    } else if !after_cr {
        // not at the start of a line: nothing is removed
        assert!(r.len() == len);
    }
    kani::cover!(len == 4 && r.len() == 2);
    kani::cover!(len == 4 && r.len() == 4 && k < 4);
}

// @verif props=C10 tier=quick cap=900 group=core fns=should_lstrip_block
/// lstrip_blocks rule, tag side: for EVERY text of up to 4 bytes in front of a tag, the tag's line-leading
/// whitespace is stripped iff the setting is on, the tag is a block or comment tag (never a variable tag),
/// and only spaces/tabs lie between the start of the line (or of the template) and the tag.
#[kani::proof]
#[kani::unwind(7)]
fn c10_should_lstrip_only_at_line_start() {
    sym_text!(buf, len, 4, [b' ', b'\t', b'\n', b'\r', b'a', b'}']);
    let s = unsafe { core::str::from_utf8_unchecked(&buf[..len]) };
    let flag: bool = kani::any();
    let which: u8 = kani::any();
    kani::assume(which < 3);
    let marker = match which {
        0 => StartMarker::Variable,
        1 => StartMarker::Block,
        _ => StartMarker::Comment,
    };
    let got = should_lstrip_block(flag, marker, s);
    let k = ref_trim_hws(&buf[..len]);
    let line_start = k == 0 || buf[k - 1] == b'\n' || buf[k - 1] == b'\r';
    assert!(got == (flag && which != 0 && line_start));
    kani::cover!(got && len == 4 && k == 2);
    kani::cover!(!got && flag && which == 1);
}

// @verif props=C10 tier=quick cap=900 group=syntax fns=should_lstrip_block
/// Line statements and line comments (custom syntax) own the indentation in front of them whatever lstrip_blocks
/// says: for EVERY prefix of up to 3 bytes over {space, tab, LF, 'a'} whose last line holds only spaces/tabs, the
/// whitespace in front of the marker is stripped - for both kinds of line marker, with the setting on and off.
#[cfg(feature = "custom_syntax")]
#[kani::proof]
#[kani::unwind(6)]
fn c10_line_markers_own_their_indentation() {
    sym_text!(buf, len, 3, [b' ', b'\t', b'\n', b'a']);
    let s = unsafe { core::str::from_utf8_unchecked(&buf[..len]) };
    let flag: bool = kani::any();
    let comment: bool = kani::any();
    let marker = if comment { StartMarker::LineComment } else { StartMarker::LineStatement };
    let k = ref_trim_hws(&buf[..len]);
    let line_start = k == 0 || buf[k - 1] == b'\n';
    kani::assume(line_start);
    let got = should_lstrip_block(flag, marker, s);
    assert!(got);
    kani::cover!(comment && !flag && len == 3 && k == 1);
    kani::cover!(!comment && flag && len == 2);
}

// @verif props=C10 tier=quick cap=900 group=core fns=Tokenizer::new
/// Trailing-newline rule: for EVERY source of up to 4 bytes over {LF, CR, 'a', space} the tokenizer's text is
/// the source itself when keep_trailing_newline is set, and otherwise the source minus exactly one trailing
/// line ending (LF, CR LF or CR) - never more, and nothing else is removed.
#[kani::proof]
#[kani::unwind(7)]
fn c10_trailing_newline_rule() {
    sym_text!(buf, len, 4, [b'\n', b'\r', b'a', b' ']);
    let s = unsafe { core::str::from_utf8_unchecked(&buf[..len]) };
    let keep: bool = kani::any();
    let t = Tokenizer::new(s, "f", false, SyntaxConfig::default(), ws_cfg(keep, kani::any(), kani::any()));
    let src = t.source();
    assert!(src.as_ptr() == s.as_ptr());
    let b = &buf[..len];
    let expect = if keep {
        len
    } else if len >= 2 && b[len - 2] == b'\r' && b[len - 1] == b'\n' {
        len - 2
    } else if len >= 1 && (b[len - 1] == b'\n' || b[len - 1] == b'\r') {
        len - 1
    } else {
        len
    };
    assert!(src.len() == expect);
    kani::cover!(!keep && len == 4 && expect == 2);
    kani::cover!(keep && len == 4);
    core::mem::forget(t);
}

// @verif props=C10 tier=quick cap=900 group=core fns=Tokenizer::skip_newline_if_trim_blocks,Tokenizer::handle_tail_ws,Tokenizer::advance
/// trim_blocks rule and the '+'/'-' end markers: after a block or comment tag, for EVERY following text of up
/// to 3 bytes: with no marker and trim_blocks on exactly one line ending (LF, CR LF or CR) is skipped, with
/// trim_blocks off nothing; '+' never skips anything; '-' skips nothing here but arms whitespace removal.
#[kani::proof]
#[kani::unwind(6)]
fn c10_trim_blocks_single_newline() {
    sym_text!(buf, len, 3, [b'\n', b'\r', b'a', b' ']);
    let s = unsafe { core::str::from_utf8_unchecked(&buf[..len]) };
    let trim: bool = kani::any();
    let which: u8 = kani::any();
    kani::assume(which < 3);
    let ws = match which {
        0 => Whitespace::Default,
        1 => Whitespace::Preserve,
        _ => Whitespace::Remove,
    };
    let mut t = tokenizer_on(s, 0, ws_cfg(kani::any(), kani::any(), trim));
    t.handle_tail_ws(ws);
    let b = &buf[..len];
    let expect = if which != 0 || !trim {
        0
    } else if len >= 2 && b[0] == b'\r' && b[1] == b'\n' {
        2
    } else if len >= 1 && (b[0] == b'\n' || b[0] == b'\r') {
        1
    } else {
        0
    };
    assert!(t.current_offset == expect);
    assert!(t.trim_leading_whitespace == (which == 2));
    kani::cover!(expect == 2);
    kani::cover!(which == 1 && trim && len >= 1 && b[0] == b'\n');
    core::mem::forget(t);
}

// @verif props=C10 tier=quick cap=900 group=core fns=find_start_marker_memchr,Whitespace::from_byte
/// Tag detection with the default delimiters: for EVERY text of up to 5 bytes over {'{', '%', '#', '-', '+', 'a'}
/// the reported start marker is the FIRST position holding "{{", "{%" or "{#", its kind matches the second
/// byte, the marker length includes a directly following '-'/'+' and nothing else; no marker is reported iff
/// there is none - a lone '{' or text in front is never taken for a tag.
#[kani::proof]
#[kani::unwind(8)]
fn c10_find_start_marker_first_and_exact() {
    sym_text!(buf, len, 5, [b'{', b'%', b'#', b'-', b'+', b'a']);
    let s = unsafe { core::str::from_utf8_unchecked(&buf[..len]) };
    let got = find_start_marker_memchr(s);
    let b = &buf[..len];
    // reference: first i with b[i]=='{' and b[i+1] in "{%#"
    let mut first: Option<usize> = None;
    let mut i = 0;
    while i + 1 < len {
        if first.is_none() && b[i] == b'{' && (b[i + 1] == b'{' || b[i + 1] == b'%' || b[i + 1] == b'#') {
            first = Some(i);
        }
        i += 1;
    }
    match (got, first) {
        (None, None) => {}
        (Some((pos, marker, mlen, ws)), Some(f)) => {
            assert!(pos == f);
            let kind_ok = match b[f + 1] {
                b'{' => marker == StartMarker::Variable,
                b'%' => marker == StartMarker::Block,
                _ => marker == StartMarker::Comment,
            };
            assert!(kind_ok);
            let next = if f + 2 < len { Some(b[f + 2]) } else { None };
            match next {
                Some(b'-') => assert!(ws == Whitespace::Remove && mlen == 3),
                Some(b'+') => assert!(ws == Whitespace::Preserve && mlen == 3),
                _ => assert!(ws == Whitespace::Default && mlen == 2),
            }
        }
        _ => assert!(false),
    }
    kani::cover!(matches!(got, Some((2, StartMarker::Comment, 3, Whitespace::Remove))));
    kani::cover!(got.is_none() && len == 5 && b[4] == b'{');
}

// @verif props=C10 tier=quick cap=1200 group=core fns=Tokenizer::tokenize_root,find_start_marker,Tokenizer::advance
/// Text is verbatim: for EVERY source of up to 4 bytes over {'{', '}', '%', space, LF, 'a'} that contains no tag
/// start, under EVERY combination of lstrip_blocks / trim_blocks, the first token is TemplateData holding
/// exactly the whole source (same bytes, same length), and an empty source yields no token.
#[kani::proof]
#[kani::unwind(7)]
fn c10_text_without_tags_is_verbatim() {
    sym_text!(buf, len, 4, [b'{', b'}', b'%', b' ', b'\n', b'a']);
    let b = &buf[..len];
    let mut i = 0;
    while i + 1 < len {
        kani::assume(!(b[i] == b'{' && (b[i + 1] == b'{' || b[i + 1] == b'%')));
        i += 1;
    }
    let s = unsafe { core::str::from_utf8_unchecked(b) };
    let mut t = tokenizer_on(s, 0, ws_cfg(true, kani::any(), kani::any()));
    let r = t.tokenize_root();
    match r {
        Ok(ControlFlow::Break((Token::TemplateData(d), sp))) => {
            assert!(len > 0);
            assert!(d.as_ptr() == s.as_ptr() && d.len() == len);
            assert!(sp.start_offset == 0 && sp.end_offset as usize == len);
        }
        Ok(ControlFlow::Continue(())) => assert!(len == 0),
        _ => assert!(false),
    }
    assert!(t.current_offset == len);
    kani::cover!(len == 4 && b[3] == b'{');
    kani::cover!(len == 0);
    core::mem::forget(t);
}

// @verif props=C10,C14 tier=quick cap=1500 group=core fns=Tokenizer::tokenize_root,find_start_marker,should_lstrip_block,lstrip_block,Tokenizer::advance
/// Text in front of a tag, with whitespace control, and the line bookkeeping across it: the source is EVERY lead
/// text of up to 3 bytes over {space, LF, 'a'} followed by a block tag start "{%", "{%-" or "{%+" (symbolic), under
/// EVERY lstrip_blocks / trim_blocks setting and from ANY start line.  The TemplateData token is the lead text
/// minus (a) all trailing whitespace for '-', (b) line-leading spaces for no marker + lstrip_blocks, (c) nothing
/// for '+' or otherwise; the tokenizer then stands exactly at the tag and its line has advanced by exactly the
/// number of line feeds in the lead text - stripped or not (so a later error reports the right line).
#[kani::proof]
#[kani::unwind(8)]
fn c10_lead_text_before_block_tag() {
    let mut buf = [0u8; 8];
    let lead_len: usize = kani::any();
    kani::assume(lead_len <= 3);
    let mut i = 0;
    let mut nl: u16 = 0;
    while i < 3 {
        let c: u8 = kani::any();
        kani::assume(c == b' ' || c == b'\n' || c == b'a');
        if i < lead_len {
            buf[i] = c;
            if c == b'\n' {
                nl += 1;
            }
        }
        i += 1;
    }
    let mk: u8 = kani::any();
    kani::assume(mk < 3);
    let mut n = lead_len;
    buf[n] = b'{';
    buf[n + 1] = b'%';
    n += 2;
    if mk == 1 {
        buf[n] = b'-';
        n += 1;
    } else if mk == 2 {
        buf[n] = b'+';
        n += 1;
    }
    buf[n] = b' ';
    buf[n + 1] = b'x';
    n += 2;
    let s = unsafe { core::str::from_utf8_unchecked(&buf[..n]) };
    let lstrip: bool = kani::any();
    let line0: u16 = kani::any();
    kani::assume(line0 >= 1);
    let mut t = tokenizer_on(s, 0, ws_cfg(true, lstrip, kani::any()));
    t.current_line = line0;
    let r = t.tokenize_root();
    // reference for the emitted text
    let lead = &buf[..lead_len];
    let expect_len = if mk == 1 {
        let mut k = lead_len;
        while k > 0 && (lead[k - 1] == b' ' || lead[k - 1] == b'\n') {
            k -= 1;
        }
        k
    } else if mk == 0 && lstrip {
        let k = ref_trim_hws(lead);
        if k == 0 || lead[k - 1] == b'\n' {
            k
        } else {
            lead_len
        }
    } else {
        lead_len
    };
    match r {
        Ok(ControlFlow::Break((Token::TemplateData(d), _))) => {
            assert!(expect_len > 0);
            assert!(d.as_ptr() == s.as_ptr() && d.len() == expect_len);
        }
        Ok(ControlFlow::Continue(())) => assert!(expect_len == 0),
        _ => assert!(false),
    }
    // positioned at the tag, which is pending
    assert!(t.current_offset == lead_len);
    assert!(matches!(t.pending_start_marker, Some((StartMarker::Block, l)) if l == if mk == 0 { 2 } else { 3 }));
    // the line advanced by the number of line feeds passed over, stripped or not
    assert!(t.current_line == line0.saturating_add(nl));
    kani::cover!(mk == 1 && nl == 2 && expect_len == 1);
    kani::cover!(mk == 0 && lstrip && expect_len < lead_len);
    kani::cover!(mk == 2 && lstrip && lead_len == 3);
    core::mem::forget((r, t));
}

macro_rules! comment_marker_harness {
    ($name:ident, $src:expr, $lm:expr, $rm:expr) => {
        #[kani::proof]
        #[kani::unwind(12)]
        #[kani::stub(alloc::fmt::format, crate::verif_common::format_stub)]
        fn $name() {
            // $src = "{#" [left marker] [body] [right marker] "#}" ; followed by one symbolic byte and 'b'
            let comment: &[u8] = $src;
            let mut buf = [0u8; 12];
            let mut n = 0;
            while n < comment.len() {
                buf[n] = comment[n];
                n += 1;
            }
            let comment_end = n;
            let next: u8 = kani::any();
            kani::assume(next == b'\n' || next == b' ' || next == b'b');
            buf[n] = next;
            buf[n + 1] = b'b';
            n += 2;
            let s = unsafe { core::str::from_utf8_unchecked(&buf[..n]) };
            let trim: bool = kani::any();
            let mut t = tokenizer_on(s, 0, ws_cfg(true, kani::any(), trim));
            // first step: finds the tag at offset 0 (no lead text)
            let r1 = t.tokenize_root();
            assert!(matches!(r1, Ok(ControlFlow::Continue(()))));
            assert!(matches!(t.pending_start_marker, Some((StartMarker::Comment, l)) if l == if $lm == 0 { 2 } else { 3 }));
            // second step: skips the comment
            let r2 = t.tokenize_root();
            assert!(matches!(r2, Ok(ControlFlow::Continue(()))));
            let skipped_nl = $rm == 0 && trim && next == b'\n';
            assert!(t.current_offset == comment_end + if skipped_nl { 1 } else { 0 });
            assert!(t.trim_leading_whitespace == ($rm == 1));
            kani::cover!(trim && next == b'\n');
            kani::cover!(!trim && next == b'\n');
            core::mem::forget((r1, r2, t));
        }
    };
}

// @verif-block props=C10 tier=quick cap=900 group=core doc=comment_tags_and_their_whitespace_markers_for_the_listed_tag_text_(left_marker,_body,_right_marker)_followed_by_a_symbolic_byte_(LF,_space_or_'b'),_under_EVERY_trim_blocks/lstrip_blocks_setting:_the_comment_is_skipped_exactly_up_to_"#}";_what_happens_after_it_depends_ONLY_on_the_right_marker_(the_left_one_never_leaks_to_the_right_side,_also_for_an_empty_body):_'-'_arms_whitespace_removal,_'+'_keeps_the_line_feed_even_under_trim_blocks,_no_marker_skips_exactly_one_line_feed_iff_trim_blocks
comment_marker_harness!(c10_comment_empty_plain, b"{##}", 0, 0);
comment_marker_harness!(c10_comment_empty_left_minus, b"{#-#}", 1, 0);
comment_marker_harness!(c10_comment_empty_left_plus, b"{#+#}", 2, 0);
comment_marker_harness!(c10_comment_empty_both_minus, b"{#--#}", 1, 1);
comment_marker_harness!(c10_comment_body_right_minus, b"{# x-#}", 0, 1);
comment_marker_harness!(c10_comment_body_right_plus, b"{#- x+#}", 1, 2);
comment_marker_harness!(c10_comment_body_left_plus, b"{#+x#}", 2, 0); // tier=thorough
// @verif-end


// ---------------------------------------------------------------------------
// C10 / C01: the right-hand '-' marker removes ALL whitespace that follows - Unicode whitespace included,
// counted in bytes (the tokenizer works on byte offsets).
// ---------------------------------------------------------------------------
macro_rules! skip_whitespace_harness {
    ($name:ident, $src:expr) => {
        #[kani::proof]
        #[kani::unwind(12)]
        fn $name() {
            // the text is a run of whitespace characters followed by "a"; the run may be entered at ANY of its
            // character boundaries (symbolic start offset)
            let src: &'static str = $src;
            let offset: usize = kani::any();
            kani::assume(offset < src.len() && src.is_char_boundary(offset));
            let mut t = tokenizer_at(src, 1, 0, offset);
            t.skip_whitespace();
            // everything up to the first non-whitespace character is gone, nothing more: the rest is "a"
            assert!(t.current_offset == src.len() - 1);
            assert!(t.rest_bytes().len() == 1 && t.rest_bytes()[0] == b'a');
            kani::cover!(offset == 0);
            kani::cover!(offset > 0);
            core::mem::forget(t);
        }
    };
}

// @verif-block props=C10,C01 tier=quick cap=600 group=core doc=Tokenizer::skip_whitespace_(what_a_right-hand_'-'_marker_does)_on_a_run_of_the_listed_whitespace_characters_followed_by_"a",_entered_at_ANY_character_boundary_of_the_run:_exactly_the_whitespace_is_consumed_-_ASCII_and_Unicode_whitespace_alike,_measured_in_bytes_(no_slice_inside_a_character)
skip_whitespace_harness!(c10_skip_ws_ascii, " \t\r\n \u{b}\u{c}a");
skip_whitespace_harness!(c10_skip_ws_nbsp_emspace, "\u{a0}\u{2003} a");
skip_whitespace_harness!(c10_skip_ws_line_sep_ideographic, " \u{2028}\u{3000}\u{a0}a");
// @verif-end


// ---------------------------------------------------------------------------
// C08: integer literals with a radix prefix keep their radix beyond 64 bits.
// ---------------------------------------------------------------------------
// @verif props=C08 tier=experimental cap=900 group=core fns=Tokenizer::eat_number
/// The literal `0xD0000000000000000` (ANY non-zero hexadecimal digit D, lower case, followed by 16 zeros, i.e.
/// D * 2^64 - the smallest hexadecimal literals that no longer fit 64 bits) lexes as the 128-bit integer
/// D << 64: the wide path parses with the same radix as the narrow one.
#[kani::proof]
#[kani::unwind(21)]
#[kani::stub(alloc::fmt::format, crate::verif_common::format_stub)]
fn c08_hex_literal_above_u64_keeps_radix() {
    let d: u8 = kani::any();
    kani::assume((d >= b'1' && d <= b'9') || (d >= b'a' && d <= b'f'));
    let buf: &'static mut [u8; 19] = Box::leak(Box::new(*b"0x00000000000000000"));
    buf[2] = d;
    let src: &'static str = unsafe { core::str::from_utf8_unchecked(&buf[..]) };
    let mut t = tokenizer_at(src, 1, 0, 0);
    let r = t.eat_number();
    let digit = if d <= b'9' { d - b'0' } else { d - b'a' + 10 } as u128;
    match r {
        Ok((Token::Int128(ref v), _)) => assert!(**v == digit << 64),
        _ => assert!(false),
    }
    assert!(t.current_offset == 19);
    kani::cover!(d == b'f');
    kani::cover!(d == b'1');
    core::mem::forget((r, t));
}


// ---------------------------------------------------------------------------
// C10: raw blocks emit their content verbatim; trim_blocks removes exactly ONE line ending after `{% raw %}`.
// ---------------------------------------------------------------------------
macro_rules! raw_block_harness {
    ($name:ident, $ws_start:expr, $mode:expr) => {
        #[kani::proof]
        #[kani::unwind(14)]
        #[kani::stub(alloc::fmt::format, crate::verif_common::format_stub)]
        fn $name() {
            // the tokenizer stands right behind `{% raw %}`; what follows is EVERY raw content of exactly 2
            // bytes over {LF, CR, space, 'a'} and the closing `{%endraw%}`
            let mut buf = [0u8; 12];
            let mut i = 0;
            while i < 2 {
                let c: u8 = kani::any();
                kani::assume(c == b'\n' || c == b'\r' || c == b' ' || c == b'a');
                buf[i] = c;
                i += 1;
            }
            let tail = b"{%endraw%}";
            let mut j = 0;
            while j < 10 {
                buf[2 + j] = tail[j];
                j += 1;
            }
            let s = unsafe { core::str::from_utf8_unchecked(&buf[..]) };
            let trim: bool = kani::any();
            let mut t = tokenizer_on(s, 0, ws_cfg(true, false, trim));
            let r = t.handle_raw_tag($ws_start);
            // reference: how many leading bytes of the content are dropped
            let c = &buf[..2];
            let mut drop = 0usize;
            if $mode == 0 {
                // `{% raw %}`: with trim_blocks exactly one line ending (LF, CRLF or a lone CR), else nothing
                if trim {
                    if c[0] == b'\r' {
                        drop = 1;
                    }
                    if drop < 2 && c[drop] == b'\n' {
                        drop += 1;
                    }
                }
            } else if $mode == 1 {
                // `{% raw -%}`: all leading whitespace
                while drop < 2 && c[drop] != b'a' {
                    drop += 1;
                }
            }
            // `{% raw +%}`: nothing is dropped
            match r {
                Ok(ControlFlow::Break((Token::TemplateData(text), _))) => {
                    assert!(text.len() == 2 - drop);
                    let tb = text.as_bytes();
                    let mut k = 0;
                    while k < tb.len() {
                        assert!(tb[k] == c[drop + k]);
                        k += 1;
                    }
                }
                _ => assert!(false),
            }
            assert!(t.current_offset == 12);
            kani::cover!(trim && c[0] == b'\n' && c[1] == b'\n');
            kani::cover!(!trim && c[0] == b' ');
            core::mem::forget((r, t));
        }
    };
}

// @verif-block props=C10 tier=experimental cap=900 group=core doc=Tokenizer::handle_raw_tag_on_EVERY_raw_content_of_2_bytes_over_{LF,_CR,_space,_'a'}_closed_by_`{%endraw%}`,_trim_blocks_symbolic,_for_the_listed_right-hand_marker_of_`{%_raw_%}`:_the_content_is_emitted_verbatim_except_for_exactly_one_line_ending_(trim_blocks,_no_marker),_all_leading_whitespace_('-')_or_nothing_('+')
raw_block_harness!(c10_raw_block_default_marker, Whitespace::Default, 0);
raw_block_harness!(c10_raw_block_minus_marker, Whitespace::Remove, 1);
raw_block_harness!(c10_raw_block_plus_marker, Whitespace::Preserve, 2);
// @verif-end

#[cfg(test)]
mod playback {
    use super::*;
    include!("/verif/.build/playback/compiler_lexer.rs");
}
