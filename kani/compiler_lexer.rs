#![cfg(all(feature = "builtins", feature = "macros", feature = "multi_template", feature = "adjacent_loop_items", feature = "fuel", feature = "loop_controls"))]
// Kani harnesses for minijinja/src/compiler/lexer.rs (included under cfg(kani)).
#![allow(unused_imports)]
use super::*;
use crate::verif_common::*;

fn tokenizer_at(source: &'static str, line: u16, col: u16, offset: usize) -> Tokenizer<'static> {
    Tokenizer {
        source,
        filename: "f",
        stack: Vec::new(),
        current_line: line,
        current_col: col,
        current_offset: offset,
        paren_balance: 0,
        trim_leading_whitespace: false,
        pending_start_marker: None,
        syntax_config: SyntaxConfig::default(),
        ws_config: WhitespaceConfig::default(),
    }
}

// @verif props=C14,C01 tier=quick cap=600 group=core fns=Tokenizer::syntax_error,Tokenizer::loc,Tokenizer::span
/// A syntax error can be reported at ANY position the tokenizer can be in (line/column saturate at 65535):
/// building the error never panics or overflows and the reported span is well formed (end >= start).
#[kani::proof]
#[kani::unwind(4)]
#[kani::stub(alloc::fmt::format, crate::verif_common::format_stub)]
fn c14_syntax_error_at_any_position() {
    let line: u16 = kani::any();
    let col: u16 = kani::any();
    let offset: usize = kani::any();
    kani::assume(line >= 1 && offset <= 4);
    let mut t = tokenizer_at("abcd", line, col, offset);
    let (l, c, o) = t.loc();
    assert!(l == line && c == col && o as usize == offset);
    let sp = t.span((l, c, o));
    assert!(sp.start_line == sp.end_line && sp.start_col == sp.end_col && sp.start_offset == sp.end_offset);
    let e = t.syntax_error("x");
    assert!(matches!(e.kind(), ErrorKind::SyntaxError));
    assert!(e.line() == Some(line as usize));
    kani::cover!(col == u16::MAX);
    kani::cover!(line == u16::MAX);
    core::mem::forget((e, t));
}

macro_rules! error_range_harness {
    ($name:ident, $src:expr, $at_eof:expr) => {
        #[kani::proof]
        #[kani::unwind(6)]
        #[kani::stub(alloc::fmt::format, crate::verif_common::format_stub)]
        fn $name() {
            let src: &'static str = $src;
            let offset: usize = kani::any();
            kani::assume(offset <= src.len() && src.is_char_boundary(offset));
            // known finding KF-C14-eof-range: region "the error is located at the end of the input"
            kani::assume((offset == src.len()) == $at_eof);
            let col: u16 = kani::any();
            let mut t = tokenizer_at(src, 1, col, offset);
            let e = t.syntax_error("x");
            let sp = crate::error::verif_kani::span_of(&e).unwrap();
            let (s, en) = (sp.start_offset as usize, sp.end_offset as usize);
            // the reported byte range is a valid slice of the source: in bounds, on character boundaries
            assert!(s == offset && s <= en);
            assert!(en <= src.len());
            assert!(src.is_char_boundary(s) && src.is_char_boundary(en));
            kani::cover!(true);
            core::mem::forget((e, t));
        }
    };
}

// @verif-block props=C14 tier=quick cap=600 group=core doc=the_byte_range_reported_by_a_lexer_error_located_at_ANY_character_boundary_of_the_listed_source_(ASCII,_2-byte_and_3-byte_characters_mixed)_is_a_valid_slice:_in_bounds_and_on_character_boundaries;_the_sub-region_"error_at_end_of_input"_is_the_recorded_known_finding_(twin_harness)
error_range_harness!(c14_error_range_ascii, "ab", false);
error_range_harness!(c14_error_range_2byte, "a\u{e9}b", false);
error_range_harness!(c14_error_range_3byte, "\u{20ac}x", false);
error_range_harness!(c14_error_range_known_eof, "a\u{e9}", true); // known=KF-C14-eof-range
// @verif-end

macro_rules! advance_harness {
    ($name:ident, $src:expr, $nl:expr, $chars:expr) => {
        #[kani::proof]
        #[kani::unwind(8)]
        fn $name() {
            let line: u16 = kani::any();
            let col: u16 = kani::any();
            kani::assume(line >= 1);
            let mut t = tokenizer_at($src, line, col, 0);
            let n = $src.len();
            let skipped = t.advance(n);
            assert!(skipped.len() == n);
            assert!(t.current_offset == n);
            // the line advances by exactly the number of '\n' bytes (saturating at 65535)
            assert!(t.current_line == line.saturating_add($nl));
            if $nl == 0 {
                // and the column by the number of characters (not bytes), saturating
                assert!(t.current_col == col.saturating_add($chars));
            }
            kani::cover!(line == u16::MAX);
            kani::cover!(col > 65000);
            core::mem::forget(t);
        }
    };
}

// @verif-block props=C14 tier=quick cap=600 group=core doc=Tokenizer::advance_over_the_listed_text_from_ANY_(line,column):_offset_advances_by_the_byte_length,_the_line_by_exactly_the_number_of_newlines_(the_kernel_of_"inserting_N_lines_shifts_the_reported_line_by_N"),_the_column_by_characters_not_bytes,_all_saturating_at_65535_instead_of_overflowing
advance_harness!(c14_advance_plain, "ab", 0, 2);
advance_harness!(c14_advance_multibyte, "\u{e9}x", 0, 2);
advance_harness!(c14_advance_two_newlines, "a\n\nb", 2, 0);
advance_harness!(c14_advance_crlf, "\r\n", 1, 0);
// @verif-end

// @verif props=C10 tier=quick cap=300 group=core fns=Whitespace::from_byte,Whitespace::len
/// The whitespace-control marker after a tag start is '-' (remove) or '+' (preserve) and nothing else,
/// for every byte.
#[kani::proof]
#[kani::unwind(3)]
fn c10_whitespace_marker_bytes() {
    let b: Option<u8> = kani::any();
    let ws = Whitespace::from_byte(b);
    match b {
        Some(b'-') => assert!(ws == Whitespace::Remove && ws.len() == 1),
        Some(b'+') => assert!(ws == Whitespace::Preserve && ws.len() == 1),
        _ => assert!(ws == Whitespace::Default && ws.len() == 0),
    }
    kani::cover!(b == Some(b'+'));
    kani::cover!(b.is_none());
}

#[cfg(test)]
mod playback {
    use super::*;
    include!("/verif/.build/playback/compiler_lexer.rs");
}
