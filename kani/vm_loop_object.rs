// Kani harnesses for minijinja/src/vm/loop_object.rs (included under cfg(kani)).
#![allow(unused_imports)]
use super::*;
use crate::verif_common::*;

#[cfg(test)]
mod playback {
    use super::*;
    include!("/verif/.build/playback/vm_loop_object.rs");
}
