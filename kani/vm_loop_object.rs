#![cfg(all(feature = "builtins", feature = "macros", feature = "multi_template", feature = "adjacent_loop_items", feature = "fuel", feature = "loop_controls"))]
// Kani harnesses for minijinja/src/vm/loop_object.rs (included under cfg(kani)).
#![allow(unused_imports)]
use super::*;
use crate::value::verif_kani::{counting_iter, empty_iter};
use crate::value::ValueRepr;
use crate::verif_common::*;

fn is_int(v: &Value, want: u64) -> bool {
    match v.0 {
        ValueRepr::U64(x) => x == want,
        ValueRepr::I64(x) => x >= 0 && x as u64 == want,
        _ => false,
    }
}
fn is_bool(v: &Value, want: bool) -> bool {
    matches!(v.0, ValueRepr::Bool(b) if b == want)
}
fn attr(l: &Arc<Loop>, key: &str) -> Value {
    l.get_value_by_str(key).unwrap()
}

macro_rules! adjacent_harness {
    ($name:ident, $n:expr) => {
        #[kani::proof]
        #[kani::unwind(6)]
        fn $name() {
            let n: usize = $n;
            let mut w = AdjacentLoopItemIterWrapper::new(counting_iter(n));
            let mut step: usize = 0;
            while step <= n {
                // an optional look-ahead before advancing must not disturb the iteration
                let peek: bool = kani::any();
                if peek {
                    let nx = w.next_item();
                    if step < n {
                        assert!(is_int(&nx, step as u64));
                    } else {
                        assert!(nx.is_undefined());
                    }
                    core::mem::forget(nx);
                }
                let item = w.next();
                if step < n {
                    assert!(matches!(item, Some(ref v) if is_int(v, step as u64)));
                    let prev = w.prev_item();
                    if step == 0 {
                        assert!(prev.is_undefined());
                    } else {
                        assert!(is_int(&prev, step as u64 - 1));
                    }
                    core::mem::forget(prev);
                } else {
                    assert!(item.is_none());
                }
                core::mem::forget(item);
                step += 1;
            }
            kani::cover!(step == n + 1);
            core::mem::forget(w);
        }
    };
}

// @verif-block props=C03 tier=quick cap=400 group=core doc=previtem/nextitem_bookkeeping_(AdjacentLoopItemIterWrapper)_over_exactly_N_items_with_a_symbolic_interleaving_of_look-aheads:_next()_yields_the_items_in_order,_previtem/nextitem_are_the_neighbours_(undefined_at_the_ends),_look-ahead_never_changes_what_is_iterated
adjacent_harness!(c03_adjacent_items_n0, 0);
adjacent_harness!(c03_adjacent_items_n1, 1);
adjacent_harness!(c03_adjacent_items_n2, 2);
adjacent_harness!(c03_adjacent_items_n3, 3); // tier=thorough cap=1800
// @verif-end

// @verif props=C03 tier=quick cap=900 group=core fns=LoopState::{new,next,did_not_iterate}
/// After the FIRST item has been yielded the loop counts as iterated: `did_not_iterate` (which guards the
/// `{% else %}` block) is false from then on, so leaving the body early - `{% break %}` in the first
/// iteration - does not run the else block.
#[kani::proof]
#[kani::unwind(6)]
fn c03_loopstate_first_item_counts_as_iteration() {
    let mut st = LoopState::new(counting_iter(1), 0, true, None, None);
    let item = st.next();
    assert!(matches!(item, Some(ref v) if is_int(v, 0)));
    assert!(st.object.idx.load(Ordering::Relaxed) == 0);
    assert!(!st.did_not_iterate());
    kani::cover!(true);
    core::mem::forget(item);
    core::mem::forget(st);
}

macro_rules! loopstate_harness {
    ($name:ident, $n:expr, $unwind:expr) => {
        #[kani::proof]
        #[kani::unwind($unwind)]
        fn $name() {
            let n: usize = $n;
            let mut st = LoopState::new(counting_iter(n), 0, true, None, None);
            // the length is taken from an exact size hint; nothing is consumed by construction
            assert!(st.object.len == Some(n));
            assert!(st.object.idx.load(Ordering::Relaxed) == usize::MAX);
            let mut step: usize = 0;
            while step <= n {
                let item = st.next();
                // every advance moves the position by exactly one, starting at 0
                assert!(st.object.idx.load(Ordering::Relaxed) == step);
                if step < n {
                    assert!(matches!(item, Some(ref v) if is_int(v, step as u64)));
                    // once an item was yielded the loop "did iterate" - also when the body is then
                    // left early with break (the else block must not run)
                    assert!(!st.did_not_iterate());
                } else {
                    assert!(item.is_none());
                    // the loop body never ran exactly when the sequence was empty
                    assert!(st.did_not_iterate() == (n == 0));
                }
                core::mem::forget(item);
                step += 1;
            }
            kani::cover!(step == n + 1);
            core::mem::forget(st);
        }
    };
}

// @verif-block props=C03 tier=quick cap=400 group=core doc=LoopState::new/next/did_not_iterate_over_exactly_N_items:_length_==_N,_the_k-th_advance_sets_the_position_to_k-1_and_yields_item_k-1,_"did_not_iterate"_holds_after_exhaustion_exactly_for_N==0_(together_with_c01_loop_attrs_any_position,_which_proves_the_attribute_arithmetic_for_EVERY_position_and_length,_this_gives_"loop.*_describes_the_sequence_actually_iterated")
loopstate_harness!(c03_loopstate_n0, 0, 6);
loopstate_harness!(c03_loopstate_n1, 1, 105); // tier=thorough cap=3600
// @verif-end

// @verif props=C01,C03 tier=quick cap=300 group=core fns=Loop::get_value_by_str
/// Loop attributes never panic and stay consistent for ANY internal position idx (usize) and ANY known/unknown
/// length: index == index0 + 1 (no overflow), revindex/revindex0 saturate at 0, never-iterated loops report undefined.
#[kani::proof]
#[kani::unwind(12)]
fn c01_loop_attrs_any_position() {
    let idx: usize = kani::any();
    let len: Option<usize> = kani::any();
    let depth: usize = kani::any();
    kani::assume(depth < usize::MAX);
    let l = Arc::new(Loop {
        idx: AtomicUsize::new(idx),
        len,
        depth,
        recurse_jump_target: None,
        last_changed_value: Mutex::default(),
        iter: Mutex::new(AdjacentLoopItemIterWrapper::new(empty_iter())),
    });
    let (i0, i1, r1, r0, last, d) =
        (attr(&l, "index0"), attr(&l, "index"), attr(&l, "revindex"), attr(&l, "revindex0"), attr(&l, "last"), attr(&l, "depth"));
    if idx == usize::MAX {
        assert!(i0.is_undefined() && i1.is_undefined() && r1.is_undefined());
    } else {
        assert!(is_int(&i0, idx as u64));
        assert!(is_int(&i1, idx as u64 + 1));
        match len {
            Some(n) => {
                assert!(is_int(&r1, (n as u64).saturating_sub(idx as u64)));
                assert!(is_int(&r0, (n as u64).saturating_sub(idx as u64).saturating_sub(1)));
            }
            None => assert!(r1.is_undefined() && r0.is_undefined()),
        }
        assert!(is_int(&d, depth as u64 + 1));
    }
    let (first, lastv) = (attr(&l, "first"), attr(&l, "last"));
    if idx != usize::MAX {
        assert!(is_bool(&first, idx == 0));
        assert!(is_bool(&lastv, match len {
            Some(n) => n == 0 || idx as u64 == (n as u64).wrapping_sub(1),
            None => false,
        }));
        assert!(l.get_value_by_str("nosuchattr").is_none());
    }
    core::mem::forget((first, lastv));
    kani::cover!(idx == usize::MAX);
    kani::cover!(len == Some(0) && idx == 5);
    core::mem::forget((i0, i1, r1, r0, last, d, l));
}

macro_rules! cycle_harness {
    ($name:ident, $nargs:expr) => {
        #[kani::proof]
        #[kani::unwind(12)]
        #[kani::stub(std::hash::RandomState::new, crate::verif_common::random_state_stub)]
        fn $name() {
            let idx: usize = kani::any();
            let l = Arc::new(Loop {
                idx: AtomicUsize::new(idx),
                len: None,
                depth: 0,
                recurse_jump_target: None,
                last_changed_value: Mutex::default(),
                iter: Mutex::new(AdjacentLoopItemIterWrapper::new(empty_iter())),
            });
            let env: &'static crate::Environment<'static> = Box::leak(Box::new(crate::Environment::empty()));
            let mut state = State::new_for_env(env);
            let all = [Value::from(10i64), Value::from(11i64), Value::from(12i64)];
            let args = &all[..$nargs];
            let r = Object::call_method(&l, &mut state, "cycle", args);
            match r {
                Ok(ref v) => {
                    if $nargs == 0 {
                        assert!(v.is_undefined());
                    } else {
                        assert!(is_int(v, 10 + (idx % ($nargs as usize).max(1)) as u64));
                    }
                }
                Err(_) => assert!(false),
            }
            kani::cover!(idx > 100);
            core::mem::forget((r, all, state, l));
        }
    };
}

// @verif-block props=C01,C03 tier=quick cap=300 group=core doc=loop.cycle(args)_with_the_listed_number_of_arguments_at_ANY_loop_position:_never_panics_(no_remainder_by_zero),_returns_args[idx_mod_n]_or_undefined_for_no_arguments
cycle_harness!(c01_loop_cycle_0args, 0);
cycle_harness!(c01_loop_cycle_1arg, 1);
cycle_harness!(c01_loop_cycle_2args, 2); // tier=thorough cap=3000
cycle_harness!(c01_loop_cycle_3args, 3); // tier=thorough cap=3000
// @verif-end

#[cfg(test)]
mod playback {
    use super::*;
    include!("/verif/.build/playback/vm_loop_object.rs");
}
