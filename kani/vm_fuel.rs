#![cfg(all(feature = "builtins", feature = "macros", feature = "multi_template", feature = "adjacent_loop_items", feature = "fuel", feature = "loop_controls"))]
// Kani harnesses for minijinja/src/vm/fuel.rs (included under cfg(kani)).
#![allow(unused_imports)]
use super::*;
use crate::verif_common::*;

fn track_ok(t: &mut FuelTracker, unit: bool) -> bool {
    let zero_i = Instruction::PushWith;
    let unit_i = Instruction::Swap;
    let r = t.track(if unit { &unit_i } else { &zero_i });
    let ok = r.is_ok();
    core::mem::forget(r);
    ok
}

// @verif props=C13 tier=quick cap=400 group=core fns=FuelTracker::{new,track,remaining,consumed}
/// For EVERY budget b in u64 and every sequence of <=5 zero-/unit-cost instructions: the outcome of each
/// step is a threshold function of b (b > cost so far => Ok, b < cost => out of fuel, once out of fuel always
/// out of fuel), while successful consumed() == cost so far, and ALWAYS (also after running out of fuel and
/// attempting more instructions) consumed() + remaining() == b.
#[kani::proof]
#[kani::unwind(7)]
fn c13_fuel_threshold_and_levels() {
    let b: u64 = kani::any();
    let mut t = FuelTracker::new(b);
    assert!(t.consumed() == 0 && t.remaining() == b);
    let mut cost: u128 = 0;
    let mut failed = false;
    let mut i = 0;
    while i < 5 {
        let unit: bool = kani::any();
        let ok = track_ok(&mut t, unit);
        if unit {
            cost += 1;
        }
        if !failed {
            if !unit {
                assert!(ok);
            } else {
                if (b as u128) > cost {
                    assert!(ok);
                }
                if (b as u128) < cost {
                    assert!(!ok);
                }
            }
            if ok {
                assert!(t.consumed() as u128 == cost);
                assert!(t.consumed() as u128 + t.remaining() as u128 == b as u128);
            } else {
                failed = true;
            }
        } else if unit {
            assert!(!ok);
        }
        // the reported levels ALWAYS add up to the budget - also after the render ran out of fuel and
        // further instructions are attempted on the same state (State::call_macro after a failed render)
        assert!(t.consumed() as u128 + t.remaining() as u128 == b as u128);
        i += 1;
    }
    kani::cover!(failed && b > 2);
    kani::cover!(!failed && cost == 5);
    kani::cover!(b > (1u64 << 63) && !failed && cost > 0);
}

// @verif props=C13 tier=quick cap=400 group=core fns=FuelTracker::{new,track}
/// Monotonicity in the budget: for every pair b1 <= b2 in u64 and the same <=4-instruction sequence, a step that
/// succeeds under b1 succeeds under b2 (so each render has ONE threshold).
#[kani::proof]
#[kani::unwind(6)]
fn c13_fuel_monotone_in_budget() {
    let b1: u64 = kani::any();
    let b2: u64 = kani::any();
    kani::assume(b1 <= b2);
    let mut t1 = FuelTracker::new(b1);
    let mut t2 = FuelTracker::new(b2);
    let mut i = 0;
    let mut diverged = false;
    while i < 4 {
        let unit: bool = kani::any();
        let ok1 = track_ok(&mut t1, unit);
        let ok2 = track_ok(&mut t2, unit);
        if ok1 {
            assert!(ok2);
        }
        if ok1 != ok2 {
            diverged = true;
        }
        i += 1;
    }
    kani::cover!(diverged);
    kani::cover!(b2 == u64::MAX);
}

// @verif props=C13 tier=quick cap=200 group=core fns=fuel_for_instruction
/// The per-instruction charge is 0 or 1 for representatives of every payload shape of Instruction.
#[kani::proof]
#[kani::unwind(3)]
fn c13_fuel_cost_is_zero_or_one() {
    let n: u32 = kani::any();
    let instrs = [
        Instruction::PushWith,
        Instruction::PopFrame,
        Instruction::PopLoopFrame,
        Instruction::DupTop,
        Instruction::DiscardTop,
        Instruction::PushAutoEscape,
        Instruction::PopAutoEscape,
        Instruction::PushDidNotIterate,
        Instruction::PushLoop(n as u8),
        Instruction::Swap,
        Instruction::Emit,
        Instruction::Jump(n),
        Instruction::JumpIfFalse(n),
        Instruction::Iterate(n),
        Instruction::Lookup("x"),
        Instruction::StoreLocal("x"),
        Instruction::EndCapture,
        Instruction::Add,
        Instruction::Not,
    ];
    let k: usize = kani::any();
    kani::assume(k < instrs.len());
    let c = fuel_for_instruction(&instrs[k]);
    assert!(c == 0 || c == 1);
    kani::cover!(c == 0);
    kani::cover!(c == 1);
    core::mem::forget(instrs);
}

#[cfg(test)]
mod playback {
    use super::*;
    include!("/verif/.build/playback/vm_fuel.rs");
}

// @verif props=C13 tier=quick cap=400 group=core fns=FuelTracker::{new,track,remaining,consumed},fuel_for_instruction
/// Instructions with a size payload (collection builders, unpacking, calls) for EVERY payload n and EVERY budget b
/// of a tracker that already took <=1 unit step: whatever the instruction is charged (c = fuel_for_instruction),
/// charging it never panics (no arithmetic overflow), succeeds if b exceeds the cost so far and fails if b is
/// below it, the reported levels add up to b afterwards, and a larger budget never fails where a smaller one
/// succeeded.
#[kani::proof]
#[kani::unwind(3)]
fn c13_fuel_sized_instructions_any_cost() {
    let n: usize = kani::any();
    let k: u8 = kani::any();
    kani::assume(k < 9);
    let instr = match k {
        0 => Instruction::BuildMap(n),
        1 => Instruction::BuildKwargs(n),
        2 => Instruction::BuildList(Some(n)),
        3 => Instruction::BuildTuple(Some(n)),
        4 => Instruction::UnpackList(n),
        5 => Instruction::UnpackLists(n),
        6 => Instruction::CallFunction("f", Some(n as u16)),
        7 => Instruction::BuildList(None),
        _ => Instruction::CallMethod("m", Some(n as u16)),
    };
    let c = fuel_for_instruction(&instr);
    let b1: u64 = kani::any();
    let b2: u64 = kani::any();
    kani::assume(b1 <= b2);
    let mut t1 = FuelTracker::new(b1);
    let mut t2 = FuelTracker::new(b2);
    let first: bool = kani::any();
    let mut cost: u128 = 0;
    let mut live1 = true;
    let mut live2 = true;
    if first {
        live1 = track_ok(&mut t1, true);
        live2 = track_ok(&mut t2, true);
        cost = 1;
    }
    let r1 = t1.track(&instr);
    let ok1 = r1.is_ok();
    core::mem::forget(r1);
    let r2 = t2.track(&instr);
    let ok2 = r2.is_ok();
    core::mem::forget(r2);
    cost += c as u128;
    if live1 && c != 0 {
        if (b1 as u128) > cost {
            assert!(ok1);
        }
        if (b1 as u128) < cost {
            assert!(!ok1);
        }
    }
    if live1 && live2 && ok1 {
        assert!(ok2);
    }
    assert!(t1.consumed() as u128 + t1.remaining() as u128 == b1 as u128);
    assert!(t2.consumed() as u128 + t2.remaining() as u128 == b2 as u128);
    kani::cover!(ok1 && first && n > 3);
    kani::cover!(!ok1 && live1 && b1 >= 2);
    core::mem::forget(instr);
}
