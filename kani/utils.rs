#![cfg(all(feature = "builtins", feature = "macros", feature = "multi_template", feature = "adjacent_loop_items", feature = "fuel", feature = "loop_controls"))]
// Kani harnesses for minijinja/src/utils.rs (included under cfg(kani)).
#![allow(unused_imports)]
use super::*;
use crate::verif_common::*;
use std::sync::Arc;

// ------------------------------------------------------------------ C12

/// modes in order of increasing strictness
fn mode(k: u8) -> UndefinedBehavior {
    match k {
        0 => UndefinedBehavior::Chainable,
        1 => UndefinedBehavior::Lenient,
        2 => UndefinedBehavior::SemiStrict,
        _ => UndefinedBehavior::Strict,
    }
}

/// 0: undefined, 1: silent undefined (`x if c` without else), 2: none, 3: false, 4: 0, 5: ""
fn falsy(k: u8) -> Value {
    match k {
        0 => Value::UNDEFINED,
        1 => Value(ValueRepr::Undefined(UndefinedType::Silent)),
        2 => Value::from(()),
        3 => Value::from(false),
        4 => Value::from(0i64),
        _ => Value::from(""),
    }
}

fn is_ok_forget<T>(r: Result<T, Error>) -> bool {
    let ok = r.is_ok();
    core::mem::forget(r);
    ok
}

// @verif props=C12 tier=quick cap=300 group=core fns=UndefinedBehavior::{is_true,assert_iterable,assert_value_not_undefined,handle_undefined}
/// The documented matrix, cell by cell, for all 4 modes x {undefined, silent undefined, none, false, 0, ""}:
/// truth-testing an undefined fails only under Strict; iterating / coercing one fails under Strict and
/// SemiStrict; a silent undefined never fails; attribute access on an undefined (handle_undefined(true)) fails
/// everywhere except Chainable and a first-level miss (handle_undefined(false)) never fails.
#[kani::proof]
#[kani::unwind(3)]
fn c12_undefined_matrix() {
    let mk: u8 = kani::any();
    kani::assume(mk < 4);
    let vk: u8 = kani::any();
    kani::assume(vk < 6);
    let m = mode(mk);
    let v = falsy(vk);
    let plain_undefined = vk == 0;
    let strict = mk == 3;
    let semi_or_strict = mk >= 2;

    let t = m.is_true(&v);
    match t {
        Ok(b) => {
            assert!(!b);
            assert!(!(strict && plain_undefined));
        }
        Err(ref e) => {
            assert!(strict && plain_undefined);
            assert!(matches!(e.kind(), ErrorKind::UndefinedError));
        }
    }
    core::mem::forget(t);
    assert!(is_ok_forget(m.assert_iterable(&v)) == !(semi_or_strict && plain_undefined));
    assert!(is_ok_forget(m.assert_value_not_undefined(&v)) == !(semi_or_strict && plain_undefined));
    let first = m.handle_undefined(false);
    assert!(matches!(first, Ok(ref x) if x.is_undefined()));
    core::mem::forget(first);
    assert!(is_ok_forget(m.handle_undefined(true)) == (mk == 0));
    kani::cover!(strict && plain_undefined);
    kani::cover!(mk == 2 && vk == 1);
    kani::cover!(mk == 0 && vk == 5);
    core::mem::forget(v);
}

// @verif props=C12 tier=quick cap=300 group=core fns=UndefinedBehavior::{is_true,assert_iterable,assert_value_not_undefined,handle_undefined}
/// Monotonicity: for every pair of modes weaker <= stricter and every value, each helper that succeeds under the
/// stricter mode succeeds under the weaker one with the same answer (strictness only adds errors).
#[kani::proof]
#[kani::unwind(3)]
fn c12_undefined_monotone() {
    let a: u8 = kani::any();
    let b: u8 = kani::any();
    kani::assume(a <= b && b < 4);
    let vk: u8 = kani::any();
    kani::assume(vk < 6);
    let (weak, strict) = (mode(a), mode(b));
    let v = falsy(vk);
    let (tw, ts) = (weak.is_true(&v), strict.is_true(&v));
    if let Ok(x) = ts {
        assert!(matches!(tw, Ok(y) if y == x));
    }
    core::mem::forget((tw, ts));
    if is_ok_forget(strict.assert_iterable(&v)) {
        assert!(is_ok_forget(weak.assert_iterable(&v)));
    }
    if is_ok_forget(strict.assert_value_not_undefined(&v)) {
        assert!(is_ok_forget(weak.assert_value_not_undefined(&v)));
    }
    let p: bool = kani::any();
    if is_ok_forget(strict.handle_undefined(p)) {
        assert!(is_ok_forget(weak.handle_undefined(p)));
    }
    kani::cover!(a < b && vk == 0);
    core::mem::forget(v);
}

// ------------------------------------------------------------------ C02

/// Decodes `out` with the 6-entry entity table; returns false if a raw
/// metacharacter or a malformed entity occurs or the decoded text differs
/// from `input`.
fn escapes_to(input: &[u8], out: &[u8]) -> bool {
    let mut i = 0; // position in out
    let mut k = 0; // position in input
    while i < out.len() {
        let b = out[i];
        if b == b'&' {
            // must be one of the entities
            let mut matched = false;
            let cands: [u8; 6] = [b'<', b'>', b'&', b'"', b'\'', b'/'];
            let mut c = 0;
            while c < 6 {
                let ent = html_entity(cands[c]).unwrap();
                if i + ent.len() <= out.len() {
                    let mut same = true;
                    let mut j = 0;
                    while j < ent.len() {
                        if out[i + j] != ent[j] {
                            same = false;
                        }
                        j += 1;
                    }
                    if same && !matched {
                        if k >= input.len() || input[k] != cands[c] {
                            return false;
                        }
                        matched = true;
                        i += ent.len();
                        k += 1;
                    }
                }
                c += 1;
            }
            if !matched {
                return false;
            }
        } else {
            if b == b'<' || b == b'>' || b == b'"' || b == b'\'' {
                return false;
            }
            if k >= input.len() || input[k] != b {
                return false;
            }
            i += 1;
            k += 1;
        }
    }
    k == input.len()
}

// @verif props=C02 tier=quick cap=300 group=core fns=needs_html_escaping
/// needs_html_escaping(s) is true exactly when s contains one of the six characters HtmlEscape rewrites
/// (the fast-path pre-scan and the escaper must agree) - all strings of <=3 bytes below 0x80.
#[kani::proof]
#[kani::unwind(5)]
fn c02_needs_escaping_agrees_with_table() {
    let buf: [u8; 3] = kani::any();
    let len: usize = kani::any();
    kani::assume(len <= 3);
    kani::assume(buf[0] < 0x80 && buf[1] < 0x80 && buf[2] < 0x80);
    let s = unsafe { core::str::from_utf8_unchecked(&buf[..len]) };
    let mut want = false;
    let mut i = 0;
    while i < len {
        if html_entity(buf[i]).is_some() {
            want = true;
        }
        i += 1;
    }
    assert!(needs_html_escaping(s) == want);
    kani::cover!(want && len == 3);
    kani::cover!(!want && len == 3);
    kani::cover!(len == 1 && buf[0] == b'>');
}

macro_rules! escape_harness {
    ($name:ident, $n:expr, $unwind:expr, $mk:expr) => {
        #[kani::proof]
        #[kani::unwind($unwind)]
        fn $name() {
            let buf: [u8; $n] = kani::any();
            let mut i = 0;
            while i < $n {
                kani::assume(buf[i] < 0x80);
                i += 1;
            }
            let s = unsafe { core::str::from_utf8_unchecked(&buf[..]) };
            let v: Value = $mk(s);
            let mut rec = Rec::<24>::new();
            let r = {
                let mut out = Output::new(&mut rec);
                let r = write_escaped(&mut out, AutoEscape::Html, &v);
                core::mem::forget(out);
                r
            };
            assert!(r.is_ok());
            assert!(!rec.overflow);
            assert!(escapes_to(&buf[..], rec.bytes()));
            kani::cover!(rec.len > $n);
            kani::cover!(rec.len == $n);
            core::mem::forget(r);
            core::mem::forget(v);
        }
    };
}

macro_rules! escape_bytes_harness {
    ($name:ident, $invalid_lead:expr) => {
        #[kani::proof]
        #[kani::unwind(16)]
        #[kani::stub(alloc::sync::Arc::drop_slow, crate::verif_common::arc_drop_slow_leak)]
        fn $name() {
            // a value of kind `bytes`: optionally one byte that is not valid UTF-8 (0xff), then ANY ASCII byte
            let c: u8 = kani::any();
            kani::assume(c < 0x80);
            let data: Vec<u8> = if $invalid_lead { vec![0xff, c] } else { vec![c] };
            let v = Value::from_bytes(data);
            let mut rec = Rec::<24>::new();
            let r = {
                let mut out = Output::new(&mut rec);
                let r = write_escaped(&mut out, AutoEscape::Html, &v);
                core::mem::forget(out);
                r
            };
            assert!(r.is_ok());
            assert!(!rec.overflow);
            // whatever text the byte string is rendered as, no markup character reaches the sink unescaped
            let got = rec.bytes();
            let mut i = 0;
            while i < got.len() {
                assert!(got[i] != b'<' && got[i] != b'>' && got[i] != b'"' && got[i] != b'\'');
                i += 1;
            }
            if html_entity(c).is_some() {
                assert!(got.len() > 1);
            }
            kani::cover!(c == b'<');
            kani::cover!(c == b'a');
            core::mem::forget(r);
            core::mem::forget(v);
        }
    };
}

// @verif-block props=C02 tier=experimental cap=900 group=core doc=write_escaped(out,Html,v)_for_a_value_of_kind_bytes_holding_ANY_ASCII_byte,_alone_or_behind_a_byte_that_is_not_valid_UTF-8:_no_raw_<>"'_reaches_the_sink_(byte_strings_are_user_data_like_any_other_string)
escape_bytes_harness!(c02_escape_bytes_valid_utf8, false);
escape_bytes_harness!(c02_escape_bytes_invalid_utf8, true);
// @verif-end

fn mk_small(s: &str) -> Value {
    Value::from(s)
}
fn mk_arc(s: &str) -> Value {
    Value(ValueRepr::String(Arc::from(s), StringType::Normal))
}

// @verif-block props=C02,C19 group=core doc=write_escaped(out,Html,v)_for_an_unsafe_string_of_N_symbolic_ASCII_bytes:_the_bytes_received_by_the_sink_contain_no_raw_<>"'_and_decode_(6-entry_entity_table)_to_exactly_the_input,_i.e._escaped_exactly_once_(fast_paths_needs_html_escaping/is_ascii_integer_str_and_HtmlEscape_agree)
escape_harness!(c02_escape_smallstr_1b, 1, 12, mk_small); // tier=quick cap=600
escape_harness!(c02_escape_smallstr_2b, 2, 14, mk_small); // tier=quick cap=900
escape_harness!(c02_escape_arcstr_2b, 2, 14, mk_arc); // tier=quick cap=900
escape_harness!(c02_escape_smallstr_3b, 3, 21, mk_small); // tier=thorough cap=2400
// @verif-end

macro_rules! safe_verbatim_harness {
    ($name:ident, $mode:expr) => {
        #[kani::proof]
        #[kani::unwind(14)]
        fn $name() {
            let buf: [u8; 2] = kani::any();
            kani::assume(buf[0] < 0x80 && buf[1] < 0x80);
            let s = unsafe { core::str::from_utf8_unchecked(&buf[..]) };
            let v = Value(ValueRepr::String(Arc::from(s), StringType::Safe));
            let mut rec = Rec::<8>::new();
            let r = {
                let mut out = Output::new(&mut rec);
                let r = write_escaped(&mut out, $mode, &v);
                core::mem::forget(out);
                r
            };
            assert!(r.is_ok());
            assert!(rec.len == 2 && rec.buf[0] == buf[0] && rec.buf[1] == buf[1]);
            kani::cover!(buf[0] == b'<');
            core::mem::forget(r);
            core::mem::forget(v);
        }
    };
}

// @verif-block props=C02 group=core doc=a_string_marked_safe_(2_symbolic_ASCII_bytes)_is_written_byte-identically,_i.e._never_escaped_a_second_time
safe_verbatim_harness!(c02_safe_string_verbatim_html, AutoEscape::Html); // tier=quick cap=600
safe_verbatim_harness!(c02_safe_string_verbatim_none, AutoEscape::None); // tier=quick cap=600
// @verif-end

// @verif props=C12 tier=quick cap=600 group=core fns=UndefinedBehavior::try_iter
/// The iteration site: try_iter on an undefined value fails under Strict and SemiStrict and yields an empty
/// iteration under Lenient and Chainable; a silent undefined and none-like falsy scalars behave the same in
/// every mode (monotone: what succeeds under a stricter mode succeeds under every weaker one).
#[kani::proof]
#[kani::unwind(4)]
#[kani::stub(alloc::fmt::format, crate::verif_common::format_stub)]
fn c12_try_iter_undefined_matrix() {
    let mk: u8 = kani::any();
    kani::assume(mk < 4);
    let silent: bool = kani::any();
    let v = if silent { falsy(1) } else { falsy(0) };
    let r = mode(mk).try_iter(v);
    match r {
        Ok(ref it) => {
            assert!(silent || mk < 2);
            let _ = it;
        }
        Err(ref e) => {
            assert!(!silent && mk >= 2);
            assert!(matches!(e.kind(), ErrorKind::UndefinedError));
        }
    }
    kani::cover!(r.is_ok() && !silent);
    kani::cover!(r.is_err());
    core::mem::forget(r);
}

/// A fmt::Write sink that accepts `fail_at` calls and then reports an error; it records what it received
/// and whether it was called again after it had failed.
struct FailingFmtSink {
    buf: [u8; 16],
    len: usize,
    calls: usize,
    fail_at: usize,
    failed: bool,
    calls_after_failure: usize,
}

impl fmt::Write for FailingFmtSink {
    fn write_str(&mut self, s: &str) -> fmt::Result {
        if self.failed {
            self.calls_after_failure += 1;
        }
        let k = self.calls;
        self.calls += 1;
        if k >= self.fail_at {
            self.failed = true;
            return Err(fmt::Error);
        }
        let b = s.as_bytes();
        let mut i = 0;
        while i < b.len() {
            if self.len < 16 {
                self.buf[self.len] = b[i];
                self.len += 1;
            }
            i += 1;
        }
        Ok(())
    }
}

// @verif props=C19,C02 tier=quick cap=300 group=core fns=HtmlEscape::fmt
/// HTML-escaped emission into a sink that fails at its k-th write call (k <= 5 symbolic), for the text
/// "a<b>" (plain chunk, entity, plain chunk, entity): what the sink received is a prefix of "a&lt;b&gt;", the
/// formatting returns Err exactly when the sink failed, and NO further write call is made after the failure
/// (in particular the entity is not written after the preceding plain chunk failed).
#[kani::proof]
#[kani::unwind(12)]
fn c19_html_escape_stops_at_first_sink_error() {
    let fail_at: usize = kani::any();
    kani::assume(fail_at <= 5);
    let mut sink = FailingFmtSink { buf: [0; 16], len: 0, calls: 0, fail_at, failed: false, calls_after_failure: 0 };
    let r = fmt::write(&mut sink, format_args!("{}", HtmlEscape("a<b>")));
    let expect: &[u8] = b"a&lt;b&gt;";
    assert!(sink.len <= expect.len());
    let mut i = 0;
    while i < 10 {
        if i < sink.len {
            assert!(sink.buf[i] == expect[i]);
        }
        i += 1;
    }
    assert!(sink.calls_after_failure == 0);
    assert!(r.is_err() == sink.failed);
    if !sink.failed {
        assert!(sink.len == expect.len());
    }
    kani::cover!(sink.failed && sink.len == 1);
    kani::cover!(sink.failed && sink.len == 5);
    kani::cover!(!sink.failed);
}

#[cfg(test)]
mod playback {
    use super::*;
    include!("/verif/.build/playback/utils.rs");
}
