// Kani harnesses for minijinja-autoreload/src/lib.rs (included under cfg(kani)).
#![allow(unused_imports)]
use super::*;

#[cfg(test)]
mod playback {
    use super::*;
    include!("/verif/.build/playback/autoreload.rs");
}
