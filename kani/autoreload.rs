// Kani harnesses for minijinja-autoreload/src/lib.rs (included under cfg(kani)).
//
// Kani does not execute threads.  The schedule space of the property collapses, however: acquire_env
// holds the `cached_env` mutex from entry to exit (acquirers are serialised) and a requester performs
// one atomic step (set the flag under the notifier lock).  Every interleaving at lock granularity is
// therefore a sequence of acquires in which each gap - before an acquire, and during the rebuild, i.e.
// inside the creator callback - may or may not contain a request: a vector of symbolic booleans.
#![allow(unused_imports)]
use super::*;
use std::sync::atomic::{AtomicBool, AtomicUsize, Ordering};

static CREATED: AtomicUsize = AtomicUsize::new(0);
static REQUEST_IN_CREATOR: AtomicBool = AtomicBool::new(false);

pub(crate) fn random_state_stub() -> std::hash::RandomState {
    unsafe { core::mem::transmute::<(u64, u64), std::hash::RandomState>((1, 2)) }
}

fn creator(notifier: Notifier) -> Result<Environment<'static>, Error> {
    CREATED.fetch_add(1, Ordering::SeqCst);
    if REQUEST_IN_CREATOR.load(Ordering::SeqCst) {
        // a request that arrives while the rebuild is in progress
        notifier.request_reload();
        REQUEST_IN_CREATOR.store(false, Ordering::SeqCst);
    }
    core::mem::forget(notifier);
    Ok(Environment::empty())
}

// @verif props=C20 tier=quick cap=900 group=autoreload fns=AutoReloader::{new,acquire_env},Notifier::{request_reload,should_reload,prepare_and_mark_reload}
/// First acquire with a symbolic "request arrives during the rebuild" (issued from inside the creator through the
/// notifier it is handed): the creator runs exactly once, and the request is NOT lost - it is still pending after
/// the acquire returns exactly when it was issued (the flag is cleared before the creator runs, not after).
#[kani::proof]
#[kani::unwind(4)]
#[kani::stub(std::hash::RandomState::new, random_state_stub)]
fn c20_request_during_rebuild_is_kept() {
    let during: bool = kani::any();
    CREATED.store(0, Ordering::SeqCst);
    REQUEST_IN_CREATOR.store(during, Ordering::SeqCst);
    // (a capturing closure: boxing the zero-sized fn item itself makes kani-compiler 0.68 panic)
    let tag: u8 = 1;
    let reloader = AutoReloader::new(move |n| {
        let _keep = tag;
        creator(n)
    });
    let guard = reloader.acquire_env();
    assert!(guard.is_ok());
    assert!(CREATED.load(Ordering::SeqCst) == 1);
    assert!(reloader.notifier.should_reload() == during);
    kani::cover!(during);
    kani::cover!(!during);
    core::mem::forget(guard);
    core::mem::forget(reloader);
}

/// One acquire_env from a directly constructed pre-state "an environment is cached" (the state every
/// earlier successful acquire leaves behind), with the listed pending-request flag and reload mode.
/// Together with c20_request_during_rebuild_is_kept (first acquire from the empty cache) these are the
/// inductive steps that cover every gap of a longer schedule: a request that returned before the acquire =>
/// a creation (or cache clear) after it; no request => the creator is not called again; the flag is consumed.
macro_rules! cached_state_harness {
    ($name:ident, $pending:expr, $fast:expr, $during:expr) => {
        #[kani::proof]
        #[kani::unwind(4)]
        #[kani::stub(std::hash::RandomState::new, random_state_stub)]
        fn $name() {
            CREATED.store(0, Ordering::SeqCst);
            REQUEST_IN_CREATOR.store($during, Ordering::SeqCst);
            let tag: u8 = 1;
            let reloader = AutoReloader {
                env_creator: Box::new(move |n| {
                    let _keep = tag;
                    creator(n)
                }),
                notifier: Notifier::new(),
                cached_env: Mutex::new(Some(Environment::empty())),
            };
            if $fast {
                reloader.notifier().set_fast_reload(true);
            }
            if $pending {
                // the request has returned before the acquire starts
                reloader.notifier().request_reload();
            }
            let g = reloader.acquire_env();
            assert!(g.is_ok());
            let created = CREATED.load(Ordering::SeqCst);
            if $pending && !$fast {
                assert!(created == 1);
            } else {
                assert!(created == 0);
            }
            // the consumed request is gone; one that arrived during the rebuild is still pending
            assert!(reloader.notifier.should_reload() == ($pending && !$fast && $during));
            kani::cover!(true);
            core::mem::forget(g);
            core::mem::forget(reloader);
        }
    };
}

// @verif-block props=C20 group=autoreload doc=one_acquire_env_from_the_pre-state_"environment_cached"_with_the_listed_(request_pending,_fast_reload,_request_during_rebuild):_creator_called_iff_a_request_is_pending_and_fast_reload_is_off,_the_pending_request_is_consumed,_a_request_arriving_during_the_rebuild_stays_pending
cached_state_harness!(c20_cached_no_request, false, false, false); // tier=quick cap=900
cached_state_harness!(c20_cached_fast_pending, true, true, false); // tier=thorough cap=3600
cached_state_harness!(c20_cached_pending_recreates, true, false, false); // tier=thorough cap=3600
cached_state_harness!(c20_cached_pending_and_during, true, false, true); // tier=thorough cap=3600
// @verif-end

static ON_RELOAD_CALLS: AtomicUsize = AtomicUsize::new(0);
static CB_VALUE: AtomicBool = AtomicBool::new(false);

// @verif props=C20 tier=quick cap=900 group=autoreload fns=Notifier::{new,request_reload,set_callback,set_on_should_reload_callback,should_reload,weak}
/// The notifier's request flag and its freshness callback are independent channels: for EVERY combination of
/// (a request was issued - directly or through a weak notifier handle as the file watcher does, a freshness
/// callback is registered, what it returns) should_reload() is `requested OR (callback registered AND it
/// returns true)` - a registered callback never hides an explicit request, and asking does not consume it.
/// (Only functions every variant of the crate is likely to keep are named here: a harness that does not
/// compile decides nothing.)
#[kani::proof]
#[kani::unwind(4)]
fn c20_request_and_callback_are_independent() {
    let requested: bool = kani::any();
    let via_weak: bool = kani::any();
    let has_cb: bool = kani::any();
    let cb_val: bool = kani::any();
    let has_on: bool = kani::any();
    ON_RELOAD_CALLS.store(0, Ordering::SeqCst);
    CB_VALUE.store(cb_val, Ordering::SeqCst);
    let n = Notifier::new();
    if has_cb {
        n.set_callback(|| CB_VALUE.load(Ordering::SeqCst));
    }
    if has_on {
        n.set_on_should_reload_callback(|| {
            ON_RELOAD_CALLS.fetch_add(1, Ordering::SeqCst);
        });
    }
    if requested {
        if via_weak {
            let w = n.weak();
            w.request_reload();
            core::mem::forget(w);
        } else {
            n.request_reload();
        }
    }
    assert!(n.should_reload() == (requested || (has_cb && cb_val)));
    // asking again gives the same answer (the flag is consumed by the reload, not by the question)
    assert!(n.should_reload() == (requested || (has_cb && cb_val)));
    // a further request keeps it pending
    n.request_reload();
    assert!(n.should_reload());
    kani::cover!(requested && has_cb && !cb_val);
    kani::cover!(!requested && has_cb && cb_val && has_on);
    kani::cover!(requested && via_weak);
    core::mem::forget(n);
}

#[cfg(test)]
mod playback {
    use super::*;
    include!("/verif/.build/playback/autoreload.rs");
}
