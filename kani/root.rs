// root-level harnesses (pub(crate) items only)
#![allow(unused_imports)]
use super::*;
use crate::verif_common::*;

#[cfg(test)]
mod playback {
    use super::*;
    include!("/verif/.build/playback/root.rs");
}
