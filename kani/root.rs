// root-level harnesses (pub(crate) items only)
