#![cfg(all(feature = "builtins", feature = "macros", feature = "multi_template", feature = "adjacent_loop_items", feature = "fuel", feature = "loop_controls"))]
// root-level harnesses (pub(crate) items only)
#![allow(unused_imports)]
use super::*;
use crate::verif_common::*;

/// Model of core::slice::memchr::memrchr (last index of a byte) used as a Kani stub: std's word-at-a-time
/// implementation with pointer alignment arithmetic does not get through symbolic execution.
pub(crate) fn memrchr_model(x: u8, text: &[u8]) -> Option<usize> {
    let mut i = text.len();
    while i > 0 {
        i -= 1;
        if text[i] == x {
            return Some(i);
        }
    }
    None
}

pub(crate) fn memchr_model_root(x: u8, text: &[u8]) -> Option<usize> {
    let mut i = 0;
    while i < text.len() {
        if text[i] == x {
            return Some(i);
        }
        i += 1;
    }
    None
}

fn push_bytes(buf: &mut [u8; 16], len: &mut usize, s: &[u8]) {
    let mut i = 0;
    while i < s.len() {
        buf[*len] = s[i];
        *len += 1;
        i += 1;
    }
}

// @verif props=C02 tier=quick cap=900 group=core fns=defaults::default_auto_escape_callback
/// Which templates are auto-escaped: for EVERY stem of up to 3 bytes over {'.', '/', 'a', 'h'} followed by one of
/// the extensions .html / .htm / .xml / .txt and optionally by an ignored final extension (.j2 / .jinja /
/// .jinja2), HTML escaping is selected iff the LAST (non-ignored) extension is html, htm or xml - however many
/// other dots the name contains (index.en.html, v1.2/page.html, ./x.html).
#[kani::proof]
#[kani::unwind(18)]
#[kani::stub(core::slice::memchr::memrchr, memrchr_model)]
#[kani::stub(core::slice::memchr::memchr, memchr_model_root)]
fn c02_default_auto_escape_by_last_extension() {
    let mut buf = [0u8; 16];
    let mut len = 0usize;
    let stem_len: usize = kani::any();
    kani::assume(stem_len <= 3);
    let mut i = 0;
    while i < 3 {
        let c: u8 = kani::any();
        kani::assume(c == b'.' || c == b'/' || c == b'a' || c == b'h');
        if i < stem_len {
            buf[len] = c;
            len += 1;
        }
        i += 1;
    }
    let ext: u8 = kani::any();
    kani::assume(ext < 4);
    match ext {
        0 => push_bytes(&mut buf, &mut len, b".html"),
        1 => push_bytes(&mut buf, &mut len, b".htm"),
        2 => push_bytes(&mut buf, &mut len, b".xml"),
        _ => push_bytes(&mut buf, &mut len, b".txt"),
    }
    let ign: u8 = kani::any();
    kani::assume(ign < 4);
    match ign {
        0 => {}
        1 => push_bytes(&mut buf, &mut len, b".j2"),
        2 => push_bytes(&mut buf, &mut len, b".jinja"),
        _ => push_bytes(&mut buf, &mut len, b".jinja2"),
    }
    let name = unsafe { core::str::from_utf8_unchecked(&buf[..len]) };
    let got = crate::defaults::default_auto_escape_callback(name);
    if ext < 3 {
        assert!(matches!(got, AutoEscape::Html));
    } else {
        assert!(matches!(got, AutoEscape::None));
    }
    kani::cover!(ext == 0 && stem_len == 3 && buf[1] == b'.' && ign == 2);
    kani::cover!(ext == 3 && ign == 0);
}


#[cfg(test)]
mod playback {
    use super::*;
    include!("/verif/.build/playback/root.rs");
}
