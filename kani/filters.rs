#![cfg(all(feature = "builtins", feature = "macros", feature = "multi_template", feature = "adjacent_loop_items", feature = "fuel", feature = "loop_controls"))]
// Kani harnesses for minijinja/src/filters.rs (included under cfg(kani)).
#![allow(unused_imports)]
use super::*;
use crate::verif_common::*;

#[cfg(test)]
mod playback {
    use super::*;
    include!("/verif/.build/playback/filters.rs");
}
