#![cfg(all(feature = "builtins", feature = "macros", feature = "multi_template", feature = "adjacent_loop_items", feature = "fuel", feature = "loop_controls"))]
// Kani harnesses for minijinja/src/filters.rs (included under cfg(kani)).
#![allow(unused_imports)]
use super::*;
use crate::verif_common::*;

use crate::value::{ArgType, Rest, StringInput, StringType, ValueRepr};
use crate::Environment;
use crate::error::ErrorKind;
use crate::vm::State;
use std::sync::Arc;

fn leaked_state(html: bool) -> State<'static, 'static> {
    let env: &'static Environment<'static> = Box::leak(Box::new(Environment::empty()));
    let mut state = State::new_for_env(env);
    state.auto_escape = if html { AutoEscape::Html } else { AutoEscape::None };
    state
}

fn has_raw_meta(s: &str) -> bool {
    let b = s.as_bytes();
    let mut i = 0;
    while i < b.len() {
        if b[i] == b'<' || b[i] == b'>' || b[i] == b'"' || b[i] == b'\'' {
            return true;
        }
        i += 1;
    }
    false
}

fn sym_meta_byte() -> u8 {
    let c: u8 = kani::any();
    kani::assume(c == b'<' || c == b'>' || c == b'"' || c == b'\'' || c == b'&' || c == b'a');
    c
}

fn str_value(bytes: &[u8], safe: bool) -> Value {
    let s = unsafe { core::str::from_utf8_unchecked(bytes) };
    if safe {
        Value(ValueRepr::String(Arc::from(s), StringType::Safe))
    } else {
        Value(ValueRepr::String(Arc::from(s), StringType::Normal))
    }
}

// @verif props=C02 tier=experimental cap=3000 group=core fns=filters::escape,write_escaped,State::auto_escape
/// The escape filter, for EVERY 1-2 byte string over {< > " ' & a}, marked safe or not, in a scope with
/// escaping on or off: a safe input comes back unchanged (not escaped a second time), an unsafe input comes
/// back marked safe and without any raw metacharacter (the filter falls back to HTML when escaping is off).
#[kani::proof]
#[kani::unwind(14)]
#[kani::stub(std::hash::RandomState::new, crate::verif_common::random_state_stub)]
#[kani::stub(alloc::fmt::format, crate::verif_common::format_stub)]
fn c02_escape_filter_exactly_once() {
    let buf = [sym_meta_byte(), sym_meta_byte()];
    let len: usize = kani::any();
    kani::assume(len == 1 || len == 2);
    let safe: bool = kani::any();
    let html: bool = kani::any();
    let v = str_value(&buf[..len], safe);
    let mut state = leaked_state(html);
    let r = escape(&mut state, &v);
    match r {
        Ok(ref out) => {
            assert!(out.is_safe());
            let s = out.as_str().unwrap();
            if safe {
                assert!(s.len() == len && s.as_bytes()[0] == buf[0]);
                assert!(len == 1 || s.as_bytes()[1] == buf[1]);
            } else {
                assert!(!has_raw_meta(s));
                assert!(s.len() >= len);
            }
        }
        Err(_) => assert!(false),
    }
    kani::cover!(safe && html);
    kani::cover!(!safe && !html && buf[0] == b'<');
    core::mem::forget((r, state, v));
}

macro_rules! replace_safety_harness {
    ($name:ident, $vs:expr, $fs:expr, $ts:expr) => {
        #[kani::proof]
        #[kani::unwind(14)]
        #[kani::stub(std::hash::RandomState::new, crate::verif_common::random_state_stub)]
        #[kani::stub(alloc::fmt::format, crate::verif_common::format_stub)]
        fn $name() {
            // value = one symbolic byte, search string "x", replacement = one symbolic byte
            let vb = [sym_meta_byte()];
            let tb = [sym_meta_byte()];
            let html: bool = kani::any();
            let value = str_value(&vb, $vs);
            let from = str_value(b"x", $fs);
            let to = str_value(&tb, $ts);
            let mut state = leaked_state(html);
            let a = <StringInput as ArgType>::from_value(Some(&value)).unwrap();
            let b = <StringInput as ArgType>::from_value(Some(&from)).unwrap();
            let c = <StringInput as ArgType>::from_value(Some(&to)).unwrap();
            let r = replace(&mut state, a, b, c);
            match r {
                Ok(ref out) => {
                    let s = out.as_str().unwrap();
                    // a result marked safe must not carry a raw metacharacter that came from an unsafe input
                    if out.is_safe() && !$vs {
                        assert!(!has_raw_meta(s));
                    }
                    if !html {
                        // without auto-escaping: plain replace, never marked safe
                        assert!(!out.is_safe());
                        assert!(s.len() == 1 && s.as_bytes()[0] == vb[0]);
                    }
                }
                Err(_) => assert!(false),
            }
            kani::cover!(html && vb[0] == b'<');
            kani::cover!(!html);
            core::mem::forget((r, state, value, from, to));
        }
    };
}

// @verif-block props=C02 tier=experimental cap=3000 group=core doc=replace_filter_safety_flow_for_the_listed_safe/unsafe_assignment_of_(value,_search,_replacement),_value_and_replacement_one_symbolic_byte_over_{<_>_"_'_&_a},_escaping_on_or_off:_a_result_marked_safe_never_contains_a_raw_metacharacter_from_an_unsafe_input;_with_escaping_off_the_result_is_the_plain_replacement_and_not_marked_safe
replace_safety_harness!(c02_replace_unsafe_safe_unsafe, false, true, false);
replace_safety_harness!(c02_replace_unsafe_unsafe_safe, false, false, true);
replace_safety_harness!(c02_replace_unsafe_unsafe_unsafe, false, false, false);
// @verif-end

macro_rules! default_filter_harness {
    ($name:ident, $vk:expr, $nargs:expr) => {
        #[kani::proof]
        #[kani::unwind(5)]
        #[kani::stub(std::hash::RandomState::new, crate::verif_common::random_state_stub)]
        #[kani::stub(alloc::fmt::format, crate::verif_common::format_stub)]
        fn $name() {
            let mk: u8 = kani::any();
            kani::assume(mk < 4);
            let mut env = Environment::empty();
            env.set_undefined_behavior(match mk {
                0 => crate::UndefinedBehavior::Chainable,
                1 => crate::UndefinedBehavior::Lenient,
                2 => crate::UndefinedBehavior::SemiStrict,
                _ => crate::UndefinedBehavior::Strict,
            });
            let env: &'static Environment<'static> = Box::leak(Box::new(env));
            let state = State::new_for_env(env);
            // 0: undefined, 1: a defined falsy value (0), 2: a defined truthy value (7)
            let value = match $vk {
                0 => Value::UNDEFINED,
                1 => Value::from(0i64),
                _ => Value::from(7i64),
            };
            let lax: bool = kani::any();
            let mut args = Vec::with_capacity(2);
            if $nargs >= 1 {
                args.push(Value::from(42i64));
            }
            if $nargs >= 2 {
                args.push(Value::from(lax));
            }
            let r = default(&state, &value, Rest(args));
            let expect_fallback = $vk == 0 || ($vk == 1 && $nargs == 2 && lax);
            match r {
                Ok(ref out) => match &out.0 {
                    ValueRepr::I64(x) => {
                        assert!(*x == if expect_fallback { 42 } else if $vk == 1 { 0 } else { 7 });
                        assert!(!(expect_fallback && $nargs == 0));
                    }
                    ValueRepr::SmallStr(_) | ValueRepr::String(..) => assert!(expect_fallback && $nargs == 0),
                    _ => assert!(false),
                },
                // the default filter never fails, whatever the undefined mode
                Err(_) => assert!(false),
            }
            kani::cover!(mk == 3);
            kani::cover!(mk == 0 && lax);
            core::mem::forget((r, state, value));
        }
    };
}

// @verif-block props=C12 tier=quick cap=900 group=core doc=the_default_filter_on_(undefined_|_defined_falsy_0_|_defined_truthy_7)_with_0,_1_or_2_arguments_(second_=_symbolic_boolean_lax_flag)_under_ALL_4_undefined_modes:_never_fails;_undefined_->_fallback,_falsy_->_fallback_only_with_lax=true,_otherwise_the_value_itself
default_filter_harness!(c12_default_undefined_lax_arg, 0, 2);
default_filter_harness!(c12_default_undefined_one_arg, 0, 1);
default_filter_harness!(c12_default_undefined_no_arg, 0, 0);
default_filter_harness!(c12_default_falsy_lax_arg, 1, 2);
default_filter_harness!(c12_default_truthy_lax_arg, 2, 2); // tier=thorough
// @verif-end

// ---------------------------------------------------------------------------
// C01: allocations whose size the template chooses - indentation widths and slice counts.
// ---------------------------------------------------------------------------

// @verif props=C01 tier=experimental cap=900 group=core fns=filters::indent
/// indent(value, width) for ANY width >= 2^63 (the range in which the indentation string cannot be allocated):
/// an error, never a capacity-overflow panic.
#[kani::proof]
#[kani::unwind(6)]
#[kani::stub(alloc::fmt::format, crate::verif_common::format_stub)]
#[kani::stub(std::hash::RandomState::new, crate::verif_common::random_state_stub)]
fn c01_indent_huge_width() {
    let width: usize = kani::any();
    kani::assume(width >= (1usize << 63));
    let v = Value::from("a\nb");
    let input = <StringInput as ArgType>::from_value(Some(&v)).unwrap();
    let r = indent(input, Some(width), None, None, <crate::value::Kwargs as core::iter::FromIterator<(String, Value)>>::from_iter(core::iter::empty()));
    assert!(matches!(r, Err(ref e) if matches!(e.kind(), ErrorKind::InvalidOperation)));
    kani::cover!(width == usize::MAX);
    core::mem::forget((r, v));
}

// (A twin harness for filters::slice with count >= 2^60 was tried: building the State and iterating the value
// does not finish in 900 s; the reservation was repaired instead, see DESIGN.md section C.)


// ---------------------------------------------------------------------------
// C16 (narrow): whatever JSON text the serializer produces, `tojson` hands out a safe string that contains
// none of < > & ' and from which the serializer's text is recovered by undoing the four \u00XX escapes.
// The serializer itself (serde_json + `Serialize for Value`, whose thread-locals kani-compiler 0.68 cannot
// translate) is replaced by a model that returns an ARBITRARY ASCII text of up to 2 bytes.
// ---------------------------------------------------------------------------
#[cfg(feature = "json")]
pub(crate) static mut C16_JSON: [u8; 2] = [0; 2];
#[cfg(feature = "json")]
pub(crate) static mut C16_JSON_LEN: usize = 0;

#[cfg(feature = "json")]
pub(crate) fn serialize_json_model<F>(_value: &Value, formatter: F) -> serde_json::Result<String>
where
    F: serde_json::ser::Formatter,
{
    core::mem::forget(formatter);
    let s = unsafe { core::str::from_utf8_unchecked(&C16_JSON[..C16_JSON_LEN]) };
    Ok(s.to_string())
}

#[cfg(feature = "json")]
fn is_html_meta(b: u8) -> bool {
    b == b'<' || b == b'>' || b == b'&' || b == b'\''
}

#[cfg(feature = "json")]
// @verif props=C16 tier=experimental cap=900 group=json fns=filters::tojson stubs=serialize_json->arbitrary_text
/// For EVERY serializer output of up to 2 ASCII bytes: the value `tojson` returns is marked safe, contains none
/// of the characters < > & ', and is the serializer's text with exactly those four characters replaced by
/// their six-byte \u00XX escapes (every other byte unchanged, in order).
#[kani::proof]
#[kani::unwind(15)]
#[kani::stub(std::hash::RandomState::new, crate::verif_common::random_state_stub)]
#[kani::stub(alloc::fmt::format, crate::verif_common::format_stub)]
#[kani::stub(alloc::sync::Arc::drop_slow, crate::verif_common::arc_drop_slow_leak)]
#[kani::stub(crate::filters::builtins::serialize_json, serialize_json_model)]
fn c16_tojson_output_is_html_safe() {
    let len: usize = kani::any();
    kani::assume(len <= 2);
    let mut i = 0;
    let mut metas = 0;
    while i < 2 {
        let c: u8 = kani::any();
        kani::assume(c < 0x80);
        unsafe {
            C16_JSON[i] = c;
        }
        if i < len && is_html_meta(c) {
            metas += 1;
        }
        i += 1;
    }
    unsafe {
        C16_JSON_LEN = len;
    }
    let kwargs: crate::value::Kwargs = std::iter::empty::<(String, Value)>().collect();
    let v = Value::from(1);
    let r = tojson(&v, Some(Value::from(false)), kwargs);
    match r {
        Ok(ref out) => {
            assert!(out.is_safe());
            let s = out.as_str().unwrap().as_bytes();
            assert!(s.len() == len + 5 * metas);
            // walk both texts
            let mut j = 0; // position in the output
            let mut k = 0; // position in the serializer's text
            while k < len {
                let c = unsafe { C16_JSON[k] };
                if is_html_meta(c) {
                    assert!(s[j] == b'\\' && s[j + 1] == b'u' && s[j + 2] == b'0' && s[j + 3] == b'0');
                    let hex = [s[j + 4], s[j + 5]];
                    let want: [u8; 2] = match c {
                        b'<' => *b"3c",
                        b'>' => *b"3e",
                        b'&' => *b"26",
                        _ => *b"27",
                    };
                    assert!(hex[0] == want[0] && hex[1] == want[1]);
                    j += 6;
                } else {
                    assert!(s[j] == c);
                    j += 1;
                }
                k += 1;
            }
            let mut q = 0;
            while q < s.len() {
                assert!(!is_html_meta(s[q]));
                q += 1;
            }
        }
        Err(_) => assert!(false),
    }
    kani::cover!(len == 2 && metas == 2);
    kani::cover!(len == 2 && metas == 0);
    core::mem::forget(r);
}

#[cfg(test)]
mod playback {
    use super::*;
    include!("/verif/.build/playback/filters.rs");
}
