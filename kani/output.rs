#![cfg(all(feature = "builtins", feature = "macros", feature = "multi_template", feature = "adjacent_loop_items", feature = "fuel", feature = "loop_controls"))]
// Kani harnesses for minijinja/src/output.rs (included under cfg(kani)).
#![allow(unused_imports)]
use super::*;
use crate::verif_common::*;

/// An io::Write sink that records what it receives and misbehaves in a
/// configurable way at its `fail_at`-th write call:
///   mode 0: returns Err(kind)          (and keeps failing afterwards)
///   mode 1: returns Ok(0)              (zero-length write -> write_all must report WriteZero)
/// independent of that, with `short` set every call accepts at most 1 byte.
struct Sink {
    buf: [u8; 16],
    len: usize,
    calls: usize,
    fail_at: usize,
    mode: u8,
    kind: io::ErrorKind,
    short: bool,
    calls_after_failure: usize,
    failed: bool,
}

impl Sink {
    fn new(fail_at: usize, mode: u8, kind: io::ErrorKind, short: bool) -> Sink {
        Sink { buf: [0; 16], len: 0, calls: 0, fail_at, mode, kind, short, calls_after_failure: 0, failed: false }
    }
}

impl io::Write for Sink {
    fn write(&mut self, data: &[u8]) -> io::Result<usize> {
        if self.failed {
            self.calls_after_failure += 1;
        }
        let k = self.calls;
        self.calls += 1;
        if k >= self.fail_at {
            self.failed = true;
            return if self.mode == 0 { Err(io::Error::from(self.kind)) } else { Ok(0) };
        }
        let n = if self.short && data.len() > 1 { 1 } else { data.len() };
        let mut i = 0;
        while i < n {
            if self.len < 16 {
                self.buf[self.len] = data[i];
                self.len += 1;
            }
            i += 1;
        }
        Ok(n)
    }
    fn flush(&mut self) -> io::Result<()> {
        Ok(())
    }
}

macro_rules! sink_harness {
    ($name:ident, $mode:expr, $short:expr, $kind:expr, [$(($op:ident, $bytes:expr)),*]) => {
        #[kani::proof]
        #[kani::unwind(7)]
        fn $name() {
            let fail_at: usize = kani::any();
            kani::assume(fail_at <= 4);
            let mut w = WriteWrapper { w: Sink::new(fail_at, $mode, $kind, $short), err: None };
            // what a non-failing run delivers
            let mut expect = [0u8; 4];
            let mut elen = 0;
            $(
                let b: &[u8] = $bytes;
                let mut j = 0;
                while j < b.len() {
                    expect[elen] = b[j];
                    elen += 1;
                    j += 1;
                }
            )*
            let mut failed_op = false;
            {
                let mut out = Output::new(&mut w);
                $(
                    // the VM stops issuing writes at the first error (ok!/ctx_ok! at both emit sites)
                    if !failed_op {
                        if $op(&mut out).is_err() {
                            failed_op = true;
                        }
                    }
                )*
                core::mem::forget(out);
            }
            // prefix property
            assert!(w.w.len <= elen);
            let mut i = 0;
            while i < 4 {
                if i < w.w.len {
                    assert!(w.w.buf[i] == expect[i]);
                }
                i += 1;
            }
            // nothing is written after the sink reported a failure
            assert!(w.w.calls_after_failure == 0);
            if !failed_op {
                assert!(w.w.len == elen);
                assert!(!w.w.failed);
                assert!(w.err.is_none());
            } else {
                // the failure is never swallowed: the sink's own error is stored
                assert!(w.w.failed);
                assert!(w.err.is_some());
                let k = w.err.as_ref().unwrap().kind();
                if $mode == 0 {
                    assert!(k == $kind);
                } else {
                    assert!(k == io::ErrorKind::WriteZero);
                }
            }
            // a sink that misbehaved always surfaces as an error of the operation that hit it
            if w.w.failed {
                assert!(failed_op);
            }
            kani::cover!(failed_op && w.w.len > 0);
            kani::cover!(!failed_op);
            core::mem::forget(w);
        }
    };
}

#[inline(always)]
fn op_ab(out: &mut Output) -> fmt::Result {
    out.write_str("ab")
}
#[inline(always)]
fn op_lt(out: &mut Output) -> fmt::Result {
    out.write_str("<")
}
#[inline(always)]
fn op_char(out: &mut Output) -> fmt::Result {
    fmt::Write::write_char(out, '\u{e9}')
}
#[inline(always)]
fn op_fmt(out: &mut Output) -> fmt::Result {
    out.write_fmt(format_args!("{}", "xy"))
}

// @verif-block props=C19 group=core doc=WriteWrapper+Output_over_a_sink_that_misbehaves_at_its_k-th_write_call_(k<=4_symbolic;_Err(kind)_or_a_zero-length_write;_optionally_accepting_1_byte_per_call):_bytes_received_are_a_prefix_of_the_non-failing_output,_nothing_is_written_after_the_failure,_the_operation_that_hit_it_returns_Err_and_the_sink's_own_io::Error_(kind_preserved;_WriteZero_for_zero-length_writes)_is_stored;_operation_sequence_as_listed
sink_harness!(c19_sink_str_str_brokenpipe, 0, false, io::ErrorKind::BrokenPipe, [(op_ab, b"ab"), (op_lt, b"<")]); // tier=quick cap=900
sink_harness!(c19_sink_char_str_other_short, 0, true, io::ErrorKind::Other, [(op_char, "\u{e9}".as_bytes()), (op_ab, b"ab")]); // tier=quick cap=900
sink_harness!(c19_sink_str_char_wouldblock_short, 0, true, io::ErrorKind::WouldBlock, [(op_ab, b"ab"), (op_char, "\u{e9}".as_bytes())]); // tier=quick cap=900
sink_harness!(c19_sink_char_str_zero_write, 1, false, io::ErrorKind::Other, [(op_char, "\u{e9}".as_bytes()), (op_ab, b"ab")]); // tier=quick cap=900
sink_harness!(c19_sink_str_str_zero_write_short, 1, true, io::ErrorKind::Other, [(op_ab, b"ab"), (op_lt, b"<")]); // tier=thorough cap=900
sink_harness!(c19_sink_fmt_str_brokenpipe, 0, false, io::ErrorKind::BrokenPipe, [(op_fmt, b"xy"), (op_ab, b"ab")]); // tier=thorough cap=1800
// @verif-end

macro_rules! take_err_harness {
    ($name:ident, $kind:expr, $io:expr) => {
        #[kani::proof]
        #[kani::unwind(4)]
        #[kani::stub(crate::error::Error::with_source, crate::error::verif_kani::with_source_model)]
        fn $name() {
            let mut w = WriteWrapper { w: Sink::new(0, 0, io::ErrorKind::Other, false), err: Some(io::Error::from($io)) };
            let original = Error::from($kind);
            let e = w.take_err(original);
            // the API boundary reports a write failure carrying the sink's own error, whatever kind
            // the engine's error had been wrapped into on the way up
            assert!(matches!(e.kind(), ErrorKind::WriteFailure));
            assert!(e.line() == Some(crate::error::verif_kani::SOURCE_ATTACHED_MARK));
            // exactly once: a second call returns the engine's error unchanged
            assert!(w.err.is_none());
            let e2 = w.take_err(Error::from($kind));
            assert!(e2.kind() == $kind);
            kani::cover!(true);
            core::mem::forget(e);
            core::mem::forget(e2);
            core::mem::forget(w);
        }
    };
}

// @verif-block props=C19 group=core doc=WriteWrapper::take_err(original)_with_a_stored_sink_error_returns_kind_WriteFailure_with_a_source,_for_the_listed_kind_of_the_engine-side_error_(errors_from_includes/super_are_wrapped_as_BadInclude/EvalBlock_before_they_reach_the_API_boundary),_and_hands_the_stored_error_out_exactly_once
take_err_harness!(c19_take_err_writefailure, ErrorKind::WriteFailure, io::ErrorKind::BrokenPipe); // tier=quick cap=600
take_err_harness!(c19_take_err_badinclude, ErrorKind::BadInclude, io::ErrorKind::Other); // tier=quick cap=600
take_err_harness!(c19_take_err_evalblock, ErrorKind::EvalBlock, io::ErrorKind::WouldBlock); // tier=quick cap=600
take_err_harness!(c19_take_err_invalidop, ErrorKind::InvalidOperation, io::ErrorKind::Other); // tier=thorough cap=600
// @verif-end

macro_rules! sink_escape_harness {
    ($name:ident, $short:expr, $kind:expr) => {
        #[kani::proof]
        #[kani::unwind(7)]
        fn $name() {
            // one escaped emission of the unsafe string "a<" (HtmlEscape writes the plain chunk, the entity and
            // the rest as separate write calls) into a sink that fails at its k-th call
            let fail_at: usize = kani::any();
            kani::assume(fail_at <= 3);
            let mut w = WriteWrapper { w: Sink::new(fail_at, 0, $kind, $short), err: None };
            let expect: &[u8] = b"a&lt;";
            let v = Value::from("a<");
            let failed_op;
            {
                let mut out = Output::new(&mut w);
                failed_op = crate::utils::write_escaped(&mut out, AutoEscape::Html, &v).is_err();
                core::mem::forget(out);
            }
            assert!(w.w.len <= expect.len());
            let mut i = 0;
            while i < 5 {
                if i < w.w.len {
                    assert!(w.w.buf[i] == expect[i]);
                }
                i += 1;
            }
            // nothing is written after the sink reported a failure
            assert!(w.w.calls_after_failure == 0);
            if !failed_op {
                assert!(w.w.len == expect.len() && !w.w.failed && w.err.is_none());
            } else {
                assert!(w.w.failed && w.err.is_some());
                assert!(w.err.as_ref().unwrap().kind() == $kind);
            }
            if w.w.failed {
                assert!(failed_op);
            }
            kani::cover!(failed_op && w.w.len == 1);
            kani::cover!(!failed_op);
            core::mem::forget((w, v));
        }
    };
}

// @verif-block props=C19,C02 tier=experimental cap=900 group=core doc=one_HTML-escaped_emission_of_"a<"_through_write_escaped/HtmlEscape_into_a_sink_that_fails_with_the_listed_error_kind_at_its_k-th_write_call_(k<=3_symbolic):_delivered_bytes_are_a_prefix_of_"a&lt;",_no_write_call_follows_the_failure_(the_entity_is_not_written_after_the_plain_chunk_failed),_the_emission_returns_Err_and_the_sink's_error_is_stored
sink_escape_harness!(c19_sink_escaped_brokenpipe, false, io::ErrorKind::BrokenPipe);
sink_escape_harness!(c19_sink_escaped_short_other, true, io::ErrorKind::Other); // cap=1800
// @verif-end

// ------------------------------------------------------------------ C02 / C05: captures

macro_rules! capture_harness {
    ($name:ident, $mode:expr, $safe:expr, $nested:expr) => {
        #[kani::proof]
        #[kani::unwind(26)]
        fn $name() {
            let mut rec = Rec::<8>::new();
            let nested: bool = $nested;
            let v;
            let v2;
            {
                let mut out = Output::new(&mut rec);
                assert!(out.write_str("a").is_ok());
                out.begin_capture(CaptureMode::Capture);
                assert!(out.write_str("<b").is_ok());
                if nested {
                    out.begin_capture(CaptureMode::Capture);
                    assert!(out.write_str("c").is_ok());
                    v2 = out.end_capture($mode);
                } else {
                    v2 = Value::UNDEFINED;
                }
                assert!(out.write_str(">").is_ok());
                v = out.end_capture($mode);
                assert!(out.write_str("z").is_ok());
                assert!(out.capture_stack.is_empty());
                core::mem::forget(out);
            }
            // text written before/after the capture reaches the real sink, captured text does not
            assert!(rec.len == 2 && rec.buf[0] == b'a' && rec.buf[1] == b'z');
            // the capture holds exactly what was written between begin and end (inner capture excluded)
            let vs = v.as_str().unwrap().as_bytes();
            assert!(vs.len() == 3 && vs[0] == b'<' && vs[1] == b'b' && vs[2] == b'>');
            // and is marked safe iff escaping was on when the capture ended
            assert!(v.is_safe() == $safe);
            if nested {
                let v2s = v2.as_str().unwrap().as_bytes();
                assert!(v2s.len() == 1 && v2s[0] == b'c');
                assert!(v2.is_safe() == $safe);
            }
            kani::cover!(true);
            core::mem::forget(v);
            core::mem::forget(v2);
        }
    };
}

// @verif-block props=C02,C05 group=core doc=Output::begin_capture/end_capture_(optionally_nested):_captured_text_is_exactly_what_was_written_since_the_matching_begin,_it_is_a_SAFE_string_iff_auto-escaping_was_on_when_the_capture_ended,_and_text_written_after_the_capture_reaches_the_real_output_again
capture_harness!(c05_capture_html_marks_safe, AutoEscape::Html, true, false); // tier=thorough cap=3600
capture_harness!(c05_capture_none_stays_unsafe, AutoEscape::None, false, false); // tier=thorough cap=3600
capture_harness!(c05_capture_nested_html, AutoEscape::Html, true, true); // tier=thorough cap=3600
capture_harness!(c05_capture_nested_none, AutoEscape::None, false, true); // tier=thorough cap=3600
// @verif-end

#[cfg(test)]
mod playback {
    use super::*;
    include!("/verif/.build/playback/output.rs");
}
