#![cfg(all(feature = "builtins", feature = "macros", feature = "multi_template", feature = "adjacent_loop_items", feature = "fuel", feature = "loop_controls"))]
// Shared reference models ("oracles") used by the Kani harnesses.
// Included into minijinja's crate root under cfg(kani) as `crate::verif_common`.
// Everything here is deliberately short and independent of minijinja's code.
#![allow(dead_code)]

/// CPython's PySlice_AdjustIndices + defaults, over i128 so that the oracle
/// itself can never overflow.  Returns (first index, step, number of items).
/// `step` must be non-zero.
pub(crate) fn py_slice(len: usize, start: Option<i64>, stop: Option<i64>, step: i64) -> (i128, i128, u64) {
    let n = len as i128;
    let st = step as i128;
    let neg = st < 0;
    let adj = |v: i64| -> i128 {
        let mut v = v as i128;
        if v < 0 {
            v += n;
            if v < 0 {
                v = if neg { -1 } else { 0 };
            }
        } else if v >= n {
            v = if neg { n - 1 } else { n };
        }
        v
    };
    let s = match start {
        Some(v) => adj(v),
        None => {
            if neg {
                n - 1
            } else {
                0
            }
        }
    };
    let e = match stop {
        Some(v) => adj(v),
        None => {
            if neg {
                -1
            } else {
                n
            }
        }
    };
    let count = if neg {
        if e < s {
            (s - e - 1) / (-st) + 1
        } else {
            0
        }
    } else if s < e {
        (e - s - 1) / st + 1
    } else {
        0
    };
    (s, st, count as u64)
}

/// Python's index normalisation for a subscript: Some(i) if in range.
pub(crate) fn py_index(len: usize, idx: i128) -> Option<usize> {
    let n = len as i128;
    if idx >= 0 && idx < n {
        Some(idx as usize)
    } else if idx < 0 && idx >= -n {
        Some((n + idx) as usize)
    } else {
        None
    }
}

/// Exact mathematical integer in [-2^127, 2^128): sign + magnitude.
#[derive(Clone, Copy, PartialEq, Eq, Debug)]
pub(crate) struct Z {
    pub neg: bool,
    pub mag: u128,
}

impl Z {
    pub(crate) fn from_i128(v: i128) -> Z {
        Z { neg: v < 0, mag: v.unsigned_abs() }
    }
    pub(crate) fn from_u128(v: u128) -> Z {
        Z { neg: false, mag: v }
    }
    pub(crate) fn norm(self) -> Z {
        if self.mag == 0 {
            Z { neg: false, mag: 0 }
        } else {
            self
        }
    }
    pub(crate) fn to_i128(self) -> Option<i128> {
        if !self.neg {
            i128::try_from(self.mag).ok()
        } else if self.mag <= (1u128 << 127) {
            Some((self.mag as i128).wrapping_neg())
        } else {
            None
        }
    }
}

/// Exact a+b where the result is None if |a+b| does not fit a u128 magnitude.
pub(crate) fn z_add(a: Z, b: Z) -> Option<Z> {
    if a.neg == b.neg {
        a.mag.checked_add(b.mag).map(|m| Z { neg: a.neg, mag: m }.norm())
    } else if a.mag >= b.mag {
        Some(Z { neg: a.neg, mag: a.mag - b.mag }.norm())
    } else {
        Some(Z { neg: b.neg, mag: b.mag - a.mag }.norm())
    }
}

pub(crate) fn z_neg(a: Z) -> Z {
    Z { neg: !a.neg, mag: a.mag }.norm()
}

pub(crate) fn z_sub(a: Z, b: Z) -> Option<Z> {
    z_add(a, z_neg(b))
}

/// Exact a*b, None if the magnitude does not fit u128.
pub(crate) fn z_mul(a: Z, b: Z) -> Option<Z> {
    a.mag.checked_mul(b.mag).map(|m| Z { neg: a.neg != b.neg, mag: m }.norm())
}

/// "Fits the 128-bit signed range" in the sense of the property statement.
pub(crate) fn z_fits_i128(a: Z) -> bool {
    a.to_i128().is_some()
}

/// The 6-entry HTML entity table used as reference for escaping.
pub(crate) fn html_entity(b: u8) -> Option<&'static [u8]> {
    match b {
        b'<' => Some(b"&lt;"),
        b'>' => Some(b"&gt;"),
        b'&' => Some(b"&amp;"),
        b'"' => Some(b"&quot;"),
        b'\'' => Some(b"&#x27;"),
        b'/' => Some(b"&#x2f;"),
        _ => None,
    }
}

/// A fmt::Write / io::Write sink that records up to N bytes without any
/// allocation, optionally failing at the k-th write call.
pub(crate) struct Rec<const N: usize> {
    pub buf: [u8; N],
    pub len: usize,
    pub calls: usize,
    pub fail_at: usize,
    pub overflow: bool,
}

impl<const N: usize> Rec<N> {
    pub(crate) fn new() -> Self {
        Rec { buf: [0; N], len: 0, calls: 0, fail_at: usize::MAX, overflow: false }
    }
    pub(crate) fn failing_at(k: usize) -> Self {
        Rec { buf: [0; N], len: 0, calls: 0, fail_at: k, overflow: false }
    }
    pub(crate) fn push(&mut self, b: u8) {
        if self.len < N {
            self.buf[self.len] = b;
            self.len += 1;
        } else {
            self.overflow = true;
        }
    }
    pub(crate) fn bytes(&self) -> &[u8] {
        &self.buf[..self.len]
    }
}

impl<const N: usize> core::fmt::Write for Rec<N> {
    fn write_str(&mut self, s: &str) -> core::fmt::Result {
        let k = self.calls;
        self.calls += 1;
        if k >= self.fail_at {
            return Err(core::fmt::Error);
        }
        let b = s.as_bytes();
        let mut i = 0;
        while i < b.len() {
            self.push(b[i]);
            i += 1;
        }
        Ok(())
    }
}

/// A Hasher that records the sequence of typed write calls, so that two
/// values "hash identically for every hasher" iff their traces are equal.
pub(crate) struct TraceHasher {
    pub ev: [(u8, u128); 4],
    pub n: usize,
    pub overflow: bool,
}

impl TraceHasher {
    pub(crate) fn new() -> Self {
        TraceHasher { ev: [(0, 0); 4], n: 0, overflow: false }
    }
    fn rec(&mut self, tag: u8, v: u128) {
        if self.n < 4 {
            self.ev[self.n] = (tag, v);
            self.n += 1;
        } else {
            self.overflow = true;
        }
    }
    pub(crate) fn same(&self, o: &TraceHasher) -> bool {
        if self.n != o.n || self.overflow || o.overflow {
            return false;
        }
        let mut i = 0;
        while i < 4 {
            if i < self.n && (self.ev[i].0 != o.ev[i].0 || self.ev[i].1 != o.ev[i].1) {
                return false;
            }
            i += 1;
        }
        true
    }
}

impl core::hash::Hasher for TraceHasher {
    fn finish(&self) -> u64 {
        0
    }
    fn write(&mut self, bytes: &[u8]) {
        // strings / byte slices: record length and up to 3 bytes packed (the harnesses hash strings of at
        // most 2 bytes; the bound keeps this loop inside the smallest unwind used, also when a longer
        // buffer is hashed by mistake)
        // loop-free on purpose: a variant of the code that hashes a longer buffer must yield a verdict,
        // not a failed unwinding assertion
        let n = bytes.len();
        let b0 = if n > 0 { bytes[0] } else { 0 };
        let b1 = if n > 1 { bytes[1] } else { 0 };
        let b2 = if n > 2 { bytes[2] } else { 0 };
        let v: u128 = ((n as u128) << 24) | ((b0 as u128) << 16) | ((b1 as u128) << 8) | b2 as u128;
        self.rec(1, v);
    }
    fn write_u8(&mut self, i: u8) {
        self.rec(2, i as u128);
    }
    fn write_u32(&mut self, i: u32) {
        self.rec(3, i as u128);
    }
    fn write_u64(&mut self, i: u64) {
        self.rec(4, i as u128);
    }
    fn write_u128(&mut self, i: u128) {
        self.rec(5, i);
    }
    fn write_usize(&mut self, i: usize) {
        self.rec(6, i as u128);
    }
    fn write_i8(&mut self, i: i8) {
        self.rec(7, i as u8 as u128);
    }
    fn write_i32(&mut self, i: i32) {
        self.rec(8, i as u32 as u128);
    }
    fn write_i64(&mut self, i: i64) {
        self.rec(9, i as u64 as u128);
    }
    fn write_i128(&mut self, i: i128) {
        self.rec(10, i as u128);
    }
    fn write_isize(&mut self, i: isize) {
        self.rec(11, i as usize as u128);
    }
}

/// Stub for alloc::fmt::format: only error *messages* are built with format! in the code under
/// test; they do not influence any checked result.
pub(crate) fn format_stub(_args: core::fmt::Arguments<'_>) -> String {
    String::new()
}

/// Stub for std::hash::RandomState::new (reads the OS random source, which CBMC
/// cannot model): fixed SipHash keys.  Hash-map *contents* do not depend on them.
pub(crate) fn random_state_stub() -> std::hash::RandomState {
    unsafe { core::mem::transmute::<(u64, u64), std::hash::RandomState>((1, 2)) }
}

/// Stub for the private error constructors ops::failed_op / ops::impossible_op: same kind, no
/// formatted detail (building and dropping the formatted message is what CBMC chokes on).
pub(crate) fn op_error_stub(_op: &str, _lhs: &crate::Value, _rhs: &crate::Value) -> crate::Error {
    crate::Error::from(crate::ErrorKind::InvalidOperation)
}

/// Stub for `Arc::drop_slow` (what runs when the last strong reference goes away): leak the allocation
/// instead of running the payload's drop glue.  Used by harnesses in which shared compiled templates /
/// environments are replaced or evicted: their drop glue (instruction vectors, block maps, boxed closures) is
/// what CBMC does not get through, and it has no influence on what the container serves afterwards.
pub(crate) fn arc_drop_slow_leak<T: ?Sized, A: core::alloc::Allocator>(_this: &mut std::sync::Arc<T, A>) {}

/// Model of `Vec::pop` (used by harnesses in which a `Frame` is pushed and popped): shortens the vector like the real function but leaks the
/// element instead of returning it (the frame is dropped at once; the drop glue of a `Frame`
/// read back from the heap - boxed loop iterators, closures - is what runs CBMC out of memory, and it has no
/// influence on the depth accounting under test).
pub(crate) fn vec_pop_leaking<T, A: core::alloc::Allocator>(v: &mut Vec<T, A>) -> Option<T> {
    let n = v.len();
    if n > 0 {
        unsafe { v.set_len(n - 1) };
    }
    None
}

