#![cfg(all(feature = "builtins", feature = "macros", feature = "multi_template", feature = "adjacent_loop_items", feature = "fuel", feature = "loop_controls"))]
// Kani harnesses for minijinja/src/vm/state.rs (included under cfg(kani)).
#![allow(unused_imports)]
use super::*;
use crate::verif_common::*;

// @verif props=C13 tier=quick cap=600 group=core fns=Environment::set_fuel,Environment::fuel,State::new,State::fuel_levels,FuelTracker::new
/// The configured budget reaches the render's tracker unchanged: for EVERY Option<u64> budget (0 and u64::MAX
/// included) Environment::fuel() returns what set_fuel stored, a fresh State tracks fuel iff a budget is set,
/// and it starts at consumed == 0, remaining == budget (so consumed + remaining == budget from the start).
#[kani::proof]
#[kani::unwind(4)]
#[kani::stub(std::hash::RandomState::new, crate::verif_common::random_state_stub)]
fn c13_env_budget_reaches_tracker() {
    let budget: Option<u64> = kani::any();
    let mut env = Environment::empty();
    assert!(env.fuel().is_none());
    env.set_fuel(budget);
    assert!(env.fuel() == budget);
    let env: &'static Environment<'static> = Box::leak(Box::new(env));
    let state = State::new_for_env(env);
    match (budget, state.fuel_levels()) {
        (None, None) => {}
        (Some(b), Some((consumed, remaining))) => {
            assert!(consumed == 0 && remaining == b);
        }
        _ => assert!(false),
    }
    kani::cover!(budget == Some(0));
    kani::cover!(budget == Some(u64::MAX));
    kani::cover!(budget.is_none());
    core::mem::forget(state);
}

fn leaked_instructions(name: &'static str) -> &'static Instructions<'static> {
    Box::leak(Box::new(Instructions::new(name, "")))
}

// @verif props=C06 tier=quick cap=600 group=core fns=BlockStack::{default,append_instructions,instructions,push,pop,len}
/// Block resolution along an inheritance chain of 1..=3 definitions of one block (appended most-derived first,
/// as load_blocks does) under EVERY sequence of up to 5 super()-enter / super()-leave steps: the block renders
/// its most-derived definition, each super() moves to exactly the next definition up the chain, leaving a
/// super() returns to the one below, and super() in the top-most definition is refused (no parent block).
#[kani::proof]
#[kani::unwind(7)]
fn c06_block_stack_super_chain() {
    let layers = [leaked_instructions("child"), leaked_instructions("parent"), leaked_instructions("grandparent")];
    let n: usize = kani::any();
    kani::assume(n >= 1 && n <= 3);
    let mut bs = BlockStack::default();
    let mut i = 0;
    while i < 3 {
        if i < n {
            bs.append_instructions(layers[i]);
        }
        i += 1;
    }
    assert!(bs.len() == n);
    assert!(core::ptr::eq(bs.instructions(), layers[0]));
    let mut d = 0usize;
    let mut step = 0;
    let mut refused = false;
    while step < 5 {
        let enter: bool = kani::any();
        if enter {
            let ok = bs.push();
            assert!(ok == (d + 1 < n));
            if ok {
                d += 1;
            } else {
                refused = true;
            }
        } else if d > 0 {
            bs.pop();
            d -= 1;
        }
        assert!(core::ptr::eq(bs.instructions(), layers[d]));
        step += 1;
    }
    kani::cover!(d == 2);
    kani::cover!(refused && n == 3);
    kani::cover!(n == 1 && refused);
    core::mem::forget(bs);
}

#[cfg(test)]
mod playback {
    use super::*;
    include!("/verif/.build/playback/vm_state.rs");
}
