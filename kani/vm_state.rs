// Kani harnesses for minijinja/src/vm/state.rs (included under cfg(kani)).
#![allow(unused_imports)]
use super::*;
use crate::verif_common::*;

#[cfg(test)]
mod playback {
    use super::*;
    include!("/verif/.build/playback/vm_state.rs");
}
