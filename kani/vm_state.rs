#![cfg(all(feature = "builtins", feature = "macros", feature = "multi_template", feature = "adjacent_loop_items", feature = "fuel", feature = "loop_controls"))]
// Kani harnesses for minijinja/src/vm/state.rs (included under cfg(kani)).
#![allow(unused_imports)]
use super::*;
use crate::verif_common::*;

// @verif props=C13 tier=quick cap=600 group=core fns=Environment::set_fuel,Environment::fuel,State::new,State::fuel_levels,FuelTracker::new
/// The configured budget reaches the render's tracker unchanged: for EVERY Option<u64> budget (0 and u64::MAX
/// included) Environment::fuel() returns what set_fuel stored, a fresh State tracks fuel iff a budget is set,
/// and it starts at consumed == 0, remaining == budget (so consumed + remaining == budget from the start).
#[kani::proof]
#[kani::unwind(4)]
#[kani::stub(std::hash::RandomState::new, crate::verif_common::random_state_stub)]
fn c13_env_budget_reaches_tracker() {
    let budget: Option<u64> = kani::any();
    let mut env = Environment::empty();
    assert!(env.fuel().is_none());
    env.set_fuel(budget);
    assert!(env.fuel() == budget);
    let env: &'static Environment<'static> = Box::leak(Box::new(env));
    let state = State::new_for_env(env);
    match (budget, state.fuel_levels()) {
        (None, None) => {}
        (Some(b), Some((consumed, remaining))) => {
            assert!(consumed == 0 && remaining == b);
        }
        _ => assert!(false),
    }
    kani::cover!(budget == Some(0));
    kani::cover!(budget == Some(u64::MAX));
    kani::cover!(budget.is_none());
    core::mem::forget(state);
}

#[cfg(test)]
mod playback {
    use super::*;
    include!("/verif/.build/playback/vm_state.rs");
}
