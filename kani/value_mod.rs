#![cfg(all(feature = "builtins", feature = "macros", feature = "multi_template", feature = "adjacent_loop_items", feature = "fuel", feature = "loop_controls"))]
// Kani harnesses for minijinja/src/value/mod.rs (included under cfg(kani)).
#![allow(unused_imports)]
use super::*;
use crate::verif_common::*;
use std::cmp::Ordering;
use std::hash::{Hash, Hasher};

trait Sym: Sized {
    fn sym() -> Self;
}
macro_rules! sym_int {
    ($($t:ty),*) => {$(impl Sym for $t { fn sym() -> Self { kani::any() } })*};
}
sym_int!(u64, i64, u128, i128, bool);
impl Sym for f64 {
    fn sym() -> f64 {
        let f: f64 = kani::any();
        kani::assume(!f.is_nan());
        f
    }
}
/// none
struct NoneV;
impl Sym for NoneV {
    fn sym() -> Self {
        NoneV
    }
}
impl From<NoneV> for Value {
    fn from(_: NoneV) -> Value {
        Value::from(())
    }
}
/// undefined
struct UndefV;
impl Sym for UndefV {
    fn sym() -> Self {
        UndefV
    }
}
impl From<UndefV> for Value {
    fn from(_: UndefV) -> Value {
        Value::UNDEFINED
    }
}
/// a small string of exactly 2 symbolic ASCII bytes
struct Str2([u8; 2], usize);
impl Sym for Str2 {
    fn sym() -> Self {
        let b: [u8; 2] = kani::any();
        kani::assume(b[0] < 0x80 && b[1] < 0x80);
        Str2(b, 2)
    }
}
impl From<Str2> for Value {
    fn from(s: Str2) -> Value {
        Value::from(unsafe { core::str::from_utf8_unchecked(&s.0[..s.1]) })
    }
}

/// the same 2 symbolic ASCII bytes held as a heap string (`Arc<str>`), plain or marked safe
struct Str2Arc([u8; 2], bool);
impl Sym for Str2Arc {
    fn sym() -> Self {
        let b: [u8; 2] = kani::any();
        kani::assume(b[0] < 0x80 && b[1] < 0x80);
        Str2Arc(b, kani::any())
    }
}
impl From<Str2Arc> for Value {
    fn from(s: Str2Arc) -> Value {
        let st = unsafe { core::str::from_utf8_unchecked(&s.0[..]) };
        Value(ValueRepr::String(Arc::from(st), if s.1 { StringType::Safe } else { StringType::Normal }))
    }
}

/// An allocation-free iterator over the integers i..n (as I64 values) with an exact size hint.
pub(crate) struct CountIter {
    pub i: usize,
    pub n: usize,
}
impl Iterator for CountIter {
    type Item = Value;
    fn next(&mut self) -> Option<Value> {
        if self.i < self.n {
            self.i += 1;
            Some(Value::from((self.i - 1) as i64))
        } else {
            None
        }
    }
    fn size_hint(&self) -> (usize, Option<usize>) {
        (self.n - self.i, Some(self.n - self.i))
    }
}

/// A ValueIter with an exact size hint over the integers 0..n (as I64 values).
pub(crate) fn counting_iter(n: usize) -> ValueIter {
    ValueIter { imp: ValueIterImpl::Dyn(Box::new(CountIter { i: 0, n })) }
}

/// The empty ValueIter (no dynamic dispatch at all).
pub(crate) fn empty_iter() -> ValueIter {
    ValueIter { imp: ValueIterImpl::Empty }
}

fn trace(v: &Value) -> TraceHasher {
    let mut h = TraceHasher::new();
    v.hash(&mut h);
    h
}

/// Order/equality laws for one pair of values (NaN excluded by construction).
fn check_pair(a: &Value, b: &Value, with_hash: bool) {
    let ab = a.cmp(b);
    let ba = b.cmp(a);
    // antisymmetry / totality
    assert!(ab == ba.reverse());
    // the order agrees with equality
    let eq = a == b;
    assert!((ab == Ordering::Equal) == eq);
    // equality is symmetric
    assert!(eq == (b == a));
    // reflexive
    assert!(a.cmp(a) == Ordering::Equal);
    if with_hash && eq {
        assert!(trace(a).same(&trace(b)));
    }
}

/// Order laws only (no call into PartialEq): used in the quick tier for pairs of different kinds, whose
/// equality goes through a failing numeric conversion that CBMC needs > 400 s for (measured).
macro_rules! order_harness {
    ($name:ident, $ta:ty, $tb:ty, $want:expr) => {
        #[kani::proof]
        #[kani::unwind(5)]
        #[kani::stub(alloc::fmt::format, crate::verif_common::format_stub)]
        fn $name() {
            let (a, b) = (Value::from(<$ta as Sym>::sym()), Value::from(<$tb as Sym>::sym()));
            let ab = a.cmp(&b);
            assert!(ab == b.cmp(&a).reverse());
            // values of different kinds are never Equal in the order; kinds order as documented
            assert!(ab == $want);
            kani::cover!(true);
            core::mem::forget((a, b));
        }
    };
}

macro_rules! pair_harness {
    ($name:ident, $ta:ty, $tb:ty, $hash:expr) => {
        #[kani::proof]
        #[kani::unwind(5)]
        #[kani::stub(alloc::fmt::format, crate::verif_common::format_stub)]
        fn $name() {
            let (a, b) = (Value::from(<$ta as Sym>::sym()), Value::from(<$tb as Sym>::sym()));
            check_pair(&a, &b, $hash);
            kani::cover!(a == b);
            kani::cover!(a < b);
            core::mem::forget((a, b));
        }
    };
}

// @verif-block props=C07 tier=quick cap=400 group=core doc=Value_Ord/PartialEq(/Hash)_laws_for_one_pair_of_the_listed_kinds_with_fully_symbolic_payloads_(NaN_excluded):_cmp(a,b)==cmp(b,a).reverse(),_cmp==Equal_<=>_a==b,_==_symmetric,_cmp(a,a)==Equal,_and_(where_hash_is_listed_true)_a==b_=>_identical_Hasher_call_traces
pair_harness!(c07_pair_i64_i64, i64, i64, true);
pair_harness!(c07_pair_i64_u64, i64, u64, false);
pair_harness!(c07_pair_u64_u64, u64, u64, false);
pair_harness!(c07_pair_u64_f64, u64, f64, false);
pair_harness!(c07_pair_i64_f64, i64, f64, false);
pair_harness!(c07_pair_f64_f64, f64, f64, false);
pair_harness!(c07_pair_i64_i128, i64, i128, false);
pair_harness!(c07_pair_u128_u128, u128, u128, false);
pair_harness!(c07_pair_u64_u128, u64, u128, false); // tier=thorough cap=3000
pair_harness!(c07_pair_none_bool, NoneV, bool, true); // tier=thorough cap=3000
pair_harness!(c07_pair_undef_none, UndefV, NoneV, true); // tier=thorough cap=3000
pair_harness!(c07_pair_bool_bool, bool, bool, true);
pair_harness!(c07_pair_none_i64, NoneV, i64, true); // tier=thorough cap=3000
pair_harness!(c07_pair_str_str, Str2, Str2, true);
pair_harness!(c07_pair_smallstr_arcstr, Str2, Str2Arc, true);
pair_harness!(c07_pair_str_i64, Str2, i64, true); // tier=thorough cap=3000
pair_harness!(c07_pair_i128_u128, i128, u128, false); // tier=thorough cap=3000
pair_harness!(c07_pair_i128_f64, i128, f64, false); // tier=thorough cap=3000
pair_harness!(c07_pair_u128_f64, u128, f64, false); // tier=thorough cap=3000
pair_harness!(c07_pair_i128_i128, i128, i128, false); // tier=thorough cap=1200
// @verif-end

// @verif-block props=C07 tier=quick cap=300 group=core doc=kind-first_order_for_a_pair_of_DIFFERENT_kinds_(payloads_symbolic):_cmp_is_antisymmetric_and_never_Equal;_undefined_<_none_<_bool_<_number_<_string
order_harness!(c07_order_undef_none, UndefV, NoneV, Ordering::Less);
order_harness!(c07_order_none_bool, NoneV, bool, Ordering::Less);
order_harness!(c07_order_none_i64, NoneV, i64, Ordering::Less);
order_harness!(c07_order_i64_str, i64, Str2, Ordering::Less);
order_harness!(c07_order_bool_str, bool, Str2, Ordering::Less);
// @verif-end

/// Known finding KF-C07-bool-number: a bool and a number compare equal through coercion
/// (`true == 1`) while the order puts every bool before every number (`true < 1`).
macro_rules! bool_num_harness {
    ($name:ident, $t:ty, $only_equal_region:expr) => {
        #[kani::proof]
        #[kani::unwind(5)]
        #[kani::stub(alloc::fmt::format, crate::verif_common::format_stub)]
        fn $name() {
            let x: bool = kani::any();
            let y: $t = <$t as Sym>::sym();
            // region of the known finding: the number equals the bool's numeric value
            let in_region = y == (x as u8 as $t);
            kani::assume(in_region == $only_equal_region);
            let (a, b) = (Value::from(x), Value::from(y));
            check_pair(&a, &b, false);
            kani::cover!(true);
            core::mem::forget((a, b));
        }
    };
}

// @verif-block props=C07 tier=quick cap=400 group=core doc=order/equality_laws_for_bool_x_number_pairs;_the_sub-region_"number_equals_the_bool's_numeric_value"_is_the_recorded_known_finding_and_is_split_off_into_the_*_known_*_twins
bool_num_harness!(c07_pair_bool_i64, i64, false);
bool_num_harness!(c07_pair_bool_u64, u64, false);
bool_num_harness!(c07_pair_bool_f64, f64, false);
bool_num_harness!(c07_pair_bool_i64_known_eq, i64, true); // known=KF-C07-bool-number
// @verif-end

// ------------------------------------------------------------ exact int/float comparison kernels

/// Exact comparison of a finite f64 with an integer given as sign + u128 magnitude.
fn ref_cmp_f64_int(f: f64, n: Z) -> Ordering {
    let bits = f.to_bits();
    let fneg = (bits >> 63) != 0;
    let exp = ((bits >> 52) & 0x7ff) as i32;
    let frac = bits & ((1u64 << 52) - 1);
    let (m, e): (u64, i32) = if exp == 0 { (frac, -1074) } else { (frac | (1u64 << 52), exp - 1075) };
    let n = n.norm();
    if m == 0 {
        return if n.mag == 0 {
            Ordering::Equal
        } else if n.neg {
            Ordering::Greater
        } else {
            Ordering::Less
        };
    }
    if n.mag == 0 {
        return if fneg { Ordering::Less } else { Ordering::Greater };
    }
    if fneg != n.neg {
        return if fneg { Ordering::Less } else { Ordering::Greater };
    }
    // same sign, both non-zero: compare magnitudes m * 2^e  vs  n.mag
    let mag = if e >= 0 {
        if e > 75 {
            Ordering::Greater
        } else {
            ((m as u128) << (e as u32)).cmp(&n.mag)
        }
    } else {
        let s = (-e) as u32;
        if s >= 53 {
            Ordering::Less
        } else {
            let floor = (m >> s) as u128;
            let rem = m & ((1u64 << s) - 1);
            match floor.cmp(&n.mag) {
                Ordering::Equal => {
                    if rem > 0 {
                        Ordering::Greater
                    } else {
                        Ordering::Equal
                    }
                }
                o => o,
            }
        }
    };
    if fneg {
        mag.reverse()
    } else {
        mag
    }
}

// @verif props=C07,C08 tier=quick cap=900 group=core fns=cmp_f64_i128
/// cmp_f64_i128(f, n) equals the exact mathematical comparison for ALL finite f64 x ALL i128
/// (reference: integer comparison of mantissa*2^exponent with the integer's magnitude).
#[kani::proof]
#[kani::unwind(3)]
fn c08_cmp_f64_i128_exact() {
    let f: f64 = kani::any();
    kani::assume(f.is_finite());
    let n: i128 = kani::any();
    assert!(cmp_f64_i128(f, n) == ref_cmp_f64_int(f, Z::from_i128(n)));
    kani::cover!(cmp_f64_i128(f, n) == Ordering::Equal && n > (1i128 << 100));
    kani::cover!(n == i128::MAX);
}

// @verif props=C07,C08 tier=quick cap=900 group=core fns=cmp_f64_u128
/// cmp_f64_u128(f, n) equals the exact mathematical comparison for ALL finite f64 x ALL u128.
#[kani::proof]
#[kani::unwind(3)]
fn c08_cmp_f64_u128_exact() {
    let f: f64 = kani::any();
    kani::assume(f.is_finite());
    let n: u128 = kani::any();
    assert!(cmp_f64_u128(f, n) == ref_cmp_f64_int(f, Z::from_u128(n)));
    kani::cover!(cmp_f64_u128(f, n) == Ordering::Equal && n > (1u128 << 127));
    kani::cover!(n == u128::MAX);
}

// @verif props=C07,C08 tier=quick cap=300 group=core fns=cmp_i128_u128,f64_total_cmp
/// cmp_i128_u128 is the exact comparison; infinities order outside every integer.
#[kani::proof]
#[kani::unwind(3)]
fn c08_cmp_i128_u128_exact() {
    let a: i128 = kani::any();
    let b: u128 = kani::any();
    let want = if a < 0 { Ordering::Less } else { (a as u128).cmp(&b) };
    assert!(cmp_i128_u128(a, b) == want);
    assert!(cmp_f64_i128(f64::INFINITY, a) == Ordering::Greater);
    assert!(cmp_f64_i128(f64::NEG_INFINITY, a) == Ordering::Less);
    assert!(cmp_f64_u128(f64::INFINITY, b) == Ordering::Greater);
    assert!(cmp_f64_u128(f64::NEG_INFINITY, b) == Ordering::Less);
    kani::cover!(a < 0);
    kani::cover!(a > 0 && (a as u128) > b);
}

macro_rules! int_float_value_harness {
    ($name:ident, $t:ty, $z:expr) => {
        #[kani::proof]
        #[kani::unwind(5)]
        #[kani::stub(alloc::fmt::format, crate::verif_common::format_stub)]
        fn $name() {
            let x: $t = kani::any();
            let f: f64 = kani::any();
            kani::assume(f.is_finite());
            let (a, b) = (Value::from(x), Value::from(f));
            let want = ref_cmp_f64_int(f, $z(x)).reverse();
            assert!(a.cmp(&b) == want);
            assert!((a == b) == (want == Ordering::Equal));
            kani::cover!(a == b && x != 0);
            kani::cover!(want == Ordering::Less);
            core::mem::forget((a, b));
        }
    };
}
fn z_i(x: i64) -> Z {
    Z::from_i128(x as i128)
}
fn z_u(x: u64) -> Z {
    Z::from_u128(x as u128)
}

// @verif-block props=C08,C07 tier=quick cap=900 group=core doc=comparison_between_integers_and_floats_is_exact_at_the_Value_level:_Value::cmp_and_==_of_an_integer_(full_64-bit_range)_with_a_finite_f64_(all_bit_patterns)_equal_the_exact_mathematical_comparison
int_float_value_harness!(c08_value_cmp_i64_f64_exact, i64, z_i);
int_float_value_harness!(c08_value_cmp_u64_f64_exact, u64, z_u);
// @verif-end

// ------------------------------------------------------------ C09 / C01 subscripts

macro_rules! index_harness {
    ($name:ident, $n:expr, $mk:expr) => {
        #[kani::proof]
        #[kani::unwind(8)]
        #[kani::stub(alloc::fmt::format, crate::verif_common::format_stub)]
        fn $name() {
            let len: usize = kani::any();
            kani::assume(len <= $n);
            let idx: i64 = kani::any();
            let buf: [u8; $n] = [b'a', b'b', b'c', b'd'];
            let v: Value = $mk(&buf[..len]);
            let key = Value::from(idx);
            let got = v.get_item_opt(&key);
            match py_index(len, idx as i128) {
                Some(i) => {
                    assert!(got.is_some());
                    let g = got.as_ref().unwrap();
                    // element i: a one-character string (str) or the byte value (bytes)
                    let ok = match g.0 {
                        ValueRepr::SmallStr(ref s) => s.as_str().as_bytes() == &buf[i..i + 1],
                        ValueRepr::U64(b) => b == buf[i] as u64,
                        ValueRepr::I64(b) => b == buf[i] as i64,
                        _ => false,
                    };
                    assert!(ok);
                }
                None => assert!(got.is_none()),
            }
            kani::cover!(got.is_some() && idx < 0);
            kani::cover!(got.is_none() && idx < 0);
            kani::cover!(len > 0 && idx == -(len as i64));
            core::mem::forget((got, v, key));
        }
    };
}
fn mk_str(b: &[u8]) -> Value {
    Value::from(unsafe { core::str::from_utf8_unchecked(b) })
}
fn mk_bytes(b: &[u8]) -> Value {
    Value::from_bytes(b.to_vec())
}

// @verif props=C09,C01 tier=quick cap=900 group=core fns=Value::get_item_opt
/// Subscript on a HEAP string (the `ValueRepr::String` arm, here a safe string) that holds a two-byte character:
/// for ANY i64 index the position counts characters, not bytes - `"\u{e9}a"[i]` is `\u{e9}` for i in {0, -2}, `a` for
/// i in {1, -1} and undefined otherwise.
#[kani::proof]
#[kani::unwind(6)]
#[kani::stub(alloc::fmt::format, crate::verif_common::format_stub)]
#[kani::stub(alloc::sync::Arc::drop_slow, crate::verif_common::arc_drop_slow_leak)]
fn c09_index_heap_string_counts_characters() {
    let idx: i64 = kani::any();
    let v = Value::from_safe_string(String::from("\u{e9}a"));
    assert!(matches!(v.0, ValueRepr::String(..)));
    let key = Value::from(idx);
    let got = v.get_item_opt(&key);
    match py_index(2, idx as i128) {
        Some(i) => {
            assert!(got.is_some());
            let want: &[u8] = if i == 0 { "\u{e9}".as_bytes() } else { b"a" };
            let ok = match got.as_ref().unwrap().0 {
                ValueRepr::SmallStr(ref s) => s.as_str().as_bytes() == want,
                ValueRepr::String(ref s, _) => s.as_bytes() == want,
                _ => false,
            };
            assert!(ok);
        }
        None => assert!(got.is_none()),
    }
    kani::cover!(got.is_some() && idx == -2);
    kani::cover!(got.is_none() && idx == -3);
    core::mem::forget((got, v, key));
}

// @verif-block props=C09,C01 tier=quick cap=900 group=core doc=subscript_v[i]_on_a_string_/_byte_string_of_length_0..=4_with_ANY_i64_index:_Python's_rule_(element_i_mod_len_for_-len<=i<len,_undefined_otherwise),_never_a_panic
index_harness!(c09_index_str, 4, mk_str); // tier=thorough cap=3600
index_harness!(c09_index_bytes, 4, mk_bytes);
// @verif-end

// ---------------------------------------------------------------------------
// C16: Serde round trip of scalar payloads (group `serde` = base features + deserialization).
// ---------------------------------------------------------------------------
#[cfg(feature = "deserialization")]
macro_rules! serde_roundtrip_harness {
    ($name:ident, $t:ty) => {
        #[kani::proof]
        #[kani::unwind(6)]
        #[kani::stub(alloc::fmt::format, crate::verif_common::format_stub)]
        fn $name() {
            let x: $t = kani::any();
            let v = serialize::transform(&x);
            let back = <$t as serde::Deserialize>::deserialize(&v);
            match back {
                Ok(y) => assert!(y == x),
                Err(_) => assert!(false),
            }
            // and through an Option: Some(x) comes back as Some(x)
            let o: Option<$t> = Some(x);
            let vo = serialize::transform(&o);
            let bo = <Option<$t> as serde::Deserialize>::deserialize(&vo);
            match bo {
                Ok(Some(y)) => assert!(y == x),
                _ => assert!(false),
            }
            kani::cover!(true);
            core::mem::forget((v, vo));
        }
    };
}

// C16 is claimed narrowly (see MANIFEST): only the two 64-bit harnesses finish (5 s each); bool, char and the
// narrower integers go through serde's range-check error paths (Display of `Unexpected`) and time out at 900 s.
// @verif-block props=C16 tier=quick cap=900 group=serde doc=Value::from_serialize(x)_deserialised_back_into_the_same_type_yields_x_for_EVERY_value_of_the_listed_scalar_type,_directly_and_wrapped_in_Some
#[cfg(feature = "deserialization")]
serde_roundtrip_harness!(c16_roundtrip_u64, u64);
#[cfg(feature = "deserialization")]
serde_roundtrip_harness!(c16_roundtrip_i64, i64);
// @verif-end


// ---------------------------------------------------------------------------
// C01: the Python-style string repr (used when a string is printed inside a list / map) slices the text at
// character boundaries - also behind a control character that takes more than one byte.
// ---------------------------------------------------------------------------
struct ReprOf<'a>(&'a str);
impl core::fmt::Display for ReprOf<'_> {
    fn fmt(&self, f: &mut core::fmt::Formatter<'_>) -> core::fmt::Result {
        python_string_debug_fmt(self.0, f)
    }
}

struct ReprSink {
    buf: [u8; 16],
    len: usize,
}
impl core::fmt::Write for ReprSink {
    fn write_str(&mut self, s: &str) -> core::fmt::Result {
        let b = s.as_bytes();
        let mut i = 0;
        while i < b.len() {
            if self.len < 16 {
                self.buf[self.len] = b[i];
            }
            self.len += 1;
            i += 1;
        }
        Ok(())
    }
}

macro_rules! string_repr_harness {
    ($name:ident, $lead:expr, $lead_len:expr, $esc:expr) => {
        #[kani::proof]
        #[kani::unwind(18)]
        fn $name() {
            // the control character $lead (more than one byte in UTF-8) followed by ANY lower-case ASCII letter
            let c: u8 = kani::any();
            kani::assume(c >= b'a' && c <= b'z');
            let mut raw = [0u8; $lead_len + 1];
            let lead: &str = $lead;
            let mut i = 0;
            while i < $lead_len {
                raw[i] = lead.as_bytes()[i];
                i += 1;
            }
            raw[$lead_len] = c;
            let s = unsafe { core::str::from_utf8_unchecked(&raw[..]) };
            let mut sink = ReprSink { buf: [0; 16], len: 0 };
            let r = core::fmt::write(&mut sink, format_args!("{}", ReprOf(s)));
            assert!(r.is_ok());
            // 'ESC' + letter + closing quote
            let esc: &str = $esc;
            assert!(sink.len == 1 + esc.len() + 1 + 1);
            assert!(sink.buf[0] == b'\'');
            let mut k = 0;
            while k < esc.len() {
                assert!(sink.buf[1 + k] == esc.as_bytes()[k]);
                k += 1;
            }
            assert!(sink.buf[1 + esc.len()] == c);
            assert!(sink.buf[2 + esc.len()] == b'\'');
            kani::cover!(c == b'z');
            kani::cover!(c == b'a');
        }
    };
}

// @verif-block props=C01 tier=quick cap=900 group=core doc=python_string_debug_fmt_(the_repr_of_a_string_inside_a_printed_list_or_map)_on_a_multi-byte_control_character_followed_by_ANY_lower-case_letter:_no_slice_inside_a_character,_output_is_quote_+_escape_+_letter_+_quote
string_repr_harness!(c01_string_repr_after_nel, "\u{85}", 2, "\\x85");
string_repr_harness!(c01_string_repr_after_c1_control, "\u{9f}", 2, "\\x9f");
// @verif-end

// @verif props=C12 tier=quick cap=900 group=core fns=Value::get_path
/// An attribute path (the `attribute=` argument of map / selectattr / sort / groupby ...) applied to an UNDEFINED
/// value is an undefined-attribute error for EVERY one-letter path; on a defined value without that attribute
/// it is Ok(undefined) - the lookup the VM performs for `v.x`.
#[kani::proof]
#[kani::unwind(4)]
#[kani::stub(alloc::fmt::format, crate::verif_common::format_stub)]
fn c12_get_path_on_undefined_is_an_error() {
    let c: u8 = kani::any();
    kani::assume(c >= b'a' && c <= b'z');
    let buf = [c];
    let path = core::str::from_utf8(&buf).unwrap();
    let r = Value::UNDEFINED.get_path(path);
    assert!(r.is_err());
    core::mem::forget(r);
    let r2 = Value::from(7i64).get_path(path);
    match &r2 {
        Ok(v) => assert!(v.is_undefined()),
        Err(_) => assert!(false),
    }
    core::mem::forget(r2);
    kani::cover!(c == b'q');
    kani::cover!(c == b'a');
}

#[cfg(test)]
mod playback {
    use super::*;
    include!("/verif/.build/playback/value_mod.rs");
}
