#![cfg(all(feature = "builtins", feature = "macros", feature = "multi_template", feature = "adjacent_loop_items", feature = "fuel", feature = "loop_controls"))]
// Kani harnesses for minijinja/src/compiler/parser.rs (included under cfg(kani)).
#![allow(unused_imports)]
use super::*;
use crate::verif_common::*;

fn sym_span() -> Span {
    let s = Span {
        start_line: kani::any(),
        start_col: kani::any(),
        start_offset: kani::any(),
        end_line: kani::any(),
        end_col: kani::any(),
        end_offset: kani::any(),
    };
    // a span as the lexer produces them: it does not end before it starts
    kani::assume(s.start_offset <= s.end_offset);
    kani::assume(s.start_line <= s.end_line);
    kani::assume(s.start_line < s.end_line || s.start_col <= s.end_col);
    s
}

// @verif props=C14,C01 tier=quick cap=600 group=core fns=TokenStream::expand_span
/// Every node span the parser builds is `expand_span(start of the node)`: the span of the node's first token,
/// stretched to the end of the last consumed token.  For ANY two well-formed spans - the node's first token and
/// the last consumed token, which lies BEFORE the node when the node consumed nothing (an empty assignment
/// target as in `{% for in x %}`) - the result is well formed: its end is not before its start, so the byte
/// range reported with an error is a valid slice and the error can be rendered.
#[kani::proof]
#[kani::unwind(4)]
fn c14_expanded_span_is_well_formed() {
    let first = sym_span();
    let last = sym_span();
    // positions in one source are ordered consistently: a later byte offset is never on an earlier line, and on
    // the same line never in an earlier column
    let last_end_after_first_start = last.end_offset >= first.start_offset;
    let last_end_pos_after = last.end_line > first.start_line || (last.end_line == first.start_line && last.end_col >= first.start_col);
    kani::assume(last_end_after_first_start == last_end_pos_after);
    let stream = TokenStream {
        tokenizer: Tokenizer::new("", "f", false, SyntaxConfig::default(), WhitespaceConfig::default()),
        current: Ok(None),
        last_span: last,
    };
    let sp = stream.expand_span(first);
    assert!(sp.start_offset == first.start_offset && sp.start_line == first.start_line && sp.start_col == first.start_col);
    assert!(sp.start_offset <= sp.end_offset);
    assert!(sp.start_line < sp.end_line || (sp.start_line == sp.end_line && sp.start_col <= sp.end_col));
    kani::cover!(last.end_offset < first.start_offset);
    kani::cover!(last.end_offset > first.end_offset);
    core::mem::forget(stream);
}

#[cfg(test)]
mod playback {
    use super::*;
    include!("/verif/.build/playback/compiler_parser.rs");
}
