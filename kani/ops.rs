// Kani harnesses for minijinja/src/value/ops.rs (private kernels).
// Included from the bottom of that file under cfg(kani).
use super::*;
use crate::verif_common::*;

// ---------------------------------------------------------------- C09 slices

// @verif props=C09 tier=quick cap=300 group=core fns=ops::get_offset_and_len
/// Forward slices: the (offset, len) computed by get_offset_and_len, combined
/// with the meaning of `skip(off).take(n).step_by(step)`, selects exactly the
/// indices CPython selects.  len <= 6, start/stop: any Option<i64>, step >= 1.
#[kani::proof]
#[kani::unwind(9)]
fn c09_forward_matches_python() {
    let len: usize = kani::any();
    kani::assume(len <= 6);
    let start: Option<i64> = kani::any();
    let stop: Option<i64> = kani::any();
    let step: i64 = kani::any();
    kani::assume(step >= 1);
    let (off, n) = get_offset_and_len(start, stop, || len);
    let (first, st, count) = py_slice(len, start, stop, step);
    // indices selected by iter.skip(off).take(n).step_by(step) over 0..len
    let mut k: u64 = 0;
    let mut i: usize = 0;
    while i < len {
        // element i of the input is selected iff off <= i < off+n and (i-off) % step == 0
        let sel = i >= off && ((i - off) as u128) < n as u128 && ((i - off) as u128) % (step as u128) == 0;
        let want = k < count && (i as i128) == first + (k as i128) * st;
        assert!(sel == want);
        if sel {
            k += 1;
        }
        i += 1;
    }
    assert!(k == count);
    kani::cover!(count == 3 && step == 2);
    kani::cover!(start.is_some() && start.unwrap() < -6);
    kani::cover!(stop == Some(i64::MIN));
}

// @verif props=C09,C01 tier=quick cap=300 group=core fns=ops::range_step_backwards
/// Backward slices: range_step_backwards yields exactly CPython's index
/// sequence.  len <= 6, start/stop: any Option<i64>, step in [-(2^63-1), -1].
/// (step == i64::MIN is decided through ops::slice itself, see
/// c09_slice_step_min_*.)
#[kani::proof]
#[kani::unwind(9)]
fn c09_backward_matches_python() {
    let len: usize = kani::any();
    kani::assume(len <= 6);
    let start: Option<i64> = kani::any();
    let stop: Option<i64> = kani::any();
    let step: i64 = kani::any();
    kani::assume(step < 0 && step != i64::MIN);
    let (first, st, count) = py_slice(len, start, stop, step);
    let it = range_step_backwards(start, stop, step.unsigned_abs() as usize, len);
    let mut k: u64 = 0;
    for idx in it {
        assert!(k < count);
        assert!(idx < len);
        assert!((idx as i128) == first + (k as i128) * st);
        k += 1;
        if k > 7 {
            break;
        }
    }
    assert!(k == count);
    kani::cover!(count == 3 && step == -2);
    kani::cover!(len == 0);
    kani::cover!(stop == Some(0) && count > 0);
    kani::cover!(start.is_some() && stop.is_some() && stop.unwrap() > start.unwrap() && start.unwrap() >= 0);
}

#[cfg(test)]
mod playback {
    use super::*;
    include!("/verif/.build/playback/ops.rs");
}
