#![cfg(all(feature = "builtins", feature = "macros", feature = "multi_template", feature = "adjacent_loop_items", feature = "fuel", feature = "loop_controls"))]
// Kani harnesses for minijinja/src/value/ops.rs (private kernels).
// Included from the bottom of that file under cfg(kani).
use super::*;
use crate::verif_common::*;

// ---------------------------------------------------------------- C09 slices

// @verif props=C09 tier=quick cap=300 group=core fns=ops::get_offset_and_len
/// Forward slices: the (offset, len) computed by get_offset_and_len, combined
/// with the meaning of `skip(off).take(n).step_by(step)`, selects exactly the
/// indices CPython selects.  len <= 6, start/stop: any Option<i64>, step >= 1.
#[kani::proof]
#[kani::unwind(9)]
fn c09_forward_matches_python() {
    let len: usize = kani::any();
    kani::assume(len <= 6);
    let start: Option<i64> = kani::any();
    let stop: Option<i64> = kani::any();
    let step: i64 = kani::any();
    kani::assume(step >= 1);
    let (off, n) = get_offset_and_len(start, stop, || len);
    let (first, st, count) = py_slice(len, start, stop, step);
    // indices selected by iter.skip(off).take(n).step_by(step) over 0..len
    let mut k: u64 = 0;
    let mut i: usize = 0;
    while i < len {
        // element i of the input is selected iff off <= i < off+n and (i-off) % step == 0
        let sel = i >= off && ((i - off) as u128) < n as u128 && ((i - off) as u128) % (step as u128) == 0;
        let want = k < count && (i as i128) == first + (k as i128) * st;
        assert!(sel == want);
        if sel {
            k += 1;
        }
        i += 1;
    }
    assert!(k == count);
    kani::cover!(count == 3 && step == 2);
    kani::cover!(start.is_some() && start.unwrap() < -6);
    kani::cover!(stop == Some(i64::MIN));
}

macro_rules! slice_bytes_e2e_harness {
    ($name:ident, $step:expr) => {
        #[kani::proof]
        #[kani::unwind(8)]
        #[kani::stub(alloc::fmt::format, crate::verif_common::format_stub)]
        #[kani::stub(alloc::sync::Arc::drop_slow, crate::verif_common::arc_drop_slow_leak)]
        fn $name() {
            // the dispatcher itself: `b[start:stop:step]` on the byte string 0x0a 0x0b 0x0c for ANY i64 start and
            // stop (each may also be omitted) and the listed step
            let has_start: bool = kani::any();
            let has_stop: bool = kani::any();
            let a: i64 = kani::any();
            let b: i64 = kani::any();
            let start = if has_start { Some(a) } else { None };
            let stop = if has_stop { Some(b) } else { None };
            let v = Value::from_bytes(vec![10u8, 11, 12]);
            let vs = if has_start { Value::from(a) } else { Value::from(()) };
            let ve = if has_stop { Value::from(b) } else { Value::from(()) };
            let r = slice(v, vs, ve, Value::from($step as i64));
            let (first, st, count) = py_slice(3, start, stop, $step);
            match r {
                Ok(Value(ValueRepr::Bytes(ref out))) => {
                    // same kind, exactly CPython's selection
                    assert!(out.len() as u64 == count);
                    let mut k = 0usize;
                    while k < out.len() {
                        let idx = first + (k as i128) * st;
                        assert!(idx >= 0 && idx < 3 && out[k] == 10 + idx as u8);
                        k += 1;
                    }
                }
                _ => assert!(false),
            }
            kani::cover!(count == 2);
            kani::cover!(count == 0 && has_start && a > 3);
            core::mem::forget(r);
        }
    };
}

// @verif props=C09,C01 tier=quick cap=900 group=core fns=ops::slice
/// `b[start:]` on a 2-byte byte string for ANY i64 start (the bytes arm of ops::slice end to end): no panic for
/// offsets beyond either end, and the result is the byte string CPython selects.
#[kani::proof]
#[kani::unwind(5)]
#[kani::stub(alloc::fmt::format, crate::verif_common::format_stub)]
#[kani::stub(alloc::sync::Arc::drop_slow, crate::verif_common::arc_drop_slow_leak)]
fn c09_slice_bytes_from_any_start() {
    let a: i64 = kani::any();
    let v = Value::from_bytes(vec![10u8, 11]);
    let r = slice(v, Value::from(a), Value::from(()), Value::from(()));
    let (first, _st, count) = py_slice(2, Some(a), None, 1);
    match r {
        Ok(Value(ValueRepr::Bytes(ref out))) => {
            assert!(out.len() as u64 == count);
            if out.len() > 0 {
                assert!(first >= 0 && first < 2 && out[0] == 10 + first as u8);
            }
        }
        _ => assert!(false),
    }
    kani::cover!(count == 0 && a > 2);
    kani::cover!(count == 2 && a < -2);
    kani::cover!(count == 1);
    core::mem::forget(r);
}

// @verif-block props=C09,C01 cap=900 group=core doc=ops::slice_end_to_end_on_a_3-byte_byte_string_for_ANY_i64_start/stop_(or_omitted)_and_the_listed_step:_the_result_is_a_byte_string_holding_exactly_CPython's_selection_-_no_panic_for_offsets_beyond_the_end
slice_bytes_e2e_harness!(c09_slice_bytes_e2e_step1, 1); // tier=experimental
slice_bytes_e2e_harness!(c09_slice_bytes_e2e_step2, 2); // tier=experimental
slice_bytes_e2e_harness!(c09_slice_bytes_e2e_step_m1, -1); // tier=experimental
// @verif-end

// @verif props=C09,C01 tier=quick cap=300 group=core fns=ops::range_step_backwards
/// Backward slices: range_step_backwards yields exactly CPython's index
/// sequence.  len <= 6, start/stop: any Option<i64>, step in [-(2^63-1), -1].
/// (step == i64::MIN is decided through ops::slice itself, see
/// c09_slice_step_min_*.)
#[kani::proof]
#[kani::unwind(9)]
fn c09_backward_matches_python() {
    let len: usize = kani::any();
    kani::assume(len <= 6);
    let start: Option<i64> = kani::any();
    let stop: Option<i64> = kani::any();
    let step: i64 = kani::any();
    kani::assume(step < 0 && step != i64::MIN);
    let (first, st, count) = py_slice(len, start, stop, step);
    let it = range_step_backwards(start, stop, step.unsigned_abs() as usize, len);
    let mut k: u64 = 0;
    for idx in it {
        assert!(k < count);
        assert!(idx < len);
        assert!((idx as i128) == first + (k as i128) * st);
        k += 1;
        if k > 7 {
            break;
        }
    }
    assert!(k == count);
    kani::cover!(count == 3 && step == -2);
    kani::cover!(len == 0);
    kani::cover!(stop == Some(0) && count > 0);
    kani::cover!(start.is_some() && stop.is_some() && stop.unwrap() > start.unwrap() && start.unwrap() >= 0);
}

// ------------------------------------------------- C08 integer arithmetic

/// Exact mathematical value of an integer-valued `Value`, read off its representation.
fn z_of(v: &Value) -> Option<Z> {
    match v.0 {
        ValueRepr::U64(x) => Some(Z::from_u128(x as u128)),
        ValueRepr::I64(x) => Some(Z::from_i128(x as i128)),
        ValueRepr::U128(x) => Some(Z::from_u128(x.0)),
        ValueRepr::I128(x) => Some(Z::from_i128(x.0)),
        _ => None,
    }
}

/// The C08 rule for one binary integer operation: an Ok result is an integer equal to the exact
/// mathematical result (`exact`; None = magnitude beyond 2^128), and an Err is only allowed when an
/// operand or the exact result lies outside the signed 128-bit range.
fn check_exact(a: Z, b: Z, exact: Option<Z>, res: &Result<Value, Error>) {
    match res {
        Ok(v) => {
            let got = z_of(v);
            assert!(got.is_some());
            assert!(exact.is_some());
            assert!(got.unwrap().norm() == exact.unwrap().norm());
        }
        Err(_) => {
            let fits = z_fits_i128(a) && z_fits_i128(b) && exact.map_or(false, z_fits_i128);
            assert!(!fits);
        }
    }
}

macro_rules! arith_harness {
    ($name:ident, $f:ident, $zf:ident, $ta:ty, $tb:ty) => {
        #[kani::proof]
        #[kani::unwind(3)]
        #[kani::stub(alloc::fmt::format, crate::verif_common::format_stub)]
        fn $name() {
            let x: $ta = kani::any();
            let y: $tb = kani::any();
            let (va, vb) = (Value::from(x), Value::from(y));
            let (a, b) = (z_of(&va).unwrap(), z_of(&vb).unwrap());
            let res = $f(&va, &vb);
            check_exact(a, b, $zf(a, b), &res);
            kani::cover!(res.is_ok());
            kani::cover!(matches!(res, Ok(ref v) if matches!(v.0, ValueRepr::I128(_))));
            core::mem::forget(res);
            core::mem::forget(va);
            core::mem::forget(vb);
        }
    };
}

// @verif-block props=C08,C01 tier=quick cap=300 group=core doc=ops::add/sub/mul_on_two_integers_of_the_listed_representations,_payloads_fully_symbolic:_Ok(v)_=>_v_is_the_mathematically_exact_result_(sign+u128_magnitude_reference),_Err_only_if_an_operand_or_the_result_is_outside_[-2^127,2^127),_no_panic
arith_harness!(c08_add_u64_u64, add, z_add, u64, u64);
arith_harness!(c08_add_u64_i64, add, z_add, u64, i64);
arith_harness!(c08_add_i64_u64, add, z_add, i64, u64);
arith_harness!(c08_add_i64_i64, add, z_add, i64, i64);
arith_harness!(c08_add_i64_i128, add, z_add, i64, i128);
arith_harness!(c08_add_i128_i64, add, z_add, i128, i64);
arith_harness!(c08_add_i128_i128, add, z_add, i128, i128);
arith_harness!(c08_add_u128_u128, add, z_add, u128, u128); // tier=thorough cap=3000
arith_harness!(c08_add_u128_i128, add, z_add, u128, i128); // tier=thorough cap=3000
arith_harness!(c08_add_i128_u128, add, z_add, i128, u128); // tier=thorough cap=3000
arith_harness!(c08_add_u64_u128, add, z_add, u64, u128); // tier=thorough cap=3000
arith_harness!(c08_add_u128_i64, add, z_add, u128, i64); // tier=thorough cap=3000
arith_harness!(c08_add_u64_i128, add, z_add, u64, i128); // tier=thorough
arith_harness!(c08_add_i128_u64, add, z_add, i128, u64); // tier=thorough
arith_harness!(c08_add_i64_u128, add, z_add, i64, u128); // tier=thorough
arith_harness!(c08_add_u128_u64, add, z_add, u128, u64); // tier=thorough
arith_harness!(c08_sub_u64_u64, sub, z_sub, u64, u64);
arith_harness!(c08_sub_u64_i64, sub, z_sub, u64, i64);
arith_harness!(c08_sub_i64_u64, sub, z_sub, i64, u64);
arith_harness!(c08_sub_i64_i64, sub, z_sub, i64, i64);
arith_harness!(c08_sub_i128_i128, sub, z_sub, i128, i128);
arith_harness!(c08_sub_u128_u128, sub, z_sub, u128, u128);
arith_harness!(c08_sub_u128_i128, sub, z_sub, u128, i128);
arith_harness!(c08_sub_i128_u128, sub, z_sub, i128, u128);
arith_harness!(c08_sub_i64_i128, sub, z_sub, i64, i128); // tier=thorough
arith_harness!(c08_sub_i128_i64, sub, z_sub, i128, i64); // tier=thorough
arith_harness!(c08_sub_u64_u128, sub, z_sub, u64, u128); // tier=thorough
arith_harness!(c08_sub_u128_u64, sub, z_sub, u128, u64); // tier=thorough
arith_harness!(c08_sub_u64_i128, sub, z_sub, u64, i128); // tier=thorough
arith_harness!(c08_sub_i128_u64, sub, z_sub, i128, u64); // tier=thorough
arith_harness!(c08_sub_i64_u128, sub, z_sub, i64, u128); // tier=thorough
arith_harness!(c08_sub_u128_i64, sub, z_sub, u128, i64); // tier=thorough
arith_harness!(c08_mul_u64_u64, mul, z_mul, u64, u64); // cap=900
arith_harness!(c08_mul_i64_i64, mul, z_mul, i64, i64); // cap=900
arith_harness!(c08_mul_u64_i64, mul, z_mul, u64, i64); // cap=900
arith_harness!(c08_mul_i64_u64, mul, z_mul, i64, u64); // cap=900
arith_harness!(c08_mul_i128_i128, mul, z_mul, i128, i128); // tier=thorough cap=3600
arith_harness!(c08_mul_u128_u128, mul, z_mul, u128, u128); // tier=thorough cap=3600
arith_harness!(c08_mul_i64_i128, mul, z_mul, i64, i128); // tier=thorough cap=3600
arith_harness!(c08_mul_u128_i64, mul, z_mul, u128, i64); // tier=thorough cap=3600
// @verif-end

macro_rules! neg_harness {
    ($name:ident, $ta:ty, $excl:expr, $only:expr) => {
        #[kani::proof]
        #[kani::unwind(3)]
        #[kani::stub(alloc::fmt::format, crate::verif_common::format_stub)]
        fn $name() {
            let x: $ta = kani::any();
            // known finding KF-C08-neg-2p127: region x == 2^127 (only reachable as u128)
            let in_region = (x as u128) == MIN_I128_AS_POS_U128 && $excl;
            kani::assume(in_region == $only);
            let va = Value::from(x);
            let a = z_of(&va).unwrap();
            let res = neg(&va);
            check_exact(a, a, Some(z_neg(a)), &res);
            kani::cover!(res.is_ok());
            core::mem::forget(res);
            core::mem::forget(va);
        }
    };
}

// @verif-block props=C08,C01 tier=quick cap=300 group=core doc=ops::neg_on_an_integer_of_the_listed_representation,_payload_fully_symbolic:_Ok(v)_=>_v_==_-x_exactly,_Err_only_if_x_or_-x_is_outside_the_signed_128-bit_range
neg_harness!(c08_neg_u64, u64, false, false);
neg_harness!(c08_neg_i64, i64, false, false);
neg_harness!(c08_neg_i128, i128, false, false);
neg_harness!(c08_neg_u128, u128, true, false);
neg_harness!(c08_neg_u128_known_2p127, u128, true, true); // known=KF-C08-neg-2p127 props=C08
// @verif-end

/// Euclid for 64-bit operands: q = a // b and r = a % b are both Ok exactly when b != 0 and equal
/// i128::div_euclid / rem_euclid of the exact operands (std's contract for those: q*b + r == a, 0 <= r < |b|).
macro_rules! euclid_harness {
    ($name:ident, $ta:ty, $tb:ty) => {
        #[kani::proof]
        #[kani::unwind(3)]
        #[kani::stub(alloc::fmt::format, crate::verif_common::format_stub)]
        fn $name() {
            let x: $ta = kani::any();
            let y: $tb = kani::any();
            let (va, vb) = (Value::from(x), Value::from(y));
            let (xi, yi) = (x as i128, y as i128);
            let q = int_div(&va, &vb);
            let r = rem(&va, &vb);
            if yi == 0 {
                assert!(q.is_err() && r.is_err());
            } else {
                // 64-bit operands: quotient and remainder always fit, so both must succeed
                assert!(q.is_ok() && r.is_ok());
                let (zq, zr) = (z_of(q.as_ref().unwrap()).unwrap(), z_of(r.as_ref().unwrap()).unwrap());
                assert!(zq.norm() == Z::from_i128(xi.div_euclid(yi)).norm());
                assert!(zr.norm() == Z::from_i128(xi.rem_euclid(yi)).norm());
                assert!(!zr.neg && zr.mag < yi.unsigned_abs());
            }
            kani::cover!(yi != 0 && xi < 0 && yi < 0);
            kani::cover!(yi == 0);
            core::mem::forget((q, r, va, vb));
        }
    };
}

/// The Euclidean identity itself, checked by multiplication on narrow operands (all i8 x i8 pairs stored
/// as I64): (a // b) * b + a % b == a and 0 <= a % b < |b|.
macro_rules! euclid_identity_harness {
    ($name:ident, $t:ty) => {
        #[kani::proof]
        #[kani::unwind(3)]
        #[kani::stub(alloc::fmt::format, crate::verif_common::format_stub)]
        fn $name() {
            let x: $t = kani::any();
            let y: $t = kani::any();
            kani::assume(y != 0);
            let (va, vb) = (Value::from(x as i64), Value::from(y as i64));
            let q = int_div(&va, &vb);
            let r = rem(&va, &vb);
            assert!(q.is_ok() && r.is_ok());
            let (zq, zr) = (z_of(q.as_ref().unwrap()).unwrap(), z_of(r.as_ref().unwrap()).unwrap());
            let (qi, ri) = (zq.to_i128().unwrap() as i64, zr.to_i128().unwrap() as i64);
            assert!(qi * (y as i64) + ri == x as i64);
            assert!(ri >= 0 && ri < (y as i64).abs());
            kani::cover!(x < 0 && y < 0 && ri != 0);
            kani::cover!(x < 0 && y > 0 && ri != 0);
            core::mem::forget((q, r, va, vb));
        }
    };
}

// @verif-block props=C08,C01 tier=quick cap=900 group=core doc=Euclidean_convention:_a//b_and_a%b_equal_i128::div_euclid/rem_euclid_of_the_exact_operands_(64-bit_operands_fully_symbolic),_division_by_zero_is_an_error_for_both;_and_on_all_i8_pairs_the_identity_(a//b)*b+a%b==a,_0<=a%b<|b|_is_checked_by_multiplication
euclid_harness!(c08_euclid_i64_i64, i64, i64); // tier=thorough cap=3600
euclid_harness!(c08_euclid_u64_i64, u64, i64); // tier=thorough
euclid_harness!(c08_euclid_i64_u64, i64, u64); // tier=thorough
euclid_identity_harness!(c08_euclid_identity_i8, i8); // cap=600
// @verif-end

// @verif props=C08,C01 tier=quick cap=600 group=core fns=ops::int_div,ops::rem
/// 128-bit corner of // and %: for every i128 pair the only failures are b == 0 and i128::MIN // -1 (whose
/// result 2^127 is outside the signed range); a successful // or % never panics and % is in [0, |b|).
#[kani::proof]
#[kani::unwind(3)]
#[kani::stub(alloc::fmt::format, crate::verif_common::format_stub)]
fn c08_divrem_i128_failures() {
    let x: i128 = kani::any();
    let y: i128 = kani::any();
    let (va, vb) = (Value::from(x), Value::from(y));
    let q = int_div(&va, &vb);
    let r = rem(&va, &vb);
    let overflow = x == i128::MIN && y == -1;
    assert!(q.is_ok() == (y != 0 && !overflow));
    if let Ok(ref rv) = r {
        let zr = z_of(rv).unwrap();
        assert!(!zr.neg && zr.mag < y.unsigned_abs());
    } else {
        assert!(y == 0 || overflow);
    }
    kani::cover!(overflow);
    kani::cover!(q.is_ok() && x < 0 && y < 0);
    core::mem::forget((q, r, va, vb));
}

macro_rules! pow_harness {
    ($name:ident, $ta:ty, $e:expr) => {
        #[kani::proof]
        #[kani::unwind(8)]
        #[kani::stub(alloc::fmt::format, crate::verif_common::format_stub)]
        fn $name() {
            let x: $ta = kani::any();
            let va = Value::from(x);
            let ve = Value::from($e as i64);
            let a = z_of(&va).unwrap();
            let mut exact = Some(Z::from_u128(1));
            let mut i = 0;
            while i < $e {
                exact = match exact {
                    Some(p) => z_mul(p, a),
                    None => None,
                };
                i += 1;
            }
            let res = pow(&va, &ve);
            check_exact(a, Z::from_i128($e as i128), exact, &res);
            kani::cover!(res.is_ok());
            kani::cover!(res.is_err());
            core::mem::forget((res, va, ve));
        }
    };
}

// @verif-block props=C08,C01 tier=thorough cap=3600 group=core doc=ops::pow(base,e)_for_a_fully_symbolic_64-bit_base_and_the_listed_exponent:_exact_or_Err,_Err_only_when_the_power_leaves_the_signed_128-bit_range
pow_harness!(c08_pow_i64_e2, i64, 2);
pow_harness!(c08_pow_i64_e3, i64, 3);
pow_harness!(c08_pow_u64_e2, u64, 2);
// @verif-end

// @verif props=C08,C01 tier=quick cap=600 group=core fns=ops::pow
/// pow with a negative or > u32::MAX exponent is an error, never a panic or a wrong value (base, exponent: any i64).
#[kani::proof]
#[kani::unwind(3)]
#[kani::stub(alloc::fmt::format, crate::verif_common::format_stub)]
fn c08_pow_bad_exponent_is_error() {
    let x: i64 = kani::any();
    let e: i64 = kani::any();
    kani::assume(e < 0 || e > u32::MAX as i64);
    let (va, ve) = (Value::from(x), Value::from(e));
    let res = pow(&va, &ve);
    assert!(res.is_err());
    kani::cover!(e < 0);
    kani::cover!(e > 0);
    core::mem::forget((res, va, ve));
}

macro_rules! pow_trivial_base_harness {
    ($name:ident, $base:expr) => {
        #[kani::proof]
        #[kani::unwind(34)]
        #[kani::stub(alloc::fmt::format, crate::verif_common::format_stub)]
        fn $name() {
            let e: i64 = kani::any();
            kani::assume(e < 0 || e > u32::MAX as i64);
            let (va, ve) = (Value::from($base as i64), Value::from(e));
            let res = pow(&va, &ve);
            assert!(res.is_err());
            kani::cover!(e < 0);
            kani::cover!(e > 0);
            core::mem::forget((res, va, ve));
        }
    };
}

// @verif-block props=C08,C01 tier=quick cap=600 group=core doc=ops::pow_for_the_bases_whose_powers_never_overflow_(0,_1,_-1)_and_ANY_i64_exponent_that_is_negative_or_above_u32::MAX:_still_an_error_-_the_exponent_is_not_clamped_into_range_(unwind_34_=_the_32_squaring_steps_checked_pow_would_take_for_u32::MAX)
pow_trivial_base_harness!(c08_pow_bad_exponent_base_0, 0);
pow_trivial_base_harness!(c08_pow_bad_exponent_base_1, 1);
pow_trivial_base_harness!(c08_pow_bad_exponent_base_m1, -1);
// @verif-end

// ---------------------------------------------------------------------------
// C01: allocations whose size the template chooses - sequence repetition.
// ---------------------------------------------------------------------------

macro_rules! repeat_huge_harness {
    ($name:ident, $tuple:expr) => {
        #[kani::proof]
        #[kani::unwind(5)]
        #[kani::stub(alloc::fmt::format, crate::verif_common::format_stub)]
        #[kani::stub(std::hash::RandomState::new, crate::verif_common::random_state_stub)]
        fn $name() {
            // `seq * n` for a 2-element tuple / list and ANY count n >= 2^60 (the range in which len * n bytes
            // exceed what Vec::with_capacity / usize arithmetic can represent): an error, never a panic
            let n: u64 = kani::any();
            kani::assume(n >= (1u64 << 60));
            let items = vec![Value::from(1i64), Value::from(2i64)];
            let seq = if $tuple { Value::from(Tuple::from(items)) } else { Value::from(items) };
            let count = Value::from(n);
            let r = mul(&seq, &count);
            match r {
                Ok(ref v) => {
                    // a lazily repeated sequence may be returned only if its length is representable
                    assert!(!$tuple);
                    let _ = v;
                    assert!(n < (1u64 << 63));
                }
                Err(ref e) => assert!(matches!(e.kind(), ErrorKind::InvalidOperation)),
            }
            kani::cover!(n == u64::MAX);
            kani::cover!(n == (1u64 << 62));
            core::mem::forget((r, seq, count));
        }
    };
}

// @verif-block props=C01 tier=experimental cap=900 group=core doc=ops::mul(sequence,n)_for_a_2-element_tuple_/_list_and_ANY_repeat_count_n>=2^60:_returns_an_error_(or,_for_lists,_a_lazy_iterable_whose_length_2n_is_representable)_-_never_a_capacity-overflow_or_multiplication-overflow_panic
repeat_huge_harness!(c01_repeat_tuple_huge_count, true);
repeat_huge_harness!(c01_repeat_list_huge_count, false);
// @verif-end


// ---------------------------------------------------------------------------
// C07: `x in [y]` agrees with `x == y` (membership is defined by equality, also across kinds).
// ---------------------------------------------------------------------------
macro_rules! in_agrees_with_eq_harness {
    ($name:ident, $elem:expr, $needle:expr) => {
        #[kani::proof]
        #[kani::unwind(5)]
        #[kani::stub(alloc::fmt::format, crate::verif_common::format_stub)]
        #[kani::stub(alloc::sync::Arc::drop_slow, crate::verif_common::arc_drop_slow_leak)]
        fn $name() {
            let n: i64 = kani::any();
            let mk_elem: fn(i64) -> Value = $elem;
            let mk_needle: fn(i64) -> Value = $needle;
            let elem = mk_elem(n);
            let needle = mk_needle(n);
            let equal = elem == needle;
            let list = Value::from(vec![mk_elem(n)]);
            let r = contains(&list, &needle);
            match r {
                Ok(Value(ValueRepr::Bool(b))) => assert!(b == equal),
                _ => assert!(false),
            }
            kani::cover!(equal);
            kani::cover!(!equal);
            core::mem::forget((r, list, elem, needle));
        }
    };
}

// @verif-block props=C07 tier=experimental cap=900 group=core doc=ops::contains_on_a_one-element_list:_`needle_in_[elem]`_is_exactly_`elem_==_needle`_for_the_listed_kinds_of_element_and_needle_built_from_ANY_i64_n_(membership_follows_equality,_also_where_equality_coerces_across_kinds)
in_agrees_with_eq_harness!(c07_in_list_int_vs_bool, |n| Value::from(n), |n| Value::from(n == 1));
in_agrees_with_eq_harness!(c07_in_list_bool_vs_int, |n| Value::from(n % 2 == 0), |n| Value::from(n));
in_agrees_with_eq_harness!(c07_in_list_int_vs_int, |n| Value::from(n), |n| Value::from(n ^ 1));
// @verif-end

#[cfg(test)]
mod playback {
    use super::*;
    include!("/verif/.build/playback/ops.rs");
}
