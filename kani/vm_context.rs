#![cfg(all(feature = "builtins", feature = "macros", feature = "multi_template", feature = "adjacent_loop_items", feature = "fuel", feature = "loop_controls"))]
// Kani harnesses for minijinja/src/vm/context.rs (included under cfg(kani)).
#![allow(unused_imports)]
use super::*;
use crate::verif_common::*;

fn leaked_env(limit: usize) -> &'static Environment<'static> {
    let mut env = Environment::empty();
    env.set_recursion_limit(limit);
    Box::leak(Box::new(env))
}

// @verif props=C11 tier=quick cap=600 group=core fns=Context::{incr_depth,decr_depth,depth,check_depth},Environment::set_recursion_limit
/// One inductive step of the depth accounting from an ARBITRARY state satisfying the invariant
/// depth() <= recursion_limit <= 500: after incr_depth(delta) (any delta up to limit+16, which covers the
/// include cost 10, the macro cost 4 and eval_macro's `caller depth + 4`) either Ok and depth() == old + delta
/// <= limit, or Err("recursion limit exceeded") and the depth is unchanged; decr_depth undoes it exactly;
/// set_recursion_limit(n) never stores more than 500 for ANY n.
#[kani::proof]
#[kani::unwind(4)]
#[kani::stub(std::hash::RandomState::new, crate::verif_common::random_state_stub)]
fn c11_depth_guard_inductive_step() {
    let requested: usize = kani::any();
    let env = leaked_env(requested);
    let limit = env.recursion_limit();
    assert!(limit <= 500);
    assert!(limit == requested || requested > 500);
    let mut ctx = Context::new(env);
    assert!(ctx.recursion_limit == limit);
    let pre: usize = kani::any();
    kani::assume(pre <= limit);
    ctx.outer_stack_depth = pre;
    assert!(ctx.depth() == pre);
    let delta: usize = kani::any();
    kani::assume(delta <= limit + 16);
    let r = ctx.incr_depth(delta);
    match r {
        Ok(()) => {
            assert!(ctx.depth() == pre + delta);
            assert!(ctx.depth() <= limit);
            ctx.decr_depth(delta);
            assert!(ctx.depth() == pre);
        }
        Err(ref e) => {
            assert!(pre + delta > limit);
            assert!(ctx.depth() == pre);
            assert!(matches!(e.kind(), ErrorKind::InvalidOperation));
        }
    }
    kani::cover!(r.is_ok() && delta == 10);
    kani::cover!(r.is_err() && delta == 4);
    kani::cover!(requested > 500);
    core::mem::forget((r, ctx));
}

// @verif props=C11 tier=quick cap=900 group=core fns=Context::{push_frame,pop_frame,depth,incr_depth} stubs=Vec::pop->leaking_model
/// push_frame - the guard every scoped construct, macro call and include passes through - from an ARBITRARY
/// accounted depth (outer depth `pre` <= limit, as left behind by includes / macro calls, plus 0..=1 frames
/// already on the stack): Ok implies depth() == old + 1 <= limit; Err implies the frame was not kept and the
/// depth is unchanged, and happens exactly when old + 1 > limit.  The frames are concrete (`undefined`
/// context, no loop state), only the depth accounting is symbolic.
#[kani::proof]
#[kani::unwind(4)]
#[kani::stub(std::hash::RandomState::new, crate::verif_common::random_state_stub)]
#[kani::stub(alloc::fmt::format, crate::verif_common::format_stub)]
#[kani::stub(alloc::vec::Vec::pop, crate::verif_common::vec_pop_leaking)]
fn c11_push_frame_counts_outer_depth() {
    let requested: usize = kani::any();
    let env = leaked_env(requested);
    let limit = env.recursion_limit();
    let mut ctx = Context::new(env);
    let pre: usize = kani::any();
    kani::assume(pre <= limit);
    ctx.outer_stack_depth = pre;
    let one_below: bool = kani::any();
    if one_below {
        let r0 = ctx.push_frame(Frame::new(Value::UNDEFINED));
        if r0.is_err() {
            assert!(pre + 1 > limit);
            assert!(ctx.depth() == pre);
        }
        core::mem::forget(r0);
    }
    let old = ctx.depth();
    assert!(old <= limit);
    let r = ctx.push_frame(Frame::new(Value::UNDEFINED));
    match r {
        Ok(()) => {
            assert!(ctx.depth() == old + 1);
            assert!(ctx.depth() <= limit);
        }
        Err(ref e) => {
            assert!(old + 1 > limit);
            assert!(ctx.depth() == old);
            assert!(matches!(e.kind(), ErrorKind::InvalidOperation));
        }
    }
    kani::cover!(r.is_ok() && pre > 0 && one_below);
    kani::cover!(r.is_err() && pre > 1 && ctx.stack.len() <= 1);
    core::mem::forget((r, ctx));
}

// @verif props=C11 tier=quick cap=600 group=core fns=Environment::set_recursion_limit,Context::new,Context::depth
/// The configured limit can never exceed 500 (the value the native-stack budget was chosen for): for ANY
/// requested limit and ANY sequence of two set_recursion_limit calls the stored limit is min(last request, 500),
/// and a fresh context starts at depth 0 with exactly that limit.
#[kani::proof]
#[kani::unwind(4)]
#[kani::stub(std::hash::RandomState::new, crate::verif_common::random_state_stub)]
fn c11_recursion_limit_is_clamped() {
    let r1: usize = kani::any();
    let r2: usize = kani::any();
    let mut env = Environment::empty();
    assert!(env.recursion_limit() == 500);
    env.set_recursion_limit(r1);
    env.set_recursion_limit(r2);
    let env: &'static Environment<'static> = Box::leak(Box::new(env));
    assert!(env.recursion_limit() == if r2 > 500 { 500 } else { r2 });
    let ctx = Context::new(env);
    assert!(ctx.depth() == 0);
    assert!(ctx.recursion_limit == env.recursion_limit());
    kani::cover!(r2 > 500);
    kani::cover!(r2 == 0);
    core::mem::forget(ctx);
}

fn int_of(v: &Option<Value>) -> i64 {
    match v {
        Some(Value(crate::value::ValueRepr::I64(x))) => *x,
        Some(_) => -1,
        None => 0,
    }
}

// @verif props=C03 tier=experimental cap=900 group=core fns=Context::load,Context::push_frame,Context::pop_frame
/// Variable resolution order on a two-frame context (an outer frame and an inner with/loop/macro frame, each
/// attached to a closure): the bindings are a (everywhere), b (inner closure, outer locals, outer closure),
/// c (outer locals, outer closure), d (outer closure only), each location holding a different value; for EVERY
/// looked-up name among {a, b, c, d, e} load returns the innermost binding in the order inner locals > inner
/// closure > outer locals > outer closure > nothing, and after pop_frame the inner frame's bindings are gone.
#[kani::proof]
#[kani::unwind(8)]
#[kani::stub(std::hash::RandomState::new, crate::verif_common::random_state_stub)]
#[kani::stub(alloc::fmt::format, crate::verif_common::format_stub)]
fn c03_context_lookup_order_and_scoping() {
    let env = leaked_env(500);
    let mut closures: Vec<Closure<'static>> = vec![Closure::new(), Closure::new()];
    for k in ["a", "b", "c", "d"] {
        closures[0].insert(k, Value::from(4i64));
    }
    for k in ["a", "b"] {
        closures[1].insert(k, Value::from(2i64));
    }
    let mut ctx = Context::new(env);
    let mut outer = Frame::new(Value::UNDEFINED);
    outer.closure_context = Some(0);
    for k in ["a", "b", "c"] {
        outer.locals.insert(k, Value::from(3i64));
    }
    let mut inner = Frame::new(Value::UNDEFINED);
    inner.closure_context = Some(1);
    inner.locals.insert("a", Value::from(1i64));
    assert!(ctx.push_frame(outer).is_ok());
    assert!(ctx.push_frame(inner).is_ok());
    let which: u8 = kani::any();
    kani::assume(which < 5);
    let key = ["a", "b", "c", "d", "e"][which as usize];
    let got = ctx.load(&closures, key);
    assert!(int_of(&got) == [1, 2, 3, 4, 0][which as usize]);
    core::mem::forget(got);
    // leaving the inner scope: its locals and its closure are no longer consulted
    let popped = ctx.pop_frame();
    core::mem::forget(popped);
    let got2 = ctx.load(&closures, key);
    assert!(int_of(&got2) == [3, 3, 3, 4, 0][which as usize]);
    core::mem::forget(got2);
    kani::cover!(which == 0);
    kani::cover!(which == 4);
    core::mem::forget((ctx, closures));
}

#[cfg(test)]
mod playback {
    use super::*;
    include!("/verif/.build/playback/vm_context.rs");
}
