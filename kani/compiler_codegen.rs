#![cfg(all(feature = "builtins", feature = "macros", feature = "multi_template", feature = "adjacent_loop_items", feature = "fuel", feature = "loop_controls"))]
// Kani harnesses for minijinja/src/compiler/codegen.rs (included under cfg(kani)).
#![allow(unused_imports)]
use super::*;
use crate::verif_common::*;


use crate::compiler::ast::{BinOp, BinOpKind, Const, Expr, Spanned, Var};
use crate::value::ValueRepr;
use crate::Value;

fn cg_sp() -> Span {
    Span { start_line: 1, start_col: 0, start_offset: 0, end_line: 1, end_col: 0, end_offset: 0 }
}

/// A code generator in its initial state (built field by field: `CodeGenerator::new` takes its scratch
/// buffers from a thread-local pool, which kani-compiler 0.68 cannot translate).
fn fresh_generator() -> CodeGenerator<'static> {
    CodeGenerator {
        instructions: Instructions::new("t", ""),
        blocks: BTreeMap::new(),
        pending_block: Vec::new(),
        current_line: 0,
        span_stack: Vec::new(),
        filter_local_ids: BTreeMap::new(),
        test_local_ids: BTreeMap::new(),
        raw_template_bytes: 0,
    }
}

// Stubs for the four thread-local buffer-pool helpers (any harness from which they are reachable aborts
// kani-compiler 0.68, DESIGN Part II section 0): fresh empty buffers, nothing recycled.
pub(crate) fn take_pending_stub() -> Vec<PendingBlock> {
    Vec::new()
}
pub(crate) fn take_span_stub() -> Vec<Span> {
    Vec::new()
}
pub(crate) fn recycle_pending_stub(buf: Vec<PendingBlock>) {
    core::mem::forget(buf);
}
pub(crate) fn recycle_span_stub(buf: Vec<Span>) {
    core::mem::forget(buf);
}

macro_rules! binop_codegen_harness {
    ($name:ident, $op:expr, $instr:pat, $const_right:expr) => {
        #[kani::proof]
        #[kani::unwind(5)]
        #[kani::stub(alloc::fmt::format, crate::verif_common::format_stub)]
        #[kani::stub(crate::compiler::codegen::take_pending_block_buffer, take_pending_stub)]
        #[kani::stub(crate::compiler::codegen::take_span_stack_buffer, take_span_stub)]
        #[kani::stub(crate::compiler::codegen::recycle_pending_block_buffer, recycle_pending_stub)]
        #[kani::stub(crate::compiler::codegen::recycle_span_stack_buffer, recycle_span_stub)]
        fn $name() {
            // `x OP c` / `c OP x` for ANY i64 literal c: nothing about a variable operand is known at
            // load time, so the code generator must emit the variable lookup, the literal and the
            // operator - whatever the literal is (no "neutral element" shortcut: `x + 0` still fails
            // for a string x, `x * 1` still copies a sequence, `x ~ ""` still stringifies).
            let c: i64 = kani::any();
            let var = Expr::Var(Spanned::new(Var { id: "x" }, cg_sp()));
            let lit = Expr::Const(Spanned::new(Const { value: Value::from(c) }, cg_sp()));
            let (left, right) = if $const_right { (var, lit) } else { (lit, var) };
            let e = Expr::BinOp(Spanned::new(BinOp { op: $op, left, right }, cg_sp()));
            let mut g = fresh_generator();
            g.compile_expr(&e);
            let (ivar, ilit) = if $const_right { (0, 1) } else { (1, 0) };
            assert!(g.instructions.get(3).is_none());
            assert!(matches!(g.instructions.get(ivar), Some(Instruction::Lookup("x"))));
            match g.instructions.get(ilit) {
                Some(Instruction::LoadConst(Value(ValueRepr::I64(v)))) => assert!(*v == c),
                _ => assert!(false),
            }
            assert!(matches!(g.instructions.get(2), Some($instr)));
            kani::cover!(c == 0);
            kani::cover!(c == 1);
            core::mem::forget((g, e));
        }
    };
}

// @verif-block props=C04 cap=900 group=core doc=code_generation_for_`x_OP_c`_and_`c_OP_x`_with_a_variable_x_and_ANY_i64_literal_c:_exactly_[Lookup_x,_LoadConst_c,_OP]_in_operand_order_-_no_literal_value_makes_the_generator_drop_or_replace_the_run-time_operation
binop_codegen_harness!(c04_codegen_var_add_lit, BinOpKind::Add, Instruction::Add, true); // tier=quick
binop_codegen_harness!(c04_codegen_var_mul_lit, BinOpKind::Mul, Instruction::Mul, true); // tier=quick
binop_codegen_harness!(c04_codegen_lit_sub_var, BinOpKind::Sub, Instruction::Sub, false); // tier=quick
binop_codegen_harness!(c04_codegen_var_sub_lit, BinOpKind::Sub, Instruction::Sub, true); // tier=thorough
binop_codegen_harness!(c04_codegen_lit_add_var, BinOpKind::Add, Instruction::Add, false); // tier=thorough
binop_codegen_harness!(c04_codegen_lit_mul_var, BinOpKind::Mul, Instruction::Mul, false); // tier=thorough
binop_codegen_harness!(c04_codegen_var_div_lit, BinOpKind::Div, Instruction::Div, true); // tier=thorough
binop_codegen_harness!(c04_codegen_var_floordiv_lit, BinOpKind::FloorDiv, Instruction::IntDiv, true); // tier=thorough
binop_codegen_harness!(c04_codegen_var_rem_lit, BinOpKind::Rem, Instruction::Rem, true); // tier=thorough
binop_codegen_harness!(c04_codegen_var_pow_lit, BinOpKind::Pow, Instruction::Pow, true); // tier=thorough
binop_codegen_harness!(c04_codegen_var_concat_lit, BinOpKind::Concat, Instruction::StringConcat, true); // tier=thorough
// @verif-end


// ---------------------------------------------------------------------------
// C14: the line an instruction is attributed to is the line of the construct it was generated for.
// ---------------------------------------------------------------------------
use crate::compiler::ast::{Call, EmitExpr, GetAttr, Stmt};

fn span_on_line(line: u16) -> Span {
    Span { start_line: line, start_col: 3, start_offset: 10, end_line: line, end_col: 9, end_offset: 16 }
}

macro_rules! emit_line_harness {
    ($name:ident, $mk:expr) => {
        #[kani::proof]
        #[kani::unwind(6)]
        #[kani::stub(alloc::fmt::format, crate::verif_common::format_stub)]
        #[kani::stub(crate::compiler::codegen::take_pending_block_buffer, take_pending_stub)]
        #[kani::stub(crate::compiler::codegen::take_span_stack_buffer, take_span_stub)]
        #[kani::stub(crate::compiler::codegen::recycle_pending_block_buffer, recycle_pending_stub)]
        #[kani::stub(crate::compiler::codegen::recycle_span_stack_buffer, recycle_span_stub)]
        fn $name() {
            // `{{ <expr> }}` on ANY line L, generated right after code for a statement on ANY other line L0:
            // every instruction emitted for it is attributed to L (an error raised by it is reported there)
            let line: u16 = kani::any();
            let prev: u16 = kani::any();
            kani::assume(line >= 1 && prev >= 1);
            let mk: fn(Span) -> Expr<'static> = $mk;
            let stmt = Stmt::EmitExpr(Spanned::new(EmitExpr { expr: mk(span_on_line(line)) }, span_on_line(line)));
            let mut g = fresh_generator();
            g.set_line(prev);
            g.compile_stmt(&stmt);
            assert!(g.instructions.get(0).is_some());
            let mut i: u32 = 0;
            while i < 4 {
                if g.instructions.get(i).is_some() {
                    assert!(g.instructions.get_line(i) == Some(line as usize));
                }
                i += 1;
            }
            assert!(g.instructions.get(4).is_none());
            kani::cover!(prev > line);
            kani::cover!(prev < line);
            core::mem::forget((g, stmt));
        }
    };
}

// @verif-block props=C14 tier=quick cap=900 group=core doc=code_generation_of_`{{_expr_}}`_on_ANY_line_L_after_a_statement_on_ANY_other_line:_every_instruction_emitted_for_it_carries_line_L_in_the_line_table_(variable,_function_call,_`self.block()`_call,_`super()`)
emit_line_harness!(c14_codegen_line_emit_var, |sp| Expr::Var(Spanned::new(Var { id: "x" }, sp)));
emit_line_harness!(c14_codegen_line_emit_call, |sp| Expr::Call(Spanned::new(
    Call { expr: Expr::Var(Spanned::new(Var { id: "f" }, sp)), args: Vec::new() },
    sp
)));
emit_line_harness!(c14_codegen_line_emit_block_call, |sp| Expr::Call(Spanned::new(
    Call {
        expr: Expr::GetAttr(Spanned::new(GetAttr { expr: Expr::Var(Spanned::new(Var { id: "self" }, sp)), name: "blk" }, sp)),
        args: Vec::new()
    },
    sp
)));
emit_line_harness!(c14_codegen_line_emit_super, |sp| Expr::Call(Spanned::new(
    Call { expr: Expr::Var(Spanned::new(Var { id: "super" }, sp)), args: Vec::new() },
    sp
)));
// @verif-end


use crate::compiler::ast::{Do, ForLoop, IfCond, Include, Set, WithBlock};

fn var_on(id: &'static str, sp: Span) -> Expr<'static> {
    Expr::Var(Spanned::new(Var { id }, sp))
}

macro_rules! stmt_line_harness {
    ($name:ident, $max:expr, $mk:expr) => {
        #[kani::proof]
        #[kani::unwind(16)]
        #[kani::stub(alloc::fmt::format, crate::verif_common::format_stub)]
        #[kani::stub(crate::compiler::codegen::take_pending_block_buffer, take_pending_stub)]
        #[kani::stub(crate::compiler::codegen::take_span_stack_buffer, take_span_stub)]
        #[kani::stub(crate::compiler::codegen::recycle_pending_block_buffer, recycle_pending_stub)]
        #[kani::stub(crate::compiler::codegen::recycle_span_stack_buffer, recycle_span_stub)]
        fn $name() {
            // a statement (with empty bodies) on ANY line L, generated after code for ANY other line: every
            // instruction emitted for it is attributed to L
            let line: u16 = kani::any();
            let prev: u16 = kani::any();
            kani::assume(line >= 1 && prev >= 1);
            let mk: fn(Span) -> Stmt<'static> = $mk;
            let stmt = mk(span_on_line(line));
            let mut g = fresh_generator();
            g.set_line(prev);
            g.compile_stmt(&stmt);
            assert!(g.instructions.get(0).is_some());
            let mut i: u32 = 0;
            while i < $max {
                if g.instructions.get(i).is_some() {
                    assert!(g.instructions.get_line(i) == Some(line as usize));
                }
                i += 1;
            }
            assert!(g.instructions.get($max).is_none());
            kani::cover!(prev > line);
            kani::cover!(prev < line);
            core::mem::forget((g, stmt));
        }
    };
}

// @verif-block props=C14 tier=quick cap=900 group=core doc=code_generation_of_the_listed_statement_(empty_bodies)_on_ANY_line_L_after_a_statement_on_ANY_other_line:_every_instruction_emitted_for_it_carries_line_L_in_the_line_table
stmt_line_harness!(c14_codegen_line_block, 2, |sp| Stmt::Block(Spanned::new(
    crate::compiler::ast::Block { name: "b", required: true, body: Vec::new() },
    sp
)));
stmt_line_harness!(c14_codegen_line_set, 4, |sp| Stmt::Set(Spanned::new(Set { target: var_on("y", sp), expr: var_on("x", sp) }, sp)));
stmt_line_harness!(c14_codegen_line_include, 4, |sp| Stmt::Include(Spanned::new(Include { name: var_on("x", sp), ignore_missing: false }, sp)));
stmt_line_harness!(c14_codegen_line_do, 6, |sp| Stmt::Do(Spanned::new(
    Do { call: Spanned::new(Call { expr: var_on("f", sp), args: Vec::new() }, sp) },
    sp
)));
// @verif-end

// @verif-block props=C14 tier=experimental cap=900 group=core doc=code_generation_of_the_listed_statement_(empty_bodies)_on_ANY_line_L_after_a_statement_on_ANY_other_line:_every_instruction_emitted_for_it_carries_line_L_in_the_line_table
stmt_line_harness!(c14_codegen_line_if, 6, |sp| Stmt::IfCond(Spanned::new(
    IfCond { expr: var_on("x", sp), true_body: Vec::new(), false_body: Vec::new() },
    sp
)));
stmt_line_harness!(c14_codegen_line_for, 12, |sp| Stmt::ForLoop(Spanned::new(
    ForLoop { target: var_on("a", sp), iter: var_on("x", sp), filter_expr: None, recursive: false, body: Vec::new(), else_body: Vec::new() },
    sp
)));
stmt_line_harness!(c14_codegen_line_with, 8, |sp| Stmt::WithBlock(Spanned::new(
    WithBlock { assignments: vec![(var_on("w", sp), var_on("x", sp))], body: Vec::new() },
    sp
)));
// @verif-end

#[cfg(test)]
mod playback {
    use super::*;
    include!("/verif/.build/playback/compiler_codegen.rs");
}
