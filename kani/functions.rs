#![cfg(all(feature = "builtins", feature = "macros", feature = "multi_template", feature = "adjacent_loop_items", feature = "fuel", feature = "loop_controls"))]
// Kani harnesses for minijinja/src/functions.rs (included under cfg(kani)).
#![allow(unused_imports)]
use super::*;
use crate::verif_common::*;

macro_rules! range_harness {
    ($name:ident, $with_upper:expr, $step:expr) => {
        #[kani::proof]
        #[kani::unwind(4)]
        #[kani::stub(alloc::fmt::format, crate::verif_common::format_stub)]
        fn $name() {
            let lower: isize = kani::any();
            let upper: Option<isize> = if $with_upper { Some(kani::any()) } else { None };
            let step: Option<isize> = $step;
            let r = builtins::range(lower, upper, step);
            // exact number of elements Python's range() has, in i128
            let (lo, hi) = match upper {
                Some(u) => (lower as i128, u as i128),
                None => (0, lower as i128),
            };
            let st = step.unwrap_or(1) as i128;
            let count: i128 = if st == 0 {
                -1
            } else if st > 0 {
                if lo < hi { (hi - lo + st - 1) / st } else { 0 }
            } else if lo > hi {
                (lo - hi + (-st) - 1) / (-st)
            } else {
                0
            };
            // no panic for any argument; an error exactly for a zero step or more than 100000 elements
            assert!(r.is_ok() == (count >= 0 && count <= 100000));
            kani::cover!(count != 0);
            kani::cover!(lower < 0);
            core::mem::forget(r);
        }
    };
}

// @verif-block props=C01 tier=quick cap=900 group=core doc=range(lower[,upper[,step]])_for_ANY_isize_bounds_and_the_listed_step_(omitted,_0,_-1,_isize::MIN,_...):_never_panics_or_overflows,_fails_exactly_for_a_zero_step_or_more_than_100000_elements_(element_count_computed_exactly_in_i128)
range_harness!(c01_range_lower, false, None);
range_harness!(c01_range_lower_upper, true, None);
range_harness!(c01_range_step_zero, true, Some(0));
range_harness!(c01_range_step_m1, true, Some(-1));
range_harness!(c01_range_step_min, true, Some(isize::MIN));
range_harness!(c01_range_step_m3, true, Some(-3)); // tier=thorough cap=1800
range_harness!(c01_range_step_min1, true, Some(isize::MIN + 1)); // tier=thorough cap=1800
range_harness!(c01_range_step_p2, true, Some(2)); // tier=thorough cap=1800
range_harness!(c01_range_step_max, true, Some(isize::MAX)); // tier=thorough cap=1800
// @verif-end

#[cfg(test)]
mod playback {
    use super::*;
    include!("/verif/.build/playback/functions.rs");
}
