#![cfg(all(feature = "builtins", feature = "macros", feature = "multi_template", feature = "adjacent_loop_items", feature = "fuel", feature = "loop_controls"))]
// Kani harnesses for minijinja/src/loader.rs (included under cfg(kani)).
#![allow(unused_imports)]
use super::*;
use crate::verif_common::*;

/// Reference for safe_join's contract on a name given as bytes: the name is
/// refused iff some '/'-separated segment starts with '.' or contains '\'.
fn ref_refused(name: &[u8]) -> bool {
    let mut at_segment_start = true;
    let mut i = 0;
    while i < name.len() {
        let c = name[i];
        if c == b'\\' {
            return true;
        }
        if at_segment_start && c == b'.' {
            return true;
        }
        at_segment_start = c == b'/';
        i += 1;
    }
    false
}

/// The joined path must lie beneath the base: it starts with the base's bytes
/// followed by '/' (or is the base itself) and no component after the base is
/// `..`; a path that was replaced by an absolute segment fails the first test.
fn stays_below(base: &[u8], joined: &[u8]) -> bool {
    if joined.len() < base.len() {
        return false;
    }
    let mut i = 0;
    while i < base.len() {
        if joined[i] != base[i] {
            return false;
        }
        i += 1;
    }
    if joined.len() > base.len() && joined[base.len()] != b'/' {
        return false;
    }
    // scan components after the base
    let mut seg_start = base.len();
    let mut j = base.len();
    while j <= joined.len() {
        if j == joined.len() || joined[j] == b'/' {
            let seg_len = j - seg_start;
            if seg_len == 2 && joined[seg_start] == b'.' && joined[seg_start + 1] == b'.' {
                return false;
            }
            seg_start = j + 1;
        }
        j += 1;
    }
    true
}

/// Model of std's Unix `PathBuf::push` (library/std/src/path.rs): an absolute
/// argument replaces the buffer, otherwise a separator is added when the
/// buffer does not end in one and the argument is appended.  Used as a Kani
/// stub; native replay of counterexamples runs the real std function.
pub(crate) fn pathbuf_push_model<P: AsRef<Path>>(this: &mut PathBuf, path: P) {
    let seg = path.as_ref().as_os_str();
    let seg_bytes = seg.as_encoded_bytes();
    let cur = this.as_mut_os_string();
    let absolute = !seg_bytes.is_empty() && seg_bytes[0] == b'/';
    if absolute {
        cur.clear();
    } else {
        let cb = cur.as_encoded_bytes();
        if !cb.is_empty() && cb[cb.len() - 1] != b'/' {
            cur.push("/");
        }
    }
    cur.push(seg);
}

/// Model of core::slice::memchr::memchr (first index of a byte), used as a
/// Kani stub: std's word-at-a-time implementation with pointer alignment
/// arithmetic does not get through symbolic execution (measured: str::split
/// on 2 symbolic bytes > 300 s without, 42 s with this stub).
pub(crate) fn memchr_model(x: u8, text: &[u8]) -> Option<usize> {
    let mut i = 0;
    while i < text.len() {
        if text[i] == x {
            return Some(i);
        }
        i += 1;
    }
    None
}

macro_rules! safe_join_harness {
    ($name:ident, $n:expr, $unwind:expr, [$($sym:expr),*]) => {
        #[kani::proof]
        #[kani::unwind($unwind)]
        #[kani::stub(std::path::PathBuf::push, pathbuf_push_model)]
        #[kani::stub(core::slice::memchr::memchr, memchr_model)]
        fn $name() {
            let mut buf = [0u8; $n];
            let len: usize = $n;
            let mut i = 0;
            while i < $n {
                let c: u8 = kani::any();
                kani::assume(false $(|| c == $sym)*);
                buf[i] = c;
                i += 1;
            }
            // all symbols are ASCII, so any prefix is valid UTF-8
            let name = unsafe { core::str::from_utf8_unchecked(&buf[..len]) };
            let base = Path::new("/b");
            let r = safe_join(base, name);
            let refused = ref_refused(&buf[..len]);
            match r {
                None => assert!(refused),
                Some(ref p) => {
                    assert!(!refused);
                    let bytes = p.as_os_str().as_encoded_bytes();
                    assert!(stays_below(b"/b", bytes));
                }
            }
            kani::cover!(r.is_some() && len == $n);
            kani::cover!(r.is_none() && len == $n);
            core::mem::forget(r);
        }
    };
}

// @verif-block props=C17 group=core doc=safe_join(base="/b",name):_Some(p)_=>_p_stays_below_the_base_(prefix_"/b/",_no_".."_component,_not_replaced_by_an_absolute_segment)_and_None_<=>_a_segment_starts_with_'.'_or_contains_a_backslash;_name_=_all_strings_of_up_to_N_bytes_over_the_listed_alphabet
safe_join_harness!(c17_safe_join_2b, 2, 20, [b'.', b'/', b'\\', b'a']); // tier=quick cap=1500
safe_join_harness!(c17_safe_join_3b, 3, 9, [b'.', b'/', b'\\', b'a']); // tier=quick cap=900
safe_join_harness!(c17_safe_join_4b, 4, 10, [b'.', b'/', b'\\', b'a', 0u8]); // tier=thorough cap=2400
// @verif-end


#[cfg(test)]
mod playback {
    use super::*;
    include!("/verif/.build/playback/loader.rs");
}
