#![cfg(all(feature = "builtins", feature = "macros", feature = "multi_template", feature = "adjacent_loop_items", feature = "fuel", feature = "loop_controls"))]
// Kani harnesses for minijinja/src/loader.rs (included under cfg(kani)).
#![allow(unused_imports)]
use super::*;
use crate::verif_common::*;

/// Reference for safe_join's contract on a name given as bytes: the name is
/// refused iff some '/'-separated segment starts with '.' or contains '\'.
fn ref_refused(name: &[u8]) -> bool {
    let mut at_segment_start = true;
    let mut i = 0;
    while i < name.len() {
        let c = name[i];
        if c == b'\\' {
            return true;
        }
        if at_segment_start && c == b'.' {
            return true;
        }
        at_segment_start = c == b'/';
        i += 1;
    }
    false
}

/// The joined path must lie beneath the base: it starts with the base's bytes
/// followed by '/' (or is the base itself) and no component after the base is
/// `..`; a path that was replaced by an absolute segment fails the first test.
fn stays_below(base: &[u8], joined: &[u8]) -> bool {
    if joined.len() < base.len() {
        return false;
    }
    let mut i = 0;
    while i < base.len() {
        if joined[i] != base[i] {
            return false;
        }
        i += 1;
    }
    if joined.len() > base.len() && joined[base.len()] != b'/' {
        return false;
    }
    // scan components after the base
    let mut seg_start = base.len();
    let mut j = base.len();
    while j <= joined.len() {
        if j == joined.len() || joined[j] == b'/' {
            let seg_len = j - seg_start;
            if seg_len == 2 && joined[seg_start] == b'.' && joined[seg_start + 1] == b'.' {
                return false;
            }
            seg_start = j + 1;
        }
        j += 1;
    }
    true
}

/// Model of std's Unix `PathBuf::push` (library/std/src/path.rs): an absolute
/// argument replaces the buffer, otherwise a separator is added when the
/// buffer does not end in one and the argument is appended.  Used as a Kani
/// stub; native replay of counterexamples runs the real std function.
pub(crate) fn pathbuf_push_model<P: AsRef<Path>>(this: &mut PathBuf, path: P) {
    let seg = path.as_ref().as_os_str();
    let seg_bytes = seg.as_encoded_bytes();
    let cur = this.as_mut_os_string();
    let absolute = !seg_bytes.is_empty() && seg_bytes[0] == b'/';
    if absolute {
        cur.clear();
    } else {
        let cb = cur.as_encoded_bytes();
        if !cb.is_empty() && cb[cb.len() - 1] != b'/' {
            cur.push("/");
        }
    }
    cur.push(seg);
}

/// Model of core::slice::memchr::memchr (first index of a byte), used as a
/// Kani stub: std's word-at-a-time implementation with pointer alignment
/// arithmetic does not get through symbolic execution (measured: str::split
/// on 2 symbolic bytes > 300 s without, 42 s with this stub).
pub(crate) fn memchr_model(x: u8, text: &[u8]) -> Option<usize> {
    let mut i = 0;
    while i < text.len() {
        if text[i] == x {
            return Some(i);
        }
        i += 1;
    }
    None
}

macro_rules! safe_join_harness {
    ($name:ident, $n:expr, $unwind:expr, [$($sym:expr),*]) => {
        #[kani::proof]
        #[kani::unwind($unwind)]
        #[kani::stub(std::path::PathBuf::push, pathbuf_push_model)]
        #[kani::stub(core::slice::memchr::memchr, memchr_model)]
        fn $name() {
            let mut buf = [0u8; $n];
            let len: usize = $n;
            let mut i = 0;
            while i < $n {
                let c: u8 = kani::any();
                kani::assume(false $(|| c == $sym)*);
                buf[i] = c;
                i += 1;
            }
            // all symbols are ASCII, so any prefix is valid UTF-8
            let name = unsafe { core::str::from_utf8_unchecked(&buf[..len]) };
            let base = Path::new("/b");
            let r = safe_join(base, name);
            let refused = ref_refused(&buf[..len]);
            match r {
                None => assert!(refused),
                Some(ref p) => {
                    assert!(!refused);
                    let bytes = p.as_os_str().as_encoded_bytes();
                    assert!(stays_below(b"/b", bytes));
                }
            }
            kani::cover!(r.is_some() && len == $n);
            kani::cover!(r.is_none() && len == $n);
            core::mem::forget(r);
        }
    };
}

// Not registered (no @verif annotation): with the byte-exact push model the 2-byte harness fails an unwinding
// assertion inside memcmp at unwind 8/12 and runs out of time at unwind 20 (1 500 s) - superseded by the
// recording-stub family below, which decides the same question in about a minute.
// safe_join_harness!(c17_safe_join_2b, 2, 20, [b'.', b'/', b'\\', b'a']);


// ---------------------------------------------------------------------------
// C17, second family: safe_join with a *recording* model of PathBuf::push.
//
// std documents `PathBuf::push(p)`: an absolute `p` replaces the buffer, a relative `p` is appended as
// is (no normalisation).  The joined path therefore stays beneath the base iff every argument that is
// pushed (a) does not start with '/' and (b) contains no `..` component.  The stub checks exactly that
// on the bytes the REAL safe_join hands to push, and records a violation in a static; nothing is
// appended (so no OsString growth has to be modelled).  Native replay runs the real std function.
// ---------------------------------------------------------------------------
pub(crate) static mut C17_PUSH_BAD: bool = false;
pub(crate) static mut C17_PUSHES: usize = 0;

pub(crate) fn escapes_base(seg: &[u8]) -> bool {
    if !seg.is_empty() && seg[0] == b'/' {
        return true;
    }
    let mut start = 0;
    let mut j = 0;
    while j <= seg.len() {
        if j == seg.len() || seg[j] == b'/' {
            if j - start == 2 && seg[start] == b'.' && seg[start + 1] == b'.' {
                return true;
            }
            start = j + 1;
        }
        j += 1;
    }
    false
}

pub(crate) fn pathbuf_push_record<P: AsRef<Path>>(_this: &mut PathBuf, path: P) {
    let seg = path.as_ref().as_os_str().as_encoded_bytes();
    unsafe {
        if escapes_base(seg) {
            C17_PUSH_BAD = true;
        }
        C17_PUSHES += 1;
    }
}

macro_rules! safe_join_rec_harness {
    ($name:ident, $n:expr, $unwind:expr, [$($sym:expr),*]) => {
        #[kani::proof]
        #[kani::unwind($unwind)]
        #[kani::stub(std::path::PathBuf::push, pathbuf_push_record)]
        #[kani::stub(core::slice::memchr::memchr, memchr_model)]
        fn $name() {
            let mut buf = [0u8; $n];
            let len: usize = kani::any();
            kani::assume(len <= $n);
            let mut i = 0;
            while i < $n {
                let c: u8 = kani::any();
                kani::assume(false $(|| c == $sym)*);
                buf[i] = c;
                i += 1;
            }
            // all symbols are ASCII, so any prefix is valid UTF-8
            let name = unsafe { core::str::from_utf8_unchecked(&buf[..len]) };
            let base = Path::new("/b");
            let r = safe_join(base, name);
            // Under Kani the recording model of PathBuf::push decides; in a native playback of a
            // counterexample (no stubbing there) the real std functions ran, so the returned path itself is
            // examined: it must start with the base and contain no `..` component.
            // (a playback is a `cargo test` build: cfg(test) is set there and only there)
            let bad = if !cfg!(test) {
                unsafe { C17_PUSH_BAD }
            } else {
                match r {
                    Some(ref p) => !stays_below(b"/b", p.as_os_str().as_encoded_bytes()),
                    None => false,
                }
            };
            if r.is_some() {
                // a path is handed to the file system only if nothing pushed onto the base could leave it
                assert!(!bad);
            }
            kani::cover!(r.is_some() && len == $n);
            kani::cover!(r.is_none() && len == $n);
            core::mem::forget(r);
        }
    };
}

// @verif-block props=C17 group=core doc=safe_join(base="/b",name)_for_EVERY_name_of_up_to_N_bytes_over_the_listed_alphabet:_if_a_path_is_returned,_no_argument_handed_to_PathBuf::push_starts_with_'/'_(would_replace_the_base)_or_contains_a_".."_component,_hence_the_path_stays_beneath_the_base_by_std's_documented_push_semantics
safe_join_rec_harness!(c17_join_rec_1b, 1, 9, [b'.', b'/', b'\\', b'a']); // tier=quick cap=900
safe_join_rec_harness!(c17_join_rec_2b, 2, 9, [b'.', b'/', b'\\', b'a']); // tier=quick cap=900
safe_join_rec_harness!(c17_join_rec_3b, 3, 6, [b'.', b'/', b'\\', b'a']); // tier=quick cap=900
safe_join_rec_harness!(c17_join_rec_4b, 4, 7, [b'.', b'/', b'\\', b'a']); // tier=quick cap=1200
safe_join_rec_harness!(c17_join_rec_5b, 5, 8, [b'.', b'/', b'\\', b'a', 0u8]); // tier=thorough cap=2400
// @verif-end


// ---------------------------------------------------------------------------
// C15: the two-tier template store.  `CompiledTemplate::new` (lexer + parser + code generator: minutes of
// CBMC time per call, see DESIGN Part II) is replaced by a model that "compiles" every source except one
// starting with '!' and remembers the source text; everything else - LoaderStore::{insert_cow, remove,
// clear, get}, the BTreeMap of borrowed templates, memo_map's Mutex<HashMap>, the self_cell around owned
// templates - is the real code.  One harness per (pre-state, operation); whether the added source
// compiles is symbolic.  Oracle: a one-entry reference map (name "a" -> first byte of its source).
// ---------------------------------------------------------------------------
pub(crate) fn compile_model<'s>(
    name: &'s str,
    source: &'s str,
    config: &TemplateConfig,
) -> Result<CompiledTemplate<'s>, Error>
where
    's: 's,
{
    if source.as_bytes()[0] == b'!' {
        return Err(Error::from(ErrorKind::SyntaxError));
    }
    Ok(CompiledTemplate {
        instructions: Instructions::new(name, source),
        blocks: BTreeMap::new(),
        buffer_size_hint: 0,
        syntax_config: config.syntax_config.clone(),
        initial_auto_escape: crate::AutoEscape::None,
    })
}

fn c15_no_escape(_name: &str) -> crate::AutoEscape {
    crate::AutoEscape::None
}

/// What the store serves under `name`: 0 = no such template, otherwise the first byte of its source.
fn c15_view(store: &LoaderStore<'_>, name: &str) -> u8 {
    match store.get(name) {
        Ok(t) => t.instructions.source().as_bytes()[0],
        Err(e) => {
            core::mem::forget(e);
            0
        }
    }
}

fn c15_src(first: u8) -> &'static str {
    let b: &'static mut [u8; 1] = Box::leak(Box::new([first]));
    unsafe { core::str::from_utf8_unchecked(&b[..]) }
}

macro_rules! c15_step_harness {
    ($name:ident, $pre:expr, $op:expr) => {
        #[kani::proof]
        #[kani::unwind(10)]
        #[kani::stub(std::hash::RandomState::new, crate::verif_common::random_state_stub)]
        #[kani::stub(alloc::fmt::format, crate::verif_common::format_stub)]
        #[kani::stub(crate::template::CompiledTemplate::new, compile_model)]
        #[kani::stub(alloc::sync::Arc::drop_slow, crate::verif_common::arc_drop_slow_leak)]
        fn $name() {
            let mut store = LoaderStore::new(TemplateConfig::new(Arc::new(c15_no_escape)));
            // pre-state: "a" absent (0), added borrowed (1), added owned (2)
            let mut model: u8 = 0;
            if $pre == 1 {
                let r = store.insert_cow(Cow::Borrowed("a"), Cow::Borrowed("B"));
                assert!(r.is_ok());
                core::mem::forget(r);
                model = b'B';
            } else if $pre == 2 {
                let r = store.insert_cow(Cow::Owned("a".to_string()), Cow::Owned("O".to_string()));
                assert!(r.is_ok());
                core::mem::forget(r);
                model = b'O';
            }
            assert!(c15_view(&store, "a") == model);
            let bad: bool = kani::any();
            let first = if bad { b'!' } else { b'n' };
            // the operation
            if $op == 0 {
                let r = store.insert_cow(Cow::Borrowed("a"), Cow::Borrowed(c15_src(first)));
                assert!(r.is_err() == bad);
                if !bad {
                    model = first;
                }
                core::mem::forget(r);
            } else if $op == 1 {
                let r = store.insert_cow(Cow::Owned("a".to_string()), Cow::Owned(c15_src(first).to_string()));
                assert!(r.is_err() == bad);
                if !bad {
                    model = first;
                }
                core::mem::forget(r);
            } else if $op == 2 {
                store.remove("a");
                model = 0;
            } else {
                store.clear();
                model = 0;
            }
            // an addition that fails to compile leaves the store as it was; every other operation
            // gives what a fresh store with the same final contents gives
            assert!(c15_view(&store, "a") == model);
            kani::cover!(bad);
            kani::cover!(!bad);
            core::mem::forget(store);
        }
    };
}

// @verif-block props=C15 tier=experimental cap=900 group=core doc=one_LoaderStore_operation_from_each_of_three_pre-states_(name_absent,_added_borrowed,_added_owned):_the_template_served_afterwards_equals_a_one-entry_reference_map;_an_addition_whose_source_does_not_compile_(symbolic)_leaves_the_served_template_unchanged;_CompiledTemplate::new_replaced_by_a_model
c15_step_harness!(c15_absent_add_borrowed, 0, 0);
c15_step_harness!(c15_absent_add_owned, 0, 1);
c15_step_harness!(c15_borrowed_add_borrowed, 1, 0);
c15_step_harness!(c15_borrowed_add_owned, 1, 1);
c15_step_harness!(c15_borrowed_remove, 1, 2);
c15_step_harness!(c15_borrowed_clear, 1, 3);
c15_step_harness!(c15_owned_add_borrowed, 2, 0);
c15_step_harness!(c15_owned_add_owned, 2, 1);
c15_step_harness!(c15_owned_remove, 2, 2);
c15_step_harness!(c15_owned_clear, 2, 3);
// @verif-end

#[cfg(test)]
mod playback {
    use super::*;
    include!("/verif/.build/playback/loader.rs");
}
