#![cfg(all(feature = "builtins", feature = "macros", feature = "multi_template", feature = "adjacent_loop_items", feature = "fuel", feature = "loop_controls"))]
// Kani harnesses for minijinja/src/environment.rs (included under cfg(kani)).
#![allow(unused_imports)]
use super::*;
use crate::verif_common::*;

use crate::output::Output;
use crate::vm::State;

struct CountingSink {
    bytes: usize,
}

impl std::fmt::Write for CountingSink {
    fn write_str(&mut self, s: &str) -> std::fmt::Result {
        self.bytes += s.len();
        Ok(())
    }
}

fn c12_mode(k: u8) -> UndefinedBehavior {
    match k {
        0 => UndefinedBehavior::Chainable,
        1 => UndefinedBehavior::Lenient,
        2 => UndefinedBehavior::SemiStrict,
        _ => UndefinedBehavior::Strict,
    }
}

fn passthrough_formatter(out: &mut Output, state: &mut State, value: &Value) -> Result<(), Error> {
    crate::defaults::escape_formatter(out, state, value)
}

macro_rules! format_undefined_harness {
    ($name:ident, $custom:expr, $silent:expr) => {
        #[kani::proof]
        #[kani::unwind(4)]
        #[kani::stub(std::hash::RandomState::new, crate::verif_common::random_state_stub)]
        #[kani::stub(alloc::fmt::format, crate::verif_common::format_stub)]
        fn $name() {
            let mk: u8 = kani::any();
            kani::assume(mk < 4);
            let mut env = Environment::empty();
            env.set_undefined_behavior(c12_mode(mk));
            if $custom {
                env.set_formatter(passthrough_formatter);
            }
            let env: &'static Environment<'static> = Box::leak(Box::new(env));
            let mut state = State::new_for_env(env);
            let mut sink = CountingSink { bytes: 0 };
            let v = if $silent {
                Value(ValueRepr::Undefined(UndefinedType::Silent))
            } else {
                Value::UNDEFINED
            };
            let r = {
                let mut out = Output::new(&mut sink);
                let r = env.format(&v, &mut state, &mut out);
                core::mem::forget(out);
                r
            };
            // printing an undefined fails under Strict and SemiStrict and yields nothing otherwise;
            // the silent undefined of `x if c` (no else) prints as nothing in every mode
            let must_fail = !$silent && mk >= 2;
            match r {
                Ok(()) => assert!(!must_fail && sink.bytes == 0),
                Err(ref e) => {
                    assert!(must_fail);
                    assert!(matches!(e.kind(), ErrorKind::UndefinedError));
                }
            }
            kani::cover!(mk == 3);
            kani::cover!(mk == 1);
            core::mem::forget((r, state, v));
        }
    };
}

// @verif-block props=C12 tier=quick cap=600 group=core doc=Environment::format_(the_print_site)_on_an_undefined_value_under_ALL_4_modes,_with_the_default_formatter_and_with_a_custom_pass-through_formatter_installed:_fails_with_UndefinedError_under_Strict_and_SemiStrict,_writes_nothing_otherwise;_a_silent_undefined_never_fails
format_undefined_harness!(c12_print_undefined_default_formatter, false, false);
format_undefined_harness!(c12_print_undefined_custom_formatter, true, false);
format_undefined_harness!(c12_print_silent_undefined, false, true);
// @verif-end

#[cfg(test)]
mod playback {
    use super::*;
    include!("/verif/.build/playback/environment.rs");
}
