#![cfg(all(feature = "builtins", feature = "macros", feature = "multi_template", feature = "adjacent_loop_items", feature = "fuel", feature = "loop_controls"))]
// Kani harnesses for minijinja/src/compiler/instructions.rs (included under cfg(kani)).
#![allow(unused_imports)]
use super::*;
use crate::verif_common::*;

// @verif props=C14 tier=quick cap=900 group=core fns=Instructions::{add,add_with_line,add_line_record,get_line}
/// The instruction -> line side table every run-time error location is read from: four instructions are added
/// with ANY four line numbers (equal neighbours are merged by the builder, a line-less instruction in between
/// inherits the previous line); for EVERY pc the reported line is the line the instruction was added with, an
/// instruction added without a line reports the line of its predecessor, and a pc past the end reports the
/// last line - never a line that no instruction carries.
#[kani::proof]
#[kani::unwind(7)]
fn c14_line_table_maps_pc_to_its_line() {
    let l: [u16; 4] = kani::any();
    let mut ins = Instructions::new("t", "");
    assert!(ins.get_line(0).is_none());
    let p0 = ins.add_with_line(Instruction::Swap, l[0]);
    let p1 = ins.add_with_line(Instruction::DupTop, l[1]);
    let p2 = ins.add(Instruction::DiscardTop);
    let p3 = ins.add_with_line(Instruction::Swap, l[2]);
    let p4 = ins.add_with_line(Instruction::Swap, l[3]);
    assert!(p0 == 0 && p1 == 1 && p2 == 2 && p3 == 3 && p4 == 4);
    let pc: u32 = kani::any();
    kani::assume(pc <= 6);
    let want = match pc {
        0 => l[0],
        1 | 2 => l[1],
        3 => l[2],
        _ => l[3],
    };
    assert!(ins.get_line(pc) == Some(want as usize));
    kani::cover!(l[0] == l[1] && l[1] != l[2] && pc == 3);
    kani::cover!(l[1] > l[2] && pc == 2);
    kani::cover!(pc == 6);
    core::mem::forget(ins);
}

#[cfg(test)]
mod playback {
    use super::*;
    include!("/verif/.build/playback/compiler_instructions.rs");
}
