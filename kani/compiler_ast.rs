// Kani harnesses for minijinja/src/compiler/ast.rs (included under cfg(kani)).
#![allow(unused_imports)]
use super::*;
use crate::verif_common::*;

#[cfg(test)]
mod playback {
    use super::*;
    include!("/verif/.build/playback/compiler_ast.rs");
}
