#![cfg(all(feature = "builtins", feature = "macros", feature = "multi_template", feature = "adjacent_loop_items", feature = "fuel", feature = "loop_controls"))]
// Kani harnesses for minijinja/src/compiler/ast.rs (included under cfg(kani)).
#![allow(unused_imports)]
use super::*;
use crate::value::ValueRepr;
use crate::verif_common::*;

/// "same value" for the scalar alphabet used here, decided on the representation
/// (no call into Value::eq, which is itself under test elsewhere).
fn same_scalar(a: &Value, b: &Value) -> bool {
    match (&a.0, &b.0) {
        (ValueRepr::None, ValueRepr::None) => true,
        (ValueRepr::Bool(x), ValueRepr::Bool(y)) => x == y,
        (ValueRepr::I64(x), ValueRepr::I64(y)) => x == y,
        (ValueRepr::SmallStr(x), ValueRepr::SmallStr(y)) => x.as_str().len() == y.as_str().len() && x.as_str().as_bytes().first() == y.as_str().as_bytes().first(),
        _ => false,
    }
}

/// left operands: 0 none, 1 false, 2 true, 3 "", 4 "a"
fn left_operand(k: u8) -> (Value, bool) {
    match k {
        0 => (Value::from(()), false),
        1 => (Value::from(false), false),
        2 => (Value::from(true), true),
        3 => (Value::from(""), false),
        _ => (Value::from("a"), true),
    }
}

/// The VM's semantics (JumpIfFalseOrPop / JumpIfTrueOrPop): `a and b` is a if a is falsy else b,
/// `a or b` is a if a is truthy else b.
macro_rules! sc_harness {
    ($name:ident, $op:expr, $is_and:expr, $lk:expr) => {
        #[kani::proof]
        #[kani::unwind(4)]
        #[kani::stub(alloc::fmt::format, crate::verif_common::format_stub)]
        fn $name() {
            let (l, l_truthy) = left_operand($lk);
            let x: i64 = kani::any();
            let r = Value::from(x);
            let folded = eval_binop($op, &l, &r);
            assert!(folded.is_some());
            let want = if $is_and { if l_truthy { &r } else { &l } } else if l_truthy { &l } else { &r };
            assert!(same_scalar(folded.as_ref().unwrap(), want));
            // and symmetric: a number on the left, the fixed operand on the right
            let folded2 = eval_binop($op, &r, &l);
            let r_truthy = x != 0;
            let want2 = if $is_and { if r_truthy { &l } else { &r } } else if r_truthy { &r } else { &l };
            assert!(folded2.is_some());
            assert!(same_scalar(folded2.as_ref().unwrap(), want2));
            kani::cover!(x == 0);
            kani::cover!(x != 0);
            core::mem::forget((folded, folded2, l, r));
        }
    };
}

// @verif-block props=C04 tier=quick cap=400 group=core doc=constant_folding_of_`and`/`or`_(ast::eval_binop)_equals_the_VM's_short-circuit_semantics_(result_is_the_deciding_OPERAND,_not_a_boolean)_for_the_listed_fixed_operand_{none,false,true,"","a"}_against_ANY_i64,_in_both_operand_orders
sc_harness!(c04_fold_and_none, BinOpKind::ScAnd, true, 0);
sc_harness!(c04_fold_and_false, BinOpKind::ScAnd, true, 1);
sc_harness!(c04_fold_and_true, BinOpKind::ScAnd, true, 2);
sc_harness!(c04_fold_and_empty, BinOpKind::ScAnd, true, 3);
sc_harness!(c04_fold_and_str, BinOpKind::ScAnd, true, 4);
sc_harness!(c04_fold_or_none, BinOpKind::ScOr, false, 0);
sc_harness!(c04_fold_or_false, BinOpKind::ScOr, false, 1);
sc_harness!(c04_fold_or_true, BinOpKind::ScOr, false, 2);
sc_harness!(c04_fold_or_empty, BinOpKind::ScOr, false, 3);
sc_harness!(c04_fold_or_str, BinOpKind::ScOr, false, 4);
// @verif-end

macro_rules! delegate_harness {
    ($name:ident, $op:expr, $f:path) => {
        #[kani::proof]
        #[kani::unwind(4)]
        #[kani::stub(alloc::fmt::format, crate::verif_common::format_stub)]
        fn $name() {
            let x: i64 = kani::any();
            let y: i64 = kani::any();
            let (l, r) = (Value::from(x), Value::from(y));
            let folded = eval_binop($op, &l, &r);
            let runtime = $f(&l, &r);
            // a constant expression is folded exactly when the run-time operator succeeds, to the same
            // value; when it would fail (e.g. division by zero) nothing is folded and no error is
            // raised at load time - code generation then emits the run-time instruction
            match (&folded, &runtime) {
                (Some(a), Ok(b)) => {
                    let same = match (&a.0, &b.0) {
                        (ValueRepr::I64(p), ValueRepr::I64(q)) => p == q,
                        (ValueRepr::I128(p), ValueRepr::I128(q)) => ({ p.0 }) == ({ q.0 }),
                        (ValueRepr::F64(p), ValueRepr::F64(q)) => p.to_bits() == q.to_bits(),
                        _ => false,
                    };
                    assert!(same);
                }
                (None, Err(_)) => {}
                _ => assert!(false),
            }
            kani::cover!(folded.is_some());
            kani::cover!(folded.is_none());
            core::mem::forget((folded, runtime, l, r));
        }
    };
}

// @verif-block props=C04 tier=thorough cap=3600 group=core doc=constant_folding_of_a_delegated_operator_(ast::eval_binop)_on_ANY_pair_of_i64_literals:_folded_<=>_the_run-time_operator_succeeds,_with_the_identical_value;_a_failing_constant_expression_(division_by_zero,_negative_power)_is_not_folded_and_raises_nothing_at_load_time
delegate_harness!(c04_fold_add, BinOpKind::Add, ops::add);
delegate_harness!(c04_fold_sub, BinOpKind::Sub, ops::sub);
delegate_harness!(c04_fold_floordiv, BinOpKind::FloorDiv, ops::int_div);
delegate_harness!(c04_fold_rem, BinOpKind::Rem, ops::rem);
// @verif-end

macro_rules! div_zero_harness {
    ($name:ident, $op:expr) => {
        #[kani::proof]
        #[kani::unwind(4)]
        #[kani::stub(alloc::fmt::format, crate::verif_common::format_stub)]
        #[kani::stub(crate::value::ops::failed_op, crate::verif_common::op_error_stub)]
        fn $name() {
            let x: i64 = kani::any();
            let (l, r) = (Value::from(x), Value::from(0i64));
            // a failing constant expression is not folded and raises nothing at load time
            let folded = eval_binop($op, &l, &r);
            assert!(folded.is_none());
            kani::cover!(x < 0);
            core::mem::forget((folded, l, r));
        }
    };
}

// @verif-block props=C04 tier=thorough cap=3600 group=core doc=a_constant_division_(//,_%)_of_ANY_i64_literal_by_the_literal_0_is_NOT_folded_and_does_not_fail_or_panic_at_load_time_(the_error_is_left_to_the_run-time_instruction,_i.e._reported_only_if_executed)
div_zero_harness!(c04_fold_floordiv_by_zero, BinOpKind::FloorDiv);
div_zero_harness!(c04_fold_rem_by_zero, BinOpKind::Rem);
// @verif-end

macro_rules! compare_harness {
    ($name:ident, $bop:expr, $cop:expr, $rel:tt) => {
        #[kani::proof]
        #[kani::unwind(4)]
        #[kani::stub(alloc::fmt::format, crate::verif_common::format_stub)]
        fn $name() {
            let x: i64 = kani::any();
            let y: i64 = kani::any();
            let (l, r) = (Value::from(x), Value::from(y));
            let a = eval_binop($bop, &l, &r);
            let b = eval_compare($cop, &l, &r);
            let want = x $rel y;
            assert!(matches!(a, Some(ref v) if matches!(v.0, ValueRepr::Bool(t) if t == want)));
            assert!(matches!(b, Some(ref v) if matches!(v.0, ValueRepr::Bool(t) if t == want)));
            kani::cover!(want);
            kani::cover!(!want);
            core::mem::forget((a, b, l, r));
        }
    };
}

// @verif-block props=C04 tier=quick cap=400 group=core doc=constant_folding_of_a_comparison_(eval_binop_and_the_chain_kernel_eval_compare)_on_ANY_pair_of_i64_literals_is_the_mathematical_relation
compare_harness!(c04_fold_lt, BinOpKind::Lt, CompareOpKind::Lt, <);
compare_harness!(c04_fold_lte, BinOpKind::Lte, CompareOpKind::Lte, <=);
compare_harness!(c04_fold_eq, BinOpKind::Eq, CompareOpKind::Eq, ==);
compare_harness!(c04_fold_ne, BinOpKind::Ne, CompareOpKind::Ne, !=);
compare_harness!(c04_fold_gt, BinOpKind::Gt, CompareOpKind::Gt, >); // tier=thorough
compare_harness!(c04_fold_gte, BinOpKind::Gte, CompareOpKind::Gte, >=); // tier=thorough
// @verif-end

// (A harness on Map/List/Tuple::as_const with one symbolic non-literal slot was tried and dropped: building the
// boxed AST with a symbolic variant per slot does not get through CBMC in 900 s.)

fn sp() -> Span {
    Span { start_line: 1, start_col: 0, start_offset: 0, end_line: 1, end_col: 0, end_offset: 0 }
}

fn const_expr(v: i64) -> Expr<'static> {
    Expr::Const(Spanned::new(Const { value: Value::from(v) }, sp()))
}

macro_rules! chain_harness {
    ($name:ident, $op1:expr, $op2:expr, $f1:expr, $f2:expr) => {
        #[kani::proof]
        #[kani::unwind(5)]
        #[kani::stub(alloc::fmt::format, crate::verif_common::format_stub)]
        fn $name() {
            // the literal comparison chain `a OP1 b OP2 c` for ANY three i64 literals
            let a: i64 = kani::any();
            let b: i64 = kani::any();
            let c: i64 = kani::any();
            let e = Expr::Compare(Spanned::new(
                Compare {
                    expr: const_expr(a),
                    ops: vec![CompareOp { op: $op1, expr: const_expr(b) }, CompareOp { op: $op2, expr: const_expr(c) }],
                },
                sp(),
            ));
            let folded = e.as_const();
            // the VM evaluates the chain as (a OP1 b) and (b OP2 c): the middle operand is the pivot
            let f1: fn(i64, i64) -> bool = $f1;
            let f2: fn(i64, i64) -> bool = $f2;
            let want = f1(a, b) && f2(b, c);
            match folded {
                Some(Value(ValueRepr::Bool(got))) => assert!(got == want),
                _ => assert!(false),
            }
            kani::cover!(want);
            kani::cover!(f2(b, c) != f2(a, c));
            core::mem::forget(e);
        }
    };
}

// @verif-block props=C04 tier=quick cap=400 group=core doc=constant_folding_of_a_comparison_chain_`a_OP1_b_OP2_c`_(Expr::as_const)_for_ANY_three_i64_literals_equals_the_VM's_meaning_(a_OP1_b)_and_(b_OP2_c)_-_the_middle_operand_is_the_pivot_of_the_second_comparison
chain_harness!(c04_fold_chain_lt_lt, CompareOpKind::Lt, CompareOpKind::Lt, |x, y| x < y, |x, y| x < y);
chain_harness!(c04_fold_chain_lte_gt, CompareOpKind::Lte, CompareOpKind::Gt, |x, y| x <= y, |x, y| x > y);
chain_harness!(c04_fold_chain_eq_ne, CompareOpKind::Eq, CompareOpKind::Ne, |x, y| x == y, |x, y| x != y);
// @verif-end

fn var_expr(id: &'static str) -> Expr<'static> {
    Expr::Var(Spanned::new(Var { id }, sp()))
}

// @verif props=C04 tier=experimental cap=900 group=core fns=Map::as_const,Expr::as_const
/// A map literal is folded at load time only if EVERY key and value is a literal: for the two-entry literal
/// `{k0: v0, k1: v1}` in which ONE slot (symbolic: either key or either value) is a variable, as_const
/// returns None - the variable is looked up at run time and no entry is silently dropped.
#[kani::proof]
#[kani::unwind(5)]
fn c04_map_with_variable_slot_is_not_folded() {
    let slot: u8 = kani::any();
    kani::assume(slot >= 1 && slot <= 4);
    let k0 = if slot == 1 { var_expr("k") } else { const_expr(1) };
    let v0 = if slot == 2 { var_expr("k") } else { const_expr(10) };
    let k1 = if slot == 3 { var_expr("k") } else { const_expr(2) };
    let v1 = if slot == 4 { var_expr("k") } else { const_expr(20) };
    let m = Expr::Map(Spanned::new(Map { keys: vec![k0, k1], values: vec![v0, v1] }, sp()));
    let folded = m.as_const();
    assert!(folded.is_none());
    kani::cover!(slot == 1);
    kani::cover!(slot == 4);
    core::mem::forget((folded, m));
}

// @verif props=C04 tier=experimental cap=900 group=core fns=Expr::as_const,ops::neg
/// Unary operators on a literal: for ANY i64 literal x, `not x` folds to the boolean the VM computes
/// (`x == 0`), `-x` folds to the exact negation (also for i64::MIN, which needs a wider representation), and
/// `not not x` / `-(-x)` fold consistently.
#[kani::proof]
#[kani::unwind(5)]
#[kani::stub(alloc::fmt::format, crate::verif_common::format_stub)]
fn c04_fold_unary_not_and_neg() {
    let x: i64 = kani::any();
    let not_e = Expr::UnaryOp(Spanned::new(UnaryOp { op: UnaryOpKind::Not, expr: const_expr(x) }, sp()));
    match not_e.as_const() {
        Some(Value(ValueRepr::Bool(b))) => assert!(b == (x == 0)),
        _ => assert!(false),
    }
    let neg_e = Expr::UnaryOp(Spanned::new(UnaryOp { op: UnaryOpKind::Neg, expr: const_expr(x) }, sp()));
    let folded = neg_e.as_const();
    match folded {
        Some(Value(ValueRepr::I64(v))) => assert!(v as i128 == -(x as i128)),
        Some(Value(ValueRepr::U64(v))) => assert!(v as i128 == -(x as i128)),
        Some(Value(ValueRepr::I128(ref v))) => {
            let w = { v.0 };
            assert!(w == -(x as i128));
        }
        _ => assert!(false),
    }
    let nn = Expr::UnaryOp(Spanned::new(UnaryOp { op: UnaryOpKind::Not, expr: not_e }, sp()));
    match nn.as_const() {
        Some(Value(ValueRepr::Bool(b))) => assert!(b == (x != 0)),
        _ => assert!(false),
    }
    kani::cover!(x == i64::MIN);
    kani::cover!(x == 0);
    core::mem::forget((folded, neg_e, nn));
}

#[cfg(test)]
mod playback {
    use super::*;
    include!("/verif/.build/playback/compiler_ast.rs");
}
