"""Engine S (C11): is the recursion limit low enough for the native stack?

Per recursion edge kind k the REAL engine is measured on this run (dev and release build of /repo,
`native/src/bin/stack.rs`): s_k = native stack bytes per recursion level, and the number of levels the
engine admits at recursion limits 100 and 500, from which c_k = limit units charged per level.  z3
then decides the universally quantified statement

    forall n_k >= 0, L in [1, 500]:  sum c_k n_k <= L   =>   BASE + sum s_k n_k <= STACK - GUARD

over ALL mixtures of edges (its negation is an integer-linear query).  A satisfying assignment of the
negation (a mixture that the limit admits but the stack does not hold) is replayed: the dominant edge's
self-recursive template is rendered on a thread with a 2 MiB stack in a child process; SIGSEGV/abort
confirms.  The per-level costs are measured, not symbolically executed - the solver's part is exactly
the quantifier over mixtures and limits; the evidence labels this part `other`.
"""
import os, sys, json, subprocess, time
from fractions import Fraction
import z3

ROOT = '/verif'
sys.path.insert(0, os.path.join(ROOT, 'bin'))
import nativelib
BUILD = nativelib.BUILD
KINDS = ['macro', 'callblock', 'include', 'block', 'macro_include', 'import_macro', 'import_cycle', 'include_discarded',
         'include_after_partial', 'macro_after_partial', 'loop_recursive']
STACK = 2 * 1024 * 1024
BASE = 96 * 1024      # frames below the first template level (thread start, render entry), measured < 64 KiB
GUARD = 64 * 1024


def log(*a):
    print(*a, file=sys.stderr, flush=True)


def build(profile):
    env = dict(os.environ, CARGO_NET_OFFLINE='true', CARGO_TARGET_DIR=os.path.join(BUILD, 'native'))
    cmd = ['cargo', 'build', '--offline', '--bin', 'stack'] + (['--release'] if profile == 'release' else [])
    p = subprocess.run(cmd, cwd=nativelib.native_dir(), env=env, stdout=subprocess.PIPE, stderr=subprocess.STDOUT, text=True)
    return None if p.returncode == 0 else p.stdout[-2000:]


def tool(profile):
    return os.path.join(BUILD, 'native', 'release' if profile == 'release' else 'debug', 'stack')


def measure(profile, kind, limit):
    try:
        p = subprocess.run([tool(profile), 'measure', kind, str(limit)], stdout=subprocess.PIPE, stderr=subprocess.PIPE, text=True, timeout=120)
        return json.loads(p.stdout.strip().split('\n')[-1])
    except Exception as e:  # the measuring process died (e.g. unbounded recursion ran through its 256 MiB stack)
        return dict(kind=kind, limit=limit, levels=0, bytes_per_level=0, error='measurement died: %s' % str(e)[:80], died=True)


def run_c11(prop, tier, seed):
    t0 = time.time()
    ev = dict(engine='S', violations=[], known_hits=[], problems=[], coverage={})
    table = {}
    for profile in ('dev', 'release'):
        err = build(profile)
        if err:
            ev['problems'].append('engine S: stack tool did not build (%s): %s' % (profile, err[-300:]))
            return ev
        for k in KINDS:
            m100, m500 = measure(profile, k, 100), measure(profile, k, 500)
            if 'recursion limit' not in m500['error'] or m500['levels'] <= m100['levels']:
                # the limit is never reached on this edge: cost 0 units per level; the per-level stack cost is
                # taken from the run that survived, else from the most expensive edge measured so far.  The ILP
                # then admits an overflowing mixture and the replay on a 2 MiB thread decides.
                b = max([m100.get('bytes_per_level', 0), m500.get('bytes_per_level', 0)] + [v['bytes_per_level'] for (pf, _), v in table.items() if pf == profile] + [4096])
                table[(profile, k)] = dict(bytes_per_level=b, levels_at_500=m500['levels'], levels_at_100=m100['levels'], units_per_level=0.0, c=Fraction(0),
                                           note='limit not reached: ' + m500['error'][:80])
                continue
            # additivity check: per-level cost must not depend on the limit
            if abs(m100['bytes_per_level'] - m500['bytes_per_level']) > 64:
                ev['problems'].append('engine S: per-level stack cost of %s is not constant (%d vs %d)' % (k, m100['bytes_per_level'], m500['bytes_per_level']))
            c = Fraction(400, m500['levels'] - m100['levels'])
            table[(profile, k)] = dict(bytes_per_level=m500['bytes_per_level'], levels_at_500=m500['levels'],
                                       levels_at_100=m100['levels'], units_per_level=float(c), c=c)
    results = {}
    queries = [('dev', None), ('release', None)]
    if os.path.exists(os.path.join(ROOT, 'known_findings.json')) and \
            any(f['id'] == 'KF-C11-block-dev' for f in json.load(open(os.path.join(ROOT, 'known_findings.json'))).get('findings', [])):
        # the known finding's region is "recursion through block calls in the dev profile": ask again with
        # that edge excluded, so that any OTHER edge (or mixture) that outruns the stack is still reported
        queries.append(('dev', 'block'))
    for profile, excluded in queries:
        s = z3.Solver()
        n = {k: z3.Int('n_' + k) for k in KINDS if (profile, k) in table and k != excluded}
        L = z3.Int('L')
        s.add(L >= 1, L <= 500)
        for k, v in n.items():
            s.add(v >= 0)
        # sum c_k n_k <= L   (c_k rational: multiply through by the common denominator)
        den = 1
        for k in n:
            den = den * table[(profile, k)]['c'].denominator // __import__('math').gcd(den, table[(profile, k)]['c'].denominator)
        s.add(z3.Sum([int(table[(profile, k)]['c'] * den) * n[k] for k in n]) <= L * den)
        s.add(BASE + z3.Sum([table[(profile, k)]['bytes_per_level'] * n[k] for k in n]) > STACK - GUARD)
        tq = time.time()
        r = s.check()
        dt = time.time() - tq
        res = dict(verdict=str(r), z3_s=round(dt, 3))
        if r == z3.sat:
            m = s.model()
            mix = {k: m[n[k]].as_long() for k in n if m[n[k]].as_long() > 0}
            res['mixture'] = mix
            res['limit'] = m[L].as_long()
            res['stack_needed'] = BASE + sum(table[(profile, k)]['bytes_per_level'] * v for k, v in mix.items())
            # replay the dominant edge on a 2 MiB thread in a child process
            dom = max(mix, key=lambda k: table[(profile, k)]['bytes_per_level'] * mix[k])
            p = subprocess.run([tool(profile), 'run', dom, '500', str(STACK)], stdout=subprocess.PIPE, stderr=subprocess.PIPE, text=True, timeout=120)
            crashed = p.returncode != 0
            res['replay'] = dict(kind=dom, returncode=p.returncode, crashed=crashed, stdout=p.stdout[-200:], stderr=p.stderr[-300:])
        qname = profile + ('-without-' + excluded if excluded else '')
        res['profile'] = profile
        results[qname] = res
        log('[%s] engine S (%s): negated claim is %s %s' % (prop, qname, r, res.get('mixture', '')))
    known = {}
    kp = os.path.join(ROOT, 'known_findings.json')
    if os.path.exists(kp):
        known = {f['id']: f for f in json.load(open(kp)).get('findings', [])}
    nativelib.replay_dir()
    for qname, res in results.items():
        profile = res['profile']
        if res['verdict'] == 'sat':
            if res['replay']['crashed']:
                kf = known.get('KF-C11-%s-%s' % (res['replay']['kind'], profile)) if res['replay']['kind'] == 'block' and profile == 'dev' else None
                if kf:
                    ev['known_hits'].append((dict(replay=None), kf))
                    continue
                rp = os.path.join(nativelib.replay_dir(), '%s-S-%s.json' % (prop, qname))
                json.dump(dict(property=prop, engine='S', profile=profile, result=res,
                               costs={k: {kk: vv for kk, vv in v.items() if kk != 'c'} for (pf, k), v in table.items() if pf == profile},
                               how='%s run %s 500 %d   (dies with a stack overflow)' % (tool(profile), res['replay']['kind'], STACK)), open(rp, 'w'), indent=1)
                ev['violations'].append(dict(replay=rp, failed=[dict(
                    desc='%s profile: the recursion limit admits %s (needs %d bytes of native stack), a 2 MiB thread overflows: child exit %s' % (
                        profile, res['mixture'], res['stack_needed'], res['replay']['returncode']), loc='edge kind %s' % res['replay']['kind'])]))
            else:
                ev['problems'].append('engine S (%s): the cost model admits an overflowing mixture %s but the replay ended cleanly - model too pessimistic' % (profile, res.get('mixture')))
        elif res['verdict'] != 'unsat':
            ev['problems'].append('engine S: z3 returned %s' % res['verdict'])
    ev['coverage'] = dict(
        explanation='measured per-edge native stack and limit costs + z3 integer-linear query over all edge mixtures and limits 1..500',
        stack_bytes=STACK, base_bytes=BASE, guard_bytes=GUARD,
        costs={'%s/%s' % (pf, k): {kk: vv for kk, vv in v.items() if kk != 'c'} for (pf, k), v in table.items()},
        queries=results, wall_s=round(time.time() - t0, 1))
    return ev


if __name__ == '__main__':
    ev = run_c11('C11', 'quick', 0)
    print(json.dumps({k: v for k, v in ev.items() if k != 'known_hits'}, indent=1, default=str)[:4000])
