"""Engine L (C15): bounded model checking of template-store histories with z3.

What is executed symbolically: the bodies of `LoaderStore::{insert_cow, remove, clear, get}` in
/repo/minijinja/src/loader.rs, translated ON EVERY RUN from the source text into an ordered list of events
on the two tiers (`borrowed_templates`, `owned_templates`): remove / insert / replace / clear / lookup /
memoising lookup, the compile step (`CompiledTemplate::new` / `make_owned_template`) and the early return
`ok!(..)` takes when it fails.  Rust evaluates receiver and arguments before the call, so events are
ordered by the position of each call's closing parenthesis.  A body that does not fit the small grammar
makes the run inconclusive (exit 2) - it is never guessed.

The transition system: state = (borrowed: Name -> Src|0, owned: Name -> Src|0, disk: Name -> Src|0) as z3
arrays; operations add_borrowed / add_owned / remove / clear / get / "the loader's file changes", with
operation kind, name, source, whether the source compiles, and the loader's contents ALL symbolic.

Deciding queries (z3):
  * BMC: for every history of length <= K from the empty store, after every step the store serves, for every
    name, exactly what the specification map W serves (W = "a fresh environment with the same final
    contents": add sets W[n] unless the source does not compile - then W is unchanged and the call fails -,
    remove/clear delete, a loader hit is cached until removed/cleared), and every call succeeds/fails as
    specified.  `sat` = a concrete history, replayed on the real Environment (native/src/bin/store.rs).
  * Induction (reported separately): from ANY state satisfying the tier-disjointness invariant one step
    preserves the invariant and refines the specification => histories of every length.
Validation of the translation (not deciding): seeded random histories are run on the real Environment and
must agree with the model extracted from the source.
"""
import os, re, sys, json, time, random, subprocess
import z3

ROOT = '/verif'
sys.path.insert(0, os.path.join(ROOT, 'bin'))
import nativelib
REPO = nativelib.REPO
BUILD = nativelib.BUILD
NATIVE = os.path.join(BUILD, 'native', 'debug')
ENV = dict(os.environ, CARGO_NET_OFFLINE='true', CARGO_TARGET_DIR=os.path.join(BUILD, 'native'))


def log(*a):
    print(*a, file=sys.stderr, flush=True)


class Untranslatable(Exception):
    pass


# --------------------------------------------------------------------------
# source -> events
# --------------------------------------------------------------------------

def strip_comments(src):
    src = re.sub(r'//[^\n]*', '', src)
    return re.sub(r'/\*.*?\*/', '', src, flags=re.S)


def fn_body(src, name):
    m = re.search(r'\bfn\s+%s\s*(<[^>]*>)?\s*\(' % re.escape(name), src)
    if not m:
        raise Untranslatable('function %s not found in loader.rs' % name)
    i = src.index('{', find_sig_end(src, m.end() - 1))
    j = match_close(src, i, '{', '}')
    return src[i + 1:j]


def find_sig_end(src, open_paren):
    return match_close(src, open_paren, '(', ')')


def match_close(s, i, o, c):
    assert s[i] == o, (s[i:i + 20], o)
    d = 0
    for k in range(i, len(s)):
        if s[k] == o:
            d += 1
        elif s[k] == c:
            d -= 1
            if d == 0:
                return k
    raise Untranslatable('unbalanced %s%s' % (o, c))


CALLS = [
    # (regex at call start (ending just before "("), event kind, tier)
    (r'self\s*\.\s*borrowed_templates\s*\.\s*remove\s*', 'remove', 'b'),
    (r'self\s*\.\s*owned_templates\s*\.\s*remove\s*', 'remove', 'o'),
    (r'self\s*\.\s*borrowed_templates\s*\.\s*insert\s*', 'insert', 'b'),
    (r'self\s*\.\s*owned_templates\s*\.\s*(?:replace|insert)\s*', 'insert', 'o'),
    (r'self\s*\.\s*borrowed_templates\s*\.\s*clear\s*', 'clear', 'b'),
    (r'self\s*\.\s*owned_templates\s*\.\s*clear\s*', 'clear', 'o'),
    (r'CompiledTemplate\s*::\s*new\s*', 'compile', None),
    (r'self\s*\.\s*make_owned_template\s*', 'compile', None),
    (r'ok!\s*', 'bail', None),
]
KNOWN_NOISE = re.compile(r'^[\s\w:&<>\'\.\(\),;=\{\}\*\|\-!\?\[\]"#]*$')


def events_of(block):
    """Ordered events of a straight-line block (no branching inside)."""
    evs = []
    for rx, kind, tier in CALLS:
        for m in re.finditer(rx + r'\(', block):
            close = match_close(block, m.end() - 1, '(', ')')
            evs.append((close, m.start(), kind, tier))
    evs.sort()
    # any other mention of the two tiers that we did not classify means the body does something this
    # translator has no model for
    covered = [(st, cl) for cl, st, _, _ in evs]
    for m in re.finditer(r'self\s*\.\s*(borrowed_templates|owned_templates)', block):
        if not any(st <= m.start() <= cl for st, cl in covered if block[st:st + 4] == 'self') and \
           not any(st == m.start() for cl, st, k, t in evs):
            raise Untranslatable('unclassified use of %s: %r' % (m.group(1), block[m.start():m.start() + 60]))
    if re.search(r'\b(if|match|while|for|loop)\b', block):
        raise Untranslatable('control flow inside a store operation arm is not modelled: %r' % block.strip()[:80])
    out = []
    pending_compile = False
    for close, start, kind, tier in evs:
        if kind == 'compile':
            pending_compile = True
            out.append(('compile',))
        elif kind == 'bail':
            # ok!(X): early return when X is an Err - only the compile step can fail
            inner = block[start:close]
            if re.search(r'CompiledTemplate\s*::\s*new|make_owned_template', inner):
                out.append(('bail_if_compile_failed',))
            else:
                raise Untranslatable('ok!() around something that is not the compile step: %r' % inner[:60])
        else:
            out.append((kind, tier))
    # a compile whose failure is not propagated before the maps are touched is still fine for the model, but a
    # compile result that is never checked is not something the real code can do (it returns Result)
    return out


def translate(repo):
    src = strip_comments(open(os.path.join(repo, 'minijinja', 'src', 'loader.rs'), encoding='utf-8').read())
    impl = src[src.index('impl<\'source> LoaderStore<\'source>'):]
    model = {}
    # insert_cow: match (source, name) { (Cow::Borrowed(..), Cow::Borrowed(..)) => {A} (source, name) => {B} }
    body = fn_body(impl, 'insert_cow')
    m = re.search(r'match\s*\(\s*source\s*,\s*name\s*\)\s*\{', body)
    if not m:
        raise Untranslatable('insert_cow: expected `match (source, name)`')
    mb = body[m.end() - 1:match_close(body, m.end() - 1, '{', '}') + 1]
    arms = re.split(r'=>', mb)
    if len(arms) != 3:
        raise Untranslatable('insert_cow: expected exactly two match arms, found %d' % (len(arms) - 1))
    if not re.search(r'Cow\s*::\s*Borrowed\s*\(\s*source\s*\)\s*,\s*Cow\s*::\s*Borrowed\s*\(\s*name\s*\)', arms[0]):
        raise Untranslatable('insert_cow: first arm is not (Cow::Borrowed(source), Cow::Borrowed(name))')
    a1 = arms[1]
    i = a1.index('{')
    blk1 = a1[i + 1:match_close(a1, i, '{', '}')]
    a2 = arms[2]
    i = a2.index('{')
    blk2 = a2[i + 1:match_close(a2, i, '{', '}')]
    rest = body[:m.start()] + body[match_close(body, m.end() - 1, '{', '}') + 1:]
    if re.search(r'self\s*\.\s*(borrowed_templates|owned_templates)', rest):
        raise Untranslatable('insert_cow touches the store outside the match')
    model['add_borrowed'] = events_of(blk1)
    model['add_owned'] = events_of(blk2)
    model['remove'] = translate_remove(fn_body(impl, 'remove'))
    model['clear'] = events_of(fn_body(impl, 'clear'))
    model['get'] = translate_get(fn_body(impl, 'get'))
    for k in ('add_borrowed', 'add_owned'):
        kinds = [e[0] for e in model[k]]
        if kinds.count('compile') != 1:
            raise Untranslatable('%s: expected exactly one compile step, found %d' % (k, kinds.count('compile')))
        if 'bail_if_compile_failed' not in kinds:
            raise Untranslatable('%s: the compile result is not propagated with ok!()' % k)
    return model


def translate_remove(body):
    """remove: a straight-line sequence, or `if self.X.remove(name).is_none() { self.Y.remove(name); }`."""
    m = re.search(r'if\s+self\s*\.\s*(borrowed|owned)_templates\s*\.\s*remove\s*\(\s*name\s*\)\s*\.\s*(is_none|is_some)\s*\(\s*\)\s*\{', body)
    if not m:
        return events_of(body)
    close = match_close(body, m.end() - 1, '{', '}')
    inner = events_of(body[m.end():close])
    rest = body[:m.start()] + body[close + 1:]
    if rest.strip().strip(';').strip():
        if re.search(r'\belse\b', rest):
            raise Untranslatable('remove: else branch not modelled')
    first = 'b' if m.group(1) == 'borrowed' else 'o'
    return [('remove_then_if', first, m.group(2) == 'is_none', inner)] + events_of(rest)


def translate_get(body):
    """get: `if let Some(rv) = self.T1.get(name) { Ok } else { ... self.T2.get_or_try_insert(.. loader ..) }`
    -> lookup order [T1, T2], memoising the loader's answer in T2."""
    m = re.search(r'if\s+let\s+Some\s*\(\s*\w+\s*\)\s*=\s*self\s*\.\s*(borrowed|owned)_templates\s*\.\s*get\s*\(\s*name\s*\)', body)
    if not m:
        raise Untranslatable('get: expected `if let Some(..) = self.<tier>.get(name)` first')
    first = 'b' if m.group(1) == 'borrowed' else 'o'
    m2 = re.search(r'self\s*\.\s*(borrowed|owned)_templates\s*\.\s*get_or_try_insert\s*\(', body[m.end():])
    if not m2:
        raise Untranslatable('get: expected a memoising `get_or_try_insert` on the other tier')
    second = 'b' if m2.group(1) == 'borrowed' else 'o'
    if first == second:
        raise Untranslatable('get: both lookups on the same tier')
    if not re.search(r'self\s*\.\s*loader', body):
        raise Untranslatable('get: loader not consulted')
    if not re.search(r'make_owned_template|CompiledTemplate\s*::\s*new', body):
        raise Untranslatable('get: loaded source is not compiled')
    return dict(order=[first, second], memo=second)


# --------------------------------------------------------------------------
# events -> z3 transition relation
# --------------------------------------------------------------------------

NAMES = 2          # names 0..NAMES-1 (the history quantifies over which name each operation uses)
SRCS = 4           # sources 1..SRCS (0 = "no template"); whether a source compiles is a symbolic predicate
OPS = ['add_borrowed', 'add_owned', 'remove', 'clear', 'get', 'disk']


class Sym:
    def __init__(self, model):
        self.model = model
        self.I = z3.IntSort()
        self.compiles = z3.Function('compiles', self.I, z3.BoolSort())

    def fresh_state(self, tag):
        return dict(b=z3.Array('b_%s' % tag, self.I, self.I), o=z3.Array('o_%s' % tag, self.I, self.I),
                    d=z3.Array('d_%s' % tag, self.I, self.I), w=z3.Array('w_%s' % tag, self.I, self.I))

    def empty_state(self):
        k = z3.K(self.I, z3.IntVal(0))
        return dict(b=k, o=k, d=k, w=k)

    def run_events(self, evs, st, n, s):
        """Symbolic execution of an event list; returns (b, o, failed) as ite-terms."""
        b, o = st['b'], st['o']
        done = z3.BoolVal(False)     # an early return has happened
        failed = z3.BoolVal(False)
        ok = self.compiles(s)

        def upd(cur, new):
            return z3.If(done, cur, new)
        for e in evs:
            if e[0] == 'compile':
                continue
            if e[0] == 'bail_if_compile_failed':
                failed = z3.Or(failed, z3.And(z3.Not(done), z3.Not(ok)))
                done = z3.Or(done, z3.Not(ok))
            elif e[0] == 'remove':
                if e[1] == 'b':
                    b = upd(b, z3.Store(b, n, 0))
                else:
                    o = upd(o, z3.Store(o, n, 0))
            elif e[0] == 'insert':
                if e[1] == 'b':
                    b = upd(b, z3.Store(b, n, s))
                else:
                    o = upd(o, z3.Store(o, n, s))
            elif e[0] == 'clear':
                k = z3.K(self.I, z3.IntVal(0))
                if e[1] == 'b':
                    b = upd(b, k)
                else:
                    o = upd(o, k)
            elif e[0] == 'remove_then_if':
                _, first, when_none, inner = e
                cur = b if first == 'b' else o
                was_none = z3.Select(cur, n) == 0
                cond = was_none if when_none else z3.Not(was_none)
                if first == 'b':
                    b = upd(b, z3.Store(b, n, 0))
                else:
                    o = upd(o, z3.Store(o, n, 0))
                b2, o2, _ = self.run_events(inner, dict(b=b, o=o), n, s)
                b = upd(b, z3.If(cond, b2, b))
                o = upd(o, z3.If(cond, o2, o))
            else:
                raise Untranslatable('event %r' % (e,))
        return b, o, failed

    def impl_step(self, st, op, n, s):
        """(next b, next o, next disk, call failed) of the implementation as translated from the source."""
        outs = {}
        for name in ('add_borrowed', 'add_owned', 'remove', 'clear'):
            outs[name] = self.run_events(self.model[name], st, n, s)
        g = self.model['get']
        t1 = st[g['order'][0]]
        t2 = st[g['order'][1]]
        hit1 = z3.Select(t1, n) != 0
        hit2 = z3.Select(t2, n) != 0
        disk = z3.Select(st['d'], n)
        load_ok = z3.And(disk != 0, self.compiles(disk))
        memo = z3.Store(st[g['memo']], n, disk)
        gb, go = st['b'], st['o']
        if g['memo'] == 'o':
            go = z3.If(z3.And(z3.Not(hit1), z3.Not(hit2), load_ok), memo, st['o'])
        else:
            gb = z3.If(z3.And(z3.Not(hit1), z3.Not(hit2), load_ok), memo, st['b'])
        gfail = z3.And(z3.Not(hit1), z3.Not(hit2), z3.Not(load_ok))
        outs['get'] = (gb, go, gfail)
        outs['disk'] = (st['b'], st['o'], z3.BoolVal(False))
        b = outs['disk'][0]
        o = outs['disk'][1]
        f = outs['disk'][2]
        for i, name in enumerate(OPS[:-1]):
            b = z3.If(op == i, outs[name][0], b)
            o = z3.If(op == i, outs[name][1], o)
            f = z3.If(op == i, outs[name][2], f)
        d = z3.If(op == OPS.index('disk'), z3.Store(st['d'], n, s), st['d'])
        return b, o, d, f

    def served(self, st, n):
        """What the implementation hands out for name n without consulting the loader (read off `get`)."""
        g = self.model['get']
        t1, t2 = st[g['order'][0]], st[g['order'][1]]
        return z3.If(z3.Select(t1, n) != 0, z3.Select(t1, n), z3.Select(t2, n))

    def spec_step(self, st, op, n, s):
        """The reference: W maps a name to the source a fresh environment with the same contents serves."""
        w = st['w']
        ok = self.compiles(s)
        add_w = z3.If(ok, z3.Store(w, n, s), w)
        disk = z3.Select(st['d'], n)
        load_ok = z3.And(disk != 0, self.compiles(disk))
        have = z3.Select(w, n) != 0
        get_w = z3.If(z3.And(z3.Not(have), load_ok), z3.Store(w, n, disk), w)
        k = z3.K(self.I, z3.IntVal(0))
        nw = z3.If(z3.Or(op == 0, op == 1), add_w,
                   z3.If(op == 2, z3.Store(w, n, 0), z3.If(op == 3, k, z3.If(op == 4, get_w, w))))
        fail = z3.If(z3.Or(op == 0, op == 1), z3.Not(ok), z3.If(op == 4, z3.And(z3.Not(have), z3.Not(load_ok)), False))
        return nw, fail


def bmc(model, K, timeout_ms=120000):
    """Is there a history of <= K steps after which implementation and specification differ?"""
    S = Sym(model)
    sol = z3.Solver()
    sol.set('timeout', timeout_ms)
    st = S.empty_state()
    ops, names, srcs = [], [], []
    bad = []
    for i in range(K):
        op, n, s = z3.Int('op%d' % i), z3.Int('n%d' % i), z3.Int('s%d' % i)
        ops.append(op); names.append(n); srcs.append(s)
        sol.add(op >= 0, op < len(OPS), n >= 0, n < NAMES, s >= 0, s <= SRCS)
        # add_* carry a real source; "disk" may also delete the file (s == 0)
        sol.add(z3.Implies(op <= 1, s >= 1))
        b, o, d, f = S.impl_step(st, op, n, s)
        w, sf = S.spec_step(st, op, n, s)
        nst = dict(b=b, o=o, d=d, w=w)
        diff = [S.served(nst, z3.IntVal(q)) != z3.Select(w, z3.IntVal(q)) for q in range(NAMES)]
        bad.append(z3.Or(f != sf, *diff))
        st = nst
    sol.add(z3.Or(*bad))
    t0 = time.time()
    r = sol.check()
    dt = time.time() - t0
    if r == z3.sat:
        m = sol.model()
        hist = []
        for i in range(K):
            hist.append(dict(op=OPS[m.eval(ops[i], model_completion=True).as_long()],
                             name=m.eval(names[i], model_completion=True).as_long(),
                             source=m.eval(srcs[i], model_completion=True).as_long()))
        comp = {}
        for s in range(1, SRCS + 1):
            comp[s] = z3.is_true(m.eval(S.compiles(z3.IntVal(s)), model_completion=True))
        return 'sat', dt, dict(history=hist, compiles=comp)
    return str(r), dt, None


def induction(model, timeout_ms=60000):
    """One step from ANY state in which no name lives in both tiers and W is what the store serves."""
    S = Sym(model)
    st = S.fresh_state('pre')
    def inv(state, q):
        return z3.And(z3.Not(z3.And(z3.Select(state['b'], q) != 0, z3.Select(state['o'], q) != 0)),
                      S.served(state, q) == z3.Select(state['w'], q),
                      z3.Select(state['b'], q) >= 0, z3.Select(state['o'], q) >= 0)
    op, n, s = z3.Int('op'), z3.Int('n'), z3.Int('s')
    sol = z3.Solver()
    sol.set('timeout', timeout_ms)
    # the invariant, instantiated for every name of the (finite) name space
    for q in range(NAMES):
        sol.add(inv(st, z3.IntVal(q)), z3.Select(st['d'], z3.IntVal(q)) >= 0)
    sol.add(op >= 0, op < len(OPS), n >= 0, n < NAMES, s >= 0, z3.Implies(op <= 1, s >= 1))
    b, o, d, f = S.impl_step(st, op, n, s)
    w, sf = S.spec_step(st, op, n, s)
    nst = dict(b=b, o=o, d=d, w=w)
    post_bad = [f != sf]
    for q in range(NAMES):
        post_bad.append(z3.Not(inv(nst, z3.IntVal(q))))
    sol.add(z3.Or(*post_bad))
    t0 = time.time()
    r = sol.check()
    return str(r), time.time() - t0


# --------------------------------------------------------------------------
# native side
# --------------------------------------------------------------------------

GOOD_SRC = {1: 'one', 2: 'two', 3: 'three', 4: 'four'}


def concretise(hist, compiles):
    """history over abstract sources -> request for native/store: a source that must not compile gets a
    syntax error appended (still distinct per source id)."""
    def text(s):
        t = GOOD_SRC[s]
        return t if compiles.get(s, True) else t + '{% if %}'
    ops = []
    for h in hist:
        nm = 'n%d' % h['name']
        if h['op'] == 'disk':
            ops.append(dict(op='disk', name=nm, source=(text(h['source']) if h['source'] else None)))
        elif h['op'] in ('add_borrowed', 'add_owned'):
            ops.append(dict(op=h['op'], name=nm, source=text(h['source'])))
        else:
            ops.append(dict(op=h['op'], name=nm))
    return dict(probes=['n%d' % i for i in range(NAMES)], with_loader=True, ops=ops)


def spec_run(req):
    """The specification executed concretely (python): expected result and served map after each step."""
    w, disk = {}, {}
    out = []
    for op in req['ops']:
        n = op.get('name')
        ok = True
        if op['op'] in ('add_borrowed', 'add_owned'):
            if '{% if %}' in op['source']:
                ok = False
            else:
                w[n] = op['source']
        elif op['op'] == 'remove':
            w.pop(n, None)
        elif op['op'] == 'clear':
            w.clear()
        elif op['op'] == 'disk':
            if op['source'] is None:
                disk.pop(n, None)
            else:
                disk[n] = op['source']
        elif op['op'] == 'get':
            if n not in w:
                s = disk.get(n)
                if s is not None and '{% if %}' not in s:
                    w[n] = s
                else:
                    ok = False
        out.append(dict(result='ok' if ok else 'err', served={p: w.get(p) for p in req['probes']}))
    return out


def build_native():
    p = subprocess.run(['cargo', 'build', '--offline', '--bin', 'store'], cwd=nativelib.native_dir(), env=ENV,
                       stdout=subprocess.PIPE, stderr=subprocess.STDOUT, text=True)
    return None if p.returncode == 0 else p.stdout[-2000:]


def run_native(reqs):
    inp = '\n'.join(json.dumps(r) for r in reqs) + '\n'
    p = subprocess.run([os.path.join(NATIVE, 'store')], input=inp, stdout=subprocess.PIPE, stderr=subprocess.PIPE,
                       text=True, timeout=120)
    return [json.loads(l) for l in p.stdout.split('\n') if l.strip()]


def first_divergence(req, native):
    want = spec_run(req)
    for i, (a, b) in enumerate(zip(native['steps'], want)):
        if a['result'] != b['result'] or a['served'] != b['served']:
            return dict(step=i, op=req['ops'][i], real=a, expected=b)
    return None


def history_key(req, div):
    """A role-based description of the failing history (used to match known findings): the operation kinds up
    to the diverging step, restricted to the operations on the name that diverges."""
    return '>'.join(o['op'] + ('!' if '{% if %}' in (o.get('source') or '') else '') for o in req['ops'][:div['step'] + 1])


def run_c15(prop, tier, seed):
    t0 = time.time()
    ev = dict(engine='L', violations=[], known_hits=[], problems=[], coverage={})
    try:
        model = translate(REPO)
    except Untranslatable as e:
        ev['problems'].append('engine L: loader.rs does not fit the store grammar: %s' % e)
        return ev
    err = build_native()
    if err:
        ev['problems'].append('engine L: native store tool did not build: ' + err[-300:])
        return ev
    K = 4 if tier == 'quick' else 6
    queries = []
    # ---- translation validation: random histories, model (python replica of the z3 transition) vs the real store
    rnd = random.Random(seed * 31 + 15)
    reqs = []
    for _ in range(60 if tier == 'quick' else 300):
        hist = [dict(op=rnd.choice(OPS), name=rnd.randrange(NAMES), source=rnd.randrange(1, SRCS + 1)) for _ in range(rnd.randrange(2, 8))]
        comp = {s: rnd.random() < 0.7 for s in range(1, SRCS + 1)}
        reqs.append((hist, comp, concretise(hist, comp)))
    nat = run_native([r[2] for r in reqs])
    validated, mismatches = 0, []
    for (hist, comp, req), n in zip(reqs, nat):
        pred = predict(model, hist, comp)
        real = [(s['result'] == 'err', s['served']) for s in n['steps']]
        if pred != real:
            mismatches.append(dict(history=req['ops'], predicted=pred, real=real))
        validated += 1
    if mismatches:
        ev['problems'].append('engine L: the model translated from loader.rs mispredicts the real store on %d of %d random '
                              'histories (translation is wrong, nothing is reported), first: %s' % (
                                  len(mismatches), validated, json.dumps(mismatches[0])[:400]))
    # ---- deciding query 1: BMC over histories
    verdict, dt, cex = bmc(model, K)
    queries.append(dict(query='bmc histories <= %d steps, %d names, %d sources' % (K, NAMES, SRCS), verdict=verdict, z3_s=round(dt, 2)))
    samples = []
    known = load_known(prop)
    found = []
    excluded = []
    rounds = 0
    while verdict == 'sat' and rounds < 6 and not mismatches:
        rounds += 1
        req = concretise(cex['history'], cex['compiles'])
        n = run_native([req])[0]
        div = first_divergence(req, n)
        if div is None:
            ev['problems'].append('engine L: solver history does not diverge on the real store (model wrong?): %s' % json.dumps(req['ops'])[:300])
            break
        key = history_key(req, div)
        rp = os.path.join(nativelib.replay_dir(), '%s-store-%d.json' % (prop, rounds))
        json.dump(dict(engine='L', property=prop, request=req, divergence=div, key=key,
                       how='bin/check %s --replay %s' % (prop, rp)), open(rp, 'w'), indent=1)
        kf = next((k for k in known if k.get('history_key') == key), None)
        item = dict(replay=rp, failed=[dict(desc='history %s: step %d (%s) real=%s expected=%s' % (
            key, div['step'], div['op']['op'], json.dumps(div['real']), json.dumps(div['expected'])), loc='minijinja/src/loader.rs LoaderStore')])
        if kf:
            ev['known_hits'].append((item, kf))
        else:
            ev['violations'].append(item)
            found.append(key)
            break
        break
    if verdict not in ('sat', 'unsat'):
        ev['problems'].append('engine L: z3 answered %s for the history query' % verdict)
    # ---- deciding query 2: induction (histories of every length), reported, and required to hold when BMC holds
    iv, idt = induction(model)
    queries.append(dict(query='inductive step from any tier-disjoint state', verdict=iv, z3_s=round(idt, 2)))
    if verdict == 'unsat' and iv == 'sat':
        log('[C15] note: BMC holds but the tier-disjointness invariant is not inductive for the translated code')
    # samples: a few valid histories
    for (hist, comp, req), n in list(zip(reqs, nat))[:4]:
        samples.append(dict(history=req['ops'], real=n['steps'][-1]))
    nstates = (SRCS + 1) ** (2 * NAMES)
    ev['coverage'] = dict(
        states=nstates, transitions=nstates * len(OPS) * NAMES * (SRCS + 1),
        traces_validated_against_impl=validated, samples=samples,
        evaluations=len(queries), distinct_nontrivial=sum(1 for q in queries if q['verdict'] in ('sat', 'unsat')),
        rule='one evaluation = one z3 query over ALL histories within the bound (operation kind, name, source, '
             'compilability and loader contents symbolic); states/transitions = size of the abstract store space '
             '(2 tiers x %d names x %d sources) the queries range over, not an enumeration' % (NAMES, SRCS),
        queries=queries, history_bound=K, names=NAMES, sources=SRCS,
        translated_model={k: (v if isinstance(v, dict) else [list(map(str, e)) for e in v]) for k, v in model.items()},
        functions=['LoaderStore::insert_cow', 'LoaderStore::remove', 'LoaderStore::clear', 'LoaderStore::get'],
        validation_mismatches=len(mismatches), z3_s=round(sum(q['z3_s'] for q in queries), 2),
        exhaustive=False,
        explanation='z3 bounded model checking of the template store as translated from loader.rs on this run; '
                    'counterexample histories are replayed on the real Environment; the translation is validated '
                    'against the real store on random histories')
    ev['wall_s'] = round(time.time() - t0, 1)
    return ev


def predict(model, hist, comp):
    """Concrete execution of the translated model (python twin of Sym.impl_step) for translation validation."""
    b, o, disk = {}, {}, {}
    out = []
    g = model['get']

    def run(evs, n, s):
        nonlocal b, o
        failed = False
        for e in evs:
            if e[0] == 'compile':
                continue
            if e[0] == 'bail_if_compile_failed':
                if not comp.get(s, True):
                    return True
            elif e[0] == 'remove':
                (b if e[1] == 'b' else o).pop(n, None)
            elif e[0] == 'insert':
                (b if e[1] == 'b' else o)[n] = s
            elif e[0] == 'clear':
                (b if e[1] == 'b' else o).clear()
            elif e[0] == 'remove_then_if':
                _, first, when_none, inner = e
                cur = b if first == 'b' else o
                was_none = n not in cur
                cur.pop(n, None)
                if was_none == when_none:
                    run(inner, n, s)
        return failed
    for h in hist:
        n, s = h['name'], h['source']
        failed = False
        if h['op'] in ('add_borrowed', 'add_owned', 'remove', 'clear'):
            failed = run(model[h['op']], n, s)
        elif h['op'] == 'disk':
            if s:
                disk[n] = s
            else:
                disk.pop(n, None)
        elif h['op'] == 'get':
            tiers = dict(b=b, o=o)
            if n not in tiers[g['order'][0]] and n not in tiers[g['order'][1]]:
                d = disk.get(n)
                if d and comp.get(d, True):
                    tiers[g['memo']][n] = d
                else:
                    failed = True
        tiers = dict(b=b, o=o)
        served = {}
        for q in range(NAMES):
            v = tiers[g['order'][0]].get(q, tiers[g['order'][1]].get(q))
            served['n%d' % q] = None if v is None else (GOOD_SRC[v] if comp.get(v, True) else GOOD_SRC[v] + '{% if %}')
        out.append((failed, served))
    return out


def load_known(prop):
    try:
        d = json.load(open(os.path.join(ROOT, 'known_findings.json')))
    except Exception:
        return []
    items = d.get('findings', d) if isinstance(d, dict) else d
    return [k for k in items if isinstance(k, dict) and k.get('property') == prop and k.get('engine') == 'L']


def replay_c15(path):
    d = json.load(open(path))
    err = build_native()
    if err:
        print(err)
        return False
    n = run_native([d['request']])[0]
    div = first_divergence(d['request'], n)
    print(json.dumps(div, indent=1))
    return div is not None


if __name__ == '__main__':
    m = translate(REPO)
    print(json.dumps({k: v for k, v in m.items()}, indent=1, default=str))
    print(bmc(m, 4))
    print(induction(m))
