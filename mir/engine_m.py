"""Engine M (C05/C06): "restored on every path" for the interpreter's nested-evaluation entry points, decided on MIR.

The functions through which a render enters a nested evaluation - `Executor::perform_super`, `perform_include`,
`call_block` - take resources (a context frame, the block cursor moved by super(), recursion
depth, the macro closure, an output capture) and must give every one of them back on EVERY path to a `return`,
the error paths included: a `State` survives a failed render (render_captured, state.render_block from a
function), so a resource that is not returned changes what the same state renders next.

What is executed symbolically: the MIR rustc emits for those functions from /repo's CURRENT source
(`cargo +nightly rustc -- -Zunpretty=mir`, regenerated on every run).  The control-flow graph (basic blocks,
goto / switchInt / call / drop / assert terminators; cleanup blocks and unwind edges are not followed: panics
are outside) is turned into a typing problem for z3: one integer unknown per basic block and resource (the
amount held on entry), D[entry] = 0, one equation per edge D[target] = D[source] + effect(edge), and
D = 0 at every `return`.  The effect of a fallible acquisition (`push_frame` -> Result, `BlockStack::push`
-> bool, `incr_depth` -> Result) sits on the success edge of the switchInt that tests its result - found by
following the result local through `discriminant`, moves and `Not`.  Boolean parameters (`capture`) are
specialised to each value so that correlated branches do not produce infeasible paths.
`sat`  => a labelling exists => balanced on every path of every length (loops included).
`unsat` => an explicit search produces two concrete block paths that disagree; the finding is then replayed by
scripted scenarios on the real engine (`native/src/bin/restore.rs`): a state that went through the failing
path must render like a fresh one.  Only a scenario that misbehaves natively is a VIOLATION; otherwise exit 2.
"""
import os, re, sys, json, time, subprocess, collections
import z3

ROOT = '/verif'
sys.path.insert(0, os.path.join(ROOT, 'bin'))
import nativelib
REPO = nativelib.REPO
BUILD = nativelib.BUILD


def log(*a):
    print(*a, file=sys.stderr, flush=True)


class MirError(Exception):
    pass


# resource -> (acquire regex, kind of acquisition, release regex)
RESOURCES = {
    'frame': (r'context::Context::<[^>]*>::push_frame\(', 'result', r'context::Context::<[^>]*>::pop_frame\('),
    'cursor': (r'BlockStack::<[^>]*>::push\(', 'bool', r'BlockStack::<[^>]*>::pop\('),
    'depth': (r'context::Context::<[^>]*>::incr_depth\(', 'result', r'context::Context::<[^>]*>::decr_depth\('),
    'closure': (r'context::Context::<[^>]*>::take_closure\(', 'always', r'context::Context::<[^>]*>::reset_closure\('),
    'capture': (r'output::Output::<[^>]*>::begin_capture\(', 'always', r'output::Output::<[^>]*>::end_capture\('),
}
# resources that need not be returned on an error exit (they live in objects the failing call owns)
ERR_EXEMPT = {'capture'}
FUNCTIONS = {
    # name -> (regex on the MIR fn header, resources checked)
    'perform_super': (r'^fn vm::<impl at [^>]*>::perform_super\(', ['frame', 'cursor', 'capture']),
    'perform_include': (r'^fn vm::<impl at [^>]*>::perform_include\(', ['depth', 'closure', 'frame']),
    'call_block': (r'^fn vm::<impl at [^>]*>::call_block\(', ['frame', 'cursor']),
}


def dump_mir(repo, out_dir):
    os.makedirs(out_dir, exist_ok=True)
    lib = os.path.join(repo, 'minijinja', 'src', 'lib.rs')
    os.utime(lib, None)      # cargo prints nothing for an up-to-date crate
    env = dict(os.environ, CARGO_NET_OFFLINE='true', CARGO_TARGET_DIR=os.path.join(out_dir, 'target'))
    p = subprocess.run(['cargo', '+nightly', 'rustc', '--offline', '--lib', '--features', 'fuel,loop_controls', '--', '-Zunpretty=mir', '-C', 'debug-assertions=off'],
                       cwd=os.path.join(repo, 'minijinja'), env=env, stdout=subprocess.PIPE, stderr=subprocess.PIPE, text=True, timeout=900)
    if p.returncode != 0 or 'fn ' not in p.stdout:
        raise MirError('MIR dump failed: ' + p.stderr[-600:])
    return p.stdout


def function_text(mir, header_rx):
    m = re.search(header_rx, mir, re.M)
    if not m:
        return None
    end = mir.index('\n}\n', m.start())
    return mir[m.start():end + 2]


def parse_function(text):
    """-> dict(params={local: type}, blocks={id: dict(cleanup, stmts, term)})"""
    header = text[:text.index('{')]
    params = dict(re.findall(r'(_\d+): ([^,)]+(?:<[^>]*>)?)', header))
    blocks = {}
    for m in re.finditer(r'^    (bb\d+)( \(cleanup\))?: \{\n(.*?)^    \}', text, re.M | re.S):
        lines = [l.strip() for l in m.group(3).split('\n') if l.strip()]
        lines = [l for l in lines if not l.startswith('//')]
        if not lines:
            raise MirError('empty block %s' % m.group(1))
        blocks[m.group(1)] = dict(cleanup=bool(m.group(2)), stmts=lines[:-1], term=lines[-1])
    if 'bb0' not in blocks:
        raise MirError('no bb0')
    return dict(params=params, blocks=blocks)


def successors(term):
    """-> list of (label, target) for non-unwind edges; label: 'goto' | 'ret' | ('sw', value) | 'ok'"""
    t = term
    if t.startswith('goto -> '):
        return [('goto', t[len('goto -> '):].rstrip(';'))]
    if t.startswith('switchInt('):
        m = re.match(r'switchInt\((.*?)\) -> \[(.*)\];', t)
        out = []
        for part in m.group(2).split(', '):
            k, v = part.split(': ')
            out.append((('sw', k), v))
        return out
    if t in ('return;', 'resume;', 'unreachable;') or t.startswith('abort') or 'terminate' in t and '->' not in t:
        return []
    m = re.search(r'-> \[(?:return|success): (bb\d+)', t)
    if m:
        return [('ok', m.group(1))]
    if re.search(r'-> unwind ', t) or t.endswith('-> unwind continue;'):
        return []       # diverging call
    if re.search(r'-> (bb\d+);', t):
        return [('ok', re.search(r'-> (bb\d+);', t).group(1))]
    raise MirError('unknown terminator: %s' % t[:120])


def call_of(term):
    # the callee text may itself contain ' -> ' (fn pointer types): cut at the terminator's own target list
    m = re.match(r'(_\d+) = (.*) -> (?:\[(?:return|success)|unwind |bb\d+;)', term)
    if m and '(' in m.group(2):
        return m.group(1), m.group(2)
    return None, None


def derive_map(fn):
    """local -> (origin local, kind) for locals derived from another local by discriminant / move / copy / Not."""
    der = {}
    count = collections.Counter()
    for b in fn['blocks'].values():
        for s in b['stmts']:
            m = re.match(r'(_\d+) = (.*);$', s)
            if not m:
                continue
            dst, rhs = m.group(1), m.group(2)
            count[dst] += 1
            m2 = re.match(r'discriminant\((_\d+)\)$', rhs)
            if m2:
                der[dst] = (m2.group(1), 'disc')
                continue
            m2 = re.match(r'(?:move|copy) (_\d+)$', rhs)
            if m2:
                der[dst] = (m2.group(1), 'same')
                continue
            m2 = re.match(r'Not\((?:move|copy) (_\d+)\)$', rhs)
            if m2:
                der[dst] = (m2.group(1), 'not')
        d, callee = call_of(b['term'])
        if d:
            count[d] += 1
            m3 = re.search(r'as Try>::branch\((?:move|copy) (_\d+)\)', callee or '') or \
                re.search(r'^Result::<.*?>::map_err::<.*?>\((?:move|copy) (_\d+),', callee or '')
            if m3:
                # ControlFlow::Continue (0) <=> Ok (0): same polarity as the Result it was made from
                der[d] = (m3.group(1), 'same')
    return der, count


def specialisations(fn):
    """boolean parameters that are branched on: analyse each value separately"""
    bools = [l for l, t in fn['params'].items() if t.strip() == 'bool']
    used = []
    for l in bools:
        for b in fn['blocks'].values():
            if re.match(r'switchInt\((?:copy|move) %s\)' % l, b['term']):
                used.append(l)
                break
    if not used:
        return [{}]
    out = [{}]
    for l in used:
        out = [dict(o, **{l: v}) for o in out for v in (0, 1)]
    return out


def edges_with_effects(fn, resource, spec):
    """-> (edges [(src, dst, effect)], returns [bb], problems)"""
    acq_rx, kind, rel_rx = RESOURCES[resource]
    der, defcount = derive_map(fn)
    problems = []
    # fallible acquisitions: destination local -> call id
    pending = {}
    for bid, b in fn['blocks'].items():
        if b['cleanup']:
            continue
        dst, callee = call_of(b['term'])
        if dst and re.search(acq_rx, callee) and kind != 'always':
            pending[dst] = bid

    def origin(local):
        """follow derivations back to an acquisition result: -> (call block, 'val'|'disc', negated) or None"""
        neg = False
        form = 'val'
        seen = 0
        while seen < 10:
            seen += 1
            if local in pending:
                return pending[local], form, neg
            if local not in der or defcount[local] > 1:
                return None
            src, k = der[local]
            if k == 'disc':
                form = 'disc'
            elif k == 'not':
                neg = not neg
            local = src
        return None
    tested = set()
    edges, returns = [], []
    for bid, b in fn['blocks'].items():
        if b['cleanup']:
            continue
        t = b['term']
        if t == 'return;':
            returns.append(bid)
            continue
        succ = successors(t)
        dst, callee = call_of(t)
        is_err_exit = any(re.match(r'_0 = Result::<.*>::Err\(', st) for st in b['stmts'])
        for label, tgt in succ:
            if tgt not in fn['blocks'] or fn['blocks'][tgt]['cleanup']:
                continue
            if fn['blocks'][tgt]['term'] == 'unreachable;':
                continue          # the impossible arm of an exhaustive match
            if resource in ERR_EXEMPT and is_err_exit and fn['blocks'][tgt]['term'] == 'return;':
                continue          # an Output does not outlive the render call that failed
            eff = 0
            if label == 'ok' and dst:
                if re.search(rel_rx, callee):
                    eff = -1
                elif re.search(acq_rx, callee) and kind == 'always':
                    eff = 1
            if isinstance(label, tuple):
                m = re.match(r'switchInt\((?:copy|move) (_\d+)\)', t)
                loc = m.group(1)
                if loc in spec:
                    # specialised boolean parameter: keep only the edge taken for this value
                    val = spec[loc]
                    keys = [l[1] for l, _ in succ]
                    take = str(val) if str(val) in keys else 'otherwise'
                    if label[1] != take:
                        continue
                else:
                    o = origin(loc)
                    if o is not None:
                        cb, form, neg = o
                        tested.add(cb)
                        if kind == 'bool':
                            success = (label[1] != '0')
                        else:
                            success = (label[1] == '0') if form == 'disc' else (label[1] != '0')
                        if neg:
                            success = not success
                        if label[1] == 'otherwise' and form == 'disc':
                            continue          # the unreachable arm of a two-variant match
                        if success:
                            eff = 1
            edges.append((bid, tgt, eff))
    for dst, cb in pending.items():
        if cb not in tested:
            problems.append('the result of the fallible %s acquisition in %s is never tested' % (resource, cb))
    return edges, returns, problems


def solve_typing(fn, resource, spec):
    edges, returns, problems = edges_with_effects(fn, resource, spec)
    if problems:
        return 'unknown', problems, 0.0, {}
    s = z3.Solver()
    s.set('timeout', 30000)
    D = {b: z3.Int('D_%s' % b) for b in fn['blocks'] if not fn['blocks'][b]['cleanup']}
    s.add(D['bb0'] == 0)
    # only blocks reachable from bb0 matter
    adj = collections.defaultdict(list)
    for a, b, e in edges:
        adj[a].append((b, e))
    reach = {'bb0'}
    todo = ['bb0']
    while todo:
        x = todo.pop()
        for y, _ in adj[x]:
            if y not in reach:
                reach.add(y)
                todo.append(y)
    n = 0
    for a, b, e in edges:
        if a in reach:
            s.add(D[b] == D[a] + e)
            n += 1
    for r in returns:
        if r in reach:
            s.add(D[r] == 0)
    t0 = time.time()
    res = s.check()
    dt = time.time() - t0
    stats = dict(blocks=len(reach), edges=n, returns=len([r for r in returns if r in reach]),
                 acquisitions=sum(1 for a, b, e in edges if e == 1 and a in reach), releases=sum(1 for a, b, e in edges if e == -1 and a in reach))
    if res == z3.sat:
        return 'sat', None, dt, stats
    if res != z3.unsat:
        return str(res), None, dt, stats
    # explicit search: a path to a return with a non-zero balance, or two paths to one block with different balances
    best = {}
    queue = collections.deque([('bb0', 0, ['bb0'])])
    conflict = None
    steps = 0
    while queue and steps < 20000 and conflict is None:
        steps += 1
        b, d, path = queue.popleft()
        if b in best:
            if best[b][0] != d:
                conflict = dict(kind='two paths reach %s holding %d and %d' % (b, best[b][0], d), path_a=best[b][1], path_b=path)
            continue
        best[b] = (d, path)
        if b in returns and d != 0:
            conflict = dict(kind='return in %s with balance %+d' % (b, d), path_a=path, path_b=None)
            break
        for y, e in adj[b]:
            queue.append((y, d + e, path + [y]))
    return 'unsat', conflict, dt, stats


def calls_on_path(fn, path):
    out = []
    for b in path or []:
        _, callee = call_of(fn['blocks'][b]['term'])
        if callee:
            name = re.sub(r'<[^<>]*>', '', callee.split('(')[0])
            name = re.sub(r'<[^<>]*>', '', name)
            out.append(name.split('::')[-2] + '::' + name.split('::')[-1] if '::' in name else name)
    return out


def check_include_tries_next_candidate(fn):
    """perform_include: when a candidate cannot be loaded (the Err edge of the test of `State::get_template`'s
    result) the function either fails (an exit that sets `_0 = Err`) or asks the iterator for the NEXT candidate
    before it can succeed: P := 1 on that Err edge, P := 0 at `Iterator::next`, P = 0 required wherever
    `_0 = Ok(..)` is set (assignment semantics, not a counter)."""
    adj, preds = cfg(fn)
    der, defcount = derive_map(fn)
    loads = set()
    for b in fn['blocks'].values():
        dst, callee = call_of(b['term'])
        if dst and re.search(r'State::<[^>]*>::get_template\(', callee):
            loads.add(dst)
    s_ = z3.Solver()
    s_.set('timeout', 30000)
    D = {b: z3.Int('P_%s' % b) for b in fn['blocks'] if not fn['blocks'][b]['cleanup']}
    s_.add(D['bb0'] == 0)
    n = fails = nexts = oks = 0
    for bid in adj:
        blk = fn['blocks'][bid]
        if any(re.match(r'_0 = ', st) for st in blk['stmts']):
            if any(re.match(r'_0 = Result::<.*>::Ok\(', st) for st in blk['stmts']):
                s_.add(D[bid] == 0)
                oks += 1
            continue
        _, callee = call_of(blk['term'])
        is_next = bool(callee and re.search(r'as Iterator>::next\(', callee))
        nexts += is_next
        for label, tgt in adj[bid]:
            _, tcallee = call_of(fn['blocks'][tgt]['term'])
            if tcallee and re.search(r'as Iterator>::next\(', tcallee) and not is_next:
                n += 1
                continue          # P is overwritten by that block: its value on entry is irrelevant
            eff = None
            if label == 'ok' and is_next:
                eff = 0
            if isinstance(label, tuple):
                m = re.match(r'switchInt\((?:copy|move) (_\d+)\)', blk['term'])
                loc = m.group(1)
                if loc in der and der[loc][1] == 'disc' and der[loc][0] in loads and label[1] == '1':
                    eff = 1
                    fails += 1
            if eff is None:
                s_.add(D[tgt] == D[bid])
            else:
                s_.add(D[tgt] == eff)
            n += 1
    t0 = time.time()
    r = s_.check()
    dt = time.time() - t0
    stats = dict(blocks=len(D), edges=n, load_failure_edges=fails, next_calls=nexts, ok_exits=oks)
    if fails == 0 or nexts == 0 or oks == 0:
        return 'unknown', dict(kind='perform_include: candidate loop not recognised (load failures=%d next=%d ok exits=%d)' % (fails, nexts, oks), path_a=None, path_b=None), dt, stats
    if r == z3.sat:
        return 'sat', None, dt, stats
    if r != z3.unsat:
        return str(r), None, dt, stats
    return 'unsat', dict(kind='after a candidate that could not be loaded the function can succeed without asking for the next candidate', path_a=None, path_b=None), dt, stats


# ---------------------------------------------------------------------------------------------
# State::with_execution_state (C06): a nested evaluation started with BlockState::Replace (include / import) ALWAYS
# swaps in the given block table before the nested code runs - whatever the table contains
# ---------------------------------------------------------------------------------------------
def check_replace_always_swaps(mir, repo):
    text = function_text(mir, r'^fn state::<impl at [^>]*>::with_execution_state\(')
    if text is None:
        return 'unknown', dict(kind='with_execution_state not found in the MIR'), 0.0, {}
    src = open(os.path.join(repo, 'minijinja', 'src', 'vm', 'state.rs'), encoding='utf-8').read()
    m = re.search(r'enum BlockState<[^>]*> \{(.*?)\n\}', src, re.S)
    if not m:
        return 'unknown', dict(kind='enum BlockState not found'), 0.0, {}
    variants = re.findall(r'^\s{4}([A-Z]\w*)', re.sub(r'\s*///[^\n]*', '', re.sub(r'#\[[^\]]*\]', '', m.group(1))), re.M)
    if 'Replace' not in variants:
        return 'unknown', dict(kind='BlockState::Replace not found'), 0.0, {}
    ridx = str(variants.index('Replace'))
    fn = parse_function(text)
    param = [l for l, t in fn['params'].items() if 'BlockState' in t]
    if not param:
        return 'unknown', dict(kind='block_state parameter not found'), 0.0, {}
    der, _ = derive_map(fn)
    adj, preds = cfg(fn)
    s_ = z3.Solver()
    D = {b: z3.Int('R_%s' % b) for b in fn['blocks'] if not fn['blocks'][b]['cleanup']}
    s_.add(D['bb0'] == 0)
    swaps = calls = 0
    for bid, blk in fn['blocks'].items():
        if blk['cleanup']:
            continue
        _, callee = call_of(blk['term'])
        is_swap = bool(callee and re.match(r'std::mem::replace::<BTreeMap<&str, (?:vm::state::)?BlockStack<', callee))
        is_nested = bool(callee and re.search(r'as FnOnce<.*>>::call_once\(', callee))
        swaps += is_swap
        if is_nested:
            s_.add(D[bid] == 1)
            calls += 1
            continue           # what happens after the nested evaluation is the restore, checked by the scenarios
        for label, tgt in adj[bid]:
            if isinstance(label, tuple):
                mm = re.match(r'switchInt\((?:copy|move) (_\d+)\)', blk['term'])
                loc = mm.group(1)
                if loc in der and der[loc][1] == 'disc' and der[loc][0] in param:
                    keys = [l[1] for l, _ in adj[bid] if isinstance(l, tuple)]
                    take = ridx if ridx in keys else 'otherwise'
                    if label[1] != take:
                        continue
            s_.add(D[tgt] == (1 if (label == 'ok' and is_swap) else D[bid]))
    t0 = time.time()
    r = s_.check()
    dt = time.time() - t0
    stats = dict(swap_calls=swaps, nested_calls=calls, replace_index=int(ridx))
    if calls == 0 or swaps == 0:
        return 'unknown', dict(kind='block swap / nested call not recognised (swaps=%d, calls=%d)' % (swaps, calls)), dt, stats
    if r == z3.sat:
        return 'sat', None, dt, stats
    if r != z3.unsat:
        return str(r), None, dt, stats
    return 'unsat', dict(kind='with BlockState::Replace the nested code can start without the given block table having been swapped in'), dt, stats


def check_context_swapped_back(mir):
    """eval_macro: the caller's Context is swapped out with mem::replace before the macro body runs and swapped
    back on EVERY way out (also when the body fails).  W flips at each mem::replace::<Context>; W = 1 at the nested
    evaluation, W = 0 at return."""
    text = function_text(mir, r'^fn vm::<impl at [^>]*>::eval_macro\(')
    if text is None:
        return 'unknown', dict(kind='Executor::eval_macro not found in the MIR'), 0.0, {}
    fn = parse_function(text)
    adj, preds = cfg(fn)
    s_ = z3.Solver()
    s_.set('timeout', 30000)
    D = {b: z3.Int('W_%s' % b) for b in fn['blocks'] if not fn['blocks'][b]['cleanup']}
    s_.add(D['bb0'] == 0)
    swaps = nested = n = 0
    for bid in adj:
        blk = fn['blocks'][bid]
        dst, callee = call_of(blk['term'])
        is_swap = bool(callee and re.match(r'(?:std|core)::mem::replace::<context::Context<', callee))
        swaps += is_swap
        if callee and re.search(r'with_execution_state::<', callee):
            s_.add(D[bid] == 1)
            nested += 1
        if blk['term'] == 'return;':
            s_.add(D[bid] == 0)
        for label, tgt in adj[bid]:
            if tgt not in D:
                continue
            s_.add(D[tgt] == (1 - D[bid] if (is_swap and label == 'ok') else D[bid]))
            n += 1
    t0 = time.time()
    r = s_.check()
    dt = time.time() - t0
    stats = dict(blocks=len(D), edges=n, swaps=swaps, nested_evaluations=nested)
    if not swaps or not nested:
        return 'unknown', dict(kind='no context swap / nested evaluation found in eval_macro'), dt, stats
    if r == z3.sat:
        return 'sat', None, dt, stats
    if r == z3.unsat:
        return 'unsat', dict(kind='a way out of eval_macro leaves the macro\'s private context installed in the state (the swap back is skipped)'), dt, stats
    return str(r), None, dt, stats


def analyse(repo, out_dir):
    mir = dump_mir(repo, out_dir)
    results = []
    for fname, (hdr, resources) in FUNCTIONS.items():
        text = function_text(mir, hdr)
        if text is None:
            results.append(dict(function=fname, verdict='missing', detail='function not found in the MIR dump'))
            continue
        fn = parse_function(text)
        for res in resources:
            for spec in specialisations(fn):
                verdict, info, dt, stats = solve_typing(fn, res, spec)
                r = dict(function=fname, resource=res, spec=spec, verdict=verdict, z3_s=round(dt, 3), **stats)
                if verdict == 'unsat' and info:
                    r['conflict'] = info['kind']
                    r['calls_a'] = calls_on_path(fn, info['path_a'])[-14:]
                    r['calls_b'] = calls_on_path(fn, info['path_b'])[-14:]
                elif verdict == 'unknown':
                    r['detail'] = '; '.join(info)
                results.append(r)
        if fname == 'perform_include':
            verdict, info, dt, stats = check_include_tries_next_candidate(fn)
            r = dict(function=fname, resource='next_candidate', spec={}, verdict=verdict, z3_s=round(dt, 3), **stats)
            if info:
                r['conflict'] = info['kind']
            results.append(r)
    verdict, info, dt, stats = check_replace_always_swaps(mir, repo)
    r = dict(function='with_execution_state', resource='replace_swaps_blocks', spec={}, verdict=verdict, z3_s=round(dt, 3), **stats)
    if info:
        r['conflict'] = info['kind']
        if verdict == 'unknown':
            r['detail'] = info['kind']
    results.append(r)
    verdict, info, dt, stats = check_context_swapped_back(mir)
    r = dict(function='eval_macro', resource='caller_context', spec={}, verdict=verdict, z3_s=round(dt, 3), **stats)
    if info:
        r['conflict'] = info['kind']
        if verdict == 'unknown':
            r['detail'] = info['kind']
    results.append(r)
    return results


if __name__ == '__main__':
    rs = analyse(REPO, os.path.join(BUILD, 'mir'))
    for r in rs:
        print(json.dumps(r))


# ---------------------------------------------------------------------------------------------
# eval_impl: error exits are located (C14); nothing is written after a failed write (C19)
# ---------------------------------------------------------------------------------------------
EVAL_IMPL = r'^fn vm::<impl at [^>]*>::eval_impl\('
WRITE_CALLS = r'(output::Output::<[^>]*>::write_(?:str|fmt|char)\(|^write_escaped\(|^write_with_html_escaping\(|Environment::<[^>]*>::format\(|as std::fmt::Write>::write_fmt\()'


def straight_region_calls(fn, preds, bid, limit=12):
    """callees on the straight-line region that ends in block `bid` (walk back through unique predecessors)"""
    out = []
    cur = bid
    for _ in range(limit):
        ps = preds.get(cur, [])
        if len(ps) != 1:
            break
        cur = ps[0]
        _, callee = call_of(fn['blocks'][cur]['term'])
        if callee:
            out.append(callee)
        if fn['blocks'][cur]['term'].startswith('switchInt') and len(out) > 0:
            # keep walking: the test of the result sits between the call and the exit
            continue
    return out


def cfg(fn):
    adj, preds = collections.defaultdict(list), collections.defaultdict(list)
    for bid, b in fn['blocks'].items():
        if b['cleanup']:
            continue
        for label, tgt in successors(b['term']):
            if tgt in fn['blocks'] and not fn['blocks'][tgt]['cleanup'] and fn['blocks'][tgt]['term'] != 'unreachable;':
                adj[bid].append((label, tgt))
                preds[tgt].append(bid)
    return adj, preds


def check_located(fn):
    """Every error exit of eval_impl (a block that sets `_0 = Err(..)`) is reached only after process_err attached
    the location - except exits whose error is a converted fmt::Error (a failed write; the sink's own error is
    substituted later).  Typing: L = 1 after process_err, L = 0 at the loop head, L = 1 at every non-exempt exit."""
    adj, preds = cfg(fn)
    exits, exempt = [], []
    for bid, b in fn['blocks'].items():
        if b['cleanup']:
            continue
        if any(re.match(r'_0 = Result::<.*>::Err\(', st) for st in b['stmts']):
            calls = straight_region_calls(fn, preds, bid)
            if any('From<std::fmt::Error>>::from' in c for c in calls):
                exempt.append(bid)
            else:
                exits.append(bid)
    s_ = z3.Solver()
    s_.set('timeout', 30000)
    D = {b: z3.Int('L_%s' % b) for b in fn['blocks'] if not fn['blocks'][b]['cleanup']}
    s_.add(D['bb0'] == 0)
    is_exit = set(exits) | set(exempt)
    n = 0
    for bid in adj:
        if bid in is_exit:
            continue            # the state AT the exit is what matters; the shared drop/return tail is not followed
        _, callee = call_of(fn['blocks'][bid]['term'])
        for label, tgt in adj[bid]:
            if fn['blocks'][tgt]['term'] == 'return;':
                continue
            eff = 1 if (label == 'ok' and callee and re.match(r'process_err\(', callee)) else 0
            s_.add(D[tgt] == D[bid] + eff)
            n += 1
    for e in exits:
        s_.add(D[e] == 1)
    t0 = time.time()
    r = s_.check()
    dt = time.time() - t0
    stats = dict(blocks=len(D), edges=n, error_exits=len(exits), exempt_write_exits=len(exempt))
    if r == z3.sat:
        return 'sat', None, dt, stats
    if r != z3.unsat:
        return str(r), None, dt, stats
    # explicit: an exit reachable with L == 0
    seen = {}
    queue = collections.deque([('bb0', 0, ['bb0'])])
    while queue:
        b, d, path = queue.popleft()
        if (b, d) in seen:
            continue
        seen[(b, d)] = path
        if b in exits and d == 0:
            calls = [c.split('(')[0][-70:] for c in straight_region_calls(fn, preds, b)]
            return 'unsat', dict(kind='error exit %s is reached without process_err' % b, calls=calls), dt, stats
        if b in is_exit:
            continue
        _, callee = call_of(fn['blocks'][b]['term'])
        for label, tgt in adj[b]:
            if fn['blocks'][tgt]['term'] == 'return;':
                continue
            eff = 1 if (label == 'ok' and callee and re.match(r'process_err\(', callee)) else 0
            queue.append((tgt, min(d + eff, 2), path + [tgt]))
    return 'unsat', dict(kind='inconsistent location state (process_err inside the loop?)', calls=[]), dt, stats


def check_no_write_after_failed_write(fn, helper=False):
    """After the failure edge of a write (Output::write_str, write_escaped, Environment::format, write_fmt) no
    further write is reachable: F = 1 on the Err edge of the switchInt testing the write's result, and every
    block that calls a write needs F = 0."""
    adj, preds = cfg(fn)
    der, defcount = derive_map(fn)
    writes = {}
    returned = set()
    for bid, b in fn['blocks'].items():
        if b['cleanup']:
            continue
        dst, callee = call_of(b['term'])
        if dst and re.search(WRITE_CALLS + (r'|output::Output::<[^>]*>::write_char\(' if helper else ''), callee):
            if helper and dst == '_0':
                returned.add(bid)       # the write's own result is handed to the caller: nothing can follow it here
            writes[dst] = bid

    def origin(local):
        form, seen = 'val', 0
        while seen < 10:
            seen += 1
            if local in writes:
                return writes[local], form
            if local not in der or defcount[local] > 1:
                return None
            src, k = der[local]
            if k == 'disc':
                form = 'disc'
            local = src
        return None
    if helper:
        # `_0 = map_err(move _w, ..)` / `_0 = move _w`: the write's result is what the function returns
        for b in fn['blocks'].values():
            dst, callee = call_of(b['term'])
            if dst == '_0' and callee:
                mm = re.search(r'map_err::<.*?>\((?:move|copy) (_\d+),', callee)
                if mm and mm.group(1) in writes:
                    returned.add(writes[mm.group(1)])
            for st in b['stmts']:
                mm = re.match(r'_0 = (?:move|copy) (_\d+);', st)
                if mm and mm.group(1) in writes:
                    returned.add(writes[mm.group(1)])
    s_ = z3.Solver()
    s_.set('timeout', 30000)
    D = {b: z3.Int('F_%s' % b) for b in fn['blocks'] if not fn['blocks'][b]['cleanup']}
    s_.add(D['bb0'] == 0)
    tested = set()
    edges = []
    for bid in adj:
        t = fn['blocks'][bid]['term']
        if any(re.match(r'_0 = ', st) for st in fn['blocks'][bid]['stmts']):
            continue            # the function's result is set: what follows is the shared drop/return tail
        for label, tgt in adj[bid]:
            if fn['blocks'][tgt]['term'] == 'return;':
                continue
            eff = 0
            if isinstance(label, tuple):
                m = re.match(r'switchInt\((?:copy|move) (_\d+)\)', t)
                o = origin(m.group(1))
                if o is not None and o[1] == 'disc':
                    tested.add(o[0])
                    if label[1] == '1':
                        eff = 1
            edges.append((bid, tgt, eff))
            s_.add(D[tgt] == D[bid] + eff)
    untested = [b for b in writes.values() if b not in tested and b not in returned]
    for b in writes.values():
        s_.add(D[b] == 0)
    t0 = time.time()
    r = s_.check()
    dt = time.time() - t0
    stats = dict(blocks=len(D), edges=len(edges), write_calls=len(writes), failure_edges=sum(1 for _, _, e in edges if e))
    if untested:
        return 'unsat', dict(kind='the result of the write in %s is never tested (a failed write would go unnoticed)' % untested[0],
                             calls=[call_of(fn['blocks'][untested[0]]['term'])[1].split('(')[0][-60:]]), dt, stats
    if r == z3.sat:
        return 'sat', None, dt, stats
    if r != z3.unsat:
        return str(r), None, dt, stats
    return 'unsat', dict(kind='a write is reachable after a failed write', calls=[]), dt, stats


def check_fuel_charged_once(fn):
    """Between fetching an instruction and dispatching on it, exactly one FuelTracker::track call lies on EVERY
    path when a tracker exists (the branch "no tracker" is pruned), and its result is tested."""
    adj, preds = cfg(fn)
    fetch = [b for b, blk in fn['blocks'].items() if not blk['cleanup'] and re.search(r"Instructions::<[^>]*>::get\(", blk['term'])]
    dispatch = [b for b, blk in fn['blocks'].items() if not blk['cleanup'] and blk['term'].startswith('switchInt') and blk['term'].count('bb') >= 40]
    if len(fetch) != 1 or len(dispatch) != 1:
        return 'unknown', dict(kind='cannot identify the fetch (%d) / dispatch (%d) blocks of the interpreter loop' % (len(fetch), len(dispatch)), calls=[]), 0.0, {}
    F, X = fetch[0], dispatch[0]
    s_ = z3.Solver()
    s_.set('timeout', 30000)
    D = {b: z3.Int('T_%s' % b) for b in fn['blocks'] if not fn['blocks'][b]['cleanup']}
    s_.add(D[F] == 0)
    seen, todo = {F}, [F]
    n = ntrack = 0
    tested = False
    while todo:
        b = todo.pop()
        if b == X:
            continue
        blk = fn['blocks'][b]
        if any(re.match(r'_0 = ', st) for st in blk['stmts']):
            continue
        t = blk['term']
        _, callee = call_of(t)
        # the branch on "is there a tracker": keep only the Some edge
        tracker_test = any(re.search(r'discriminant\(\(\(\*_1\)\.\d+: std::option::Option<vm::fuel::FuelTracker>\)\)', st) for st in blk['stmts']) and t.startswith('switchInt')
        if t.startswith('switchInt') and any(re.match(r'_\d+ = discriminant\(_\d+\)', st) for st in blk['stmts']):
            ps = preds.get(b, [])
            if len(ps) == 1 and re.search(r'FuelTracker::track\(', fn['blocks'][ps[0]]['term']):
                tested = True
        for label, tgt in adj[b]:
            if fn['blocks'][tgt]['term'] == 'return;':
                continue
            if tracker_test and isinstance(label, tuple) and label[1] == '0':
                continue
            eff = 1 if (label == 'ok' and callee and re.search(r'FuelTracker::track\(', callee)) else 0
            ntrack += eff
            s_.add(D[tgt] == D[b] + eff)
            n += 1
            if tgt not in seen:
                seen.add(tgt)
                todo.append(tgt)
    s_.add(D[X] == 1)
    t0 = time.time()
    r = s_.check()
    dt = time.time() - t0
    stats = dict(blocks=len(seen), edges=n, track_calls=ntrack, fetch=F, dispatch=X)
    if X not in seen:
        return 'unknown', dict(kind='the dispatch block is not reachable from the fetch block', calls=[]), dt, stats
    if ntrack and not tested:
        return 'unsat', dict(kind='the result of FuelTracker::track is not tested (running out of fuel would go unnoticed)', calls=[]), dt, stats
    if r == z3.sat:
        return 'sat', None, dt, stats
    if r != z3.unsat:
        return str(r), None, dt, stats
    return 'unsat', dict(kind='some path from the instruction fetch to the dispatch does not charge exactly once (%d track call(s) found)' % ntrack, calls=[]), dt, stats


def check_out_of_fuel_origin(mir):
    """Running out of fuel is decided by FuelTracker::track alone: in every function outside vm::fuel that creates an
    OutOfFuel error, the creating block is reached only through the failure edge of a `track` call (K = 1)."""
    out = []
    for m in re.finditer(r'^fn ([^\n(]+)\(', mir, re.M):
        name = m.group(1)
        end = mir.index('\n}\n', m.start())
        text = mir[m.start():end + 2]
        if 'ErrorKind::OutOfFuel' not in text or re.match(r'(vm::)?fuel::', name):
            continue
        fn = parse_function(text)
        adj, preds = cfg(fn)
        der, defcount = derive_map(fn)
        tracks = set()
        for b in fn['blocks'].values():
            dst, callee = call_of(b['term'])
            if dst and re.search(r'FuelTracker::track\(', callee):
                tracks.add(dst)
        s_ = z3.Solver()
        D = {b: z3.Int('K_%s' % b) for b in fn['blocks'] if not fn['blocks'][b]['cleanup']}
        s_.add(D['bb0'] == 0)
        creators = 0
        for bid, blk in fn['blocks'].items():
            if blk['cleanup']:
                continue
            if any('ErrorKind::OutOfFuel' in st for st in blk['stmts']):
                s_.add(D[bid] == 1)
                creators += 1
            if any(re.match(r'_0 = ', st) for st in blk['stmts']):
                continue
            for label, tgt in adj[bid]:
                if fn['blocks'][tgt]['term'] == 'return;':
                    continue
                eff = None
                if isinstance(label, tuple):
                    mm = re.match(r'switchInt\((?:copy|move) (_\d+)\)', blk['term'])
                    loc = mm.group(1)
                    if loc in der and der[loc][1] == 'disc' and der[loc][0] in tracks and label[1] == '1':
                        eff = 1
                s_.add(D[tgt] == (eff if eff is not None else D[bid]))
        r = s_.check()
        res = dict(function=name[-60:], resource='out_of_fuel_origin', creators=creators, spec={})
        if r == z3.sat:
            res['verdict'] = 'sat'
        else:
            res.update(verdict='unsat', conflict='%s creates an OutOfFuel error on a path that did not go through a failing FuelTracker::track' % name[-50:])
        out.append(res)
    return out


def check_write_results_not_dropped(fn):
    """Path-sensitive: after a write to an Output its result is PENDING (P := 1) until it is tested (the switch on
    its discriminant), handed to the caller (`_0 = ..` derived from it) or propagated (`?` / map_err into `_0`); no
    further write may start and the function may not return while a result is pending."""
    adj, preds = cfg(fn)
    der, defcount = derive_map(fn)
    W = WRITE_CALLS + r'|output::Output::<[^>]*>::write_char\('
    writes = {}
    for bid, b in fn['blocks'].items():
        if b['cleanup']:
            continue
        dst, callee = call_of(b['term'])
        if dst and re.search(W, callee):
            writes[dst] = bid

    def from_write(local, depth=0):
        if local in writes:
            return True
        if depth > 8 or local not in der or defcount[local] > 1:
            return False
        return from_write(der[local][0], depth + 1)
    s_ = z3.Solver()
    s_.set('timeout', 30000)
    D = {b: z3.Int('P_%s' % b) for b in fn['blocks'] if not fn['blocks'][b]['cleanup']}
    s_.add(D['bb0'] == 0)
    n = 0
    for bid, blk in fn['blocks'].items():
        if blk['cleanup']:
            continue
        t = blk['term']
        dst, callee = call_of(t)
        is_write = bool(dst and callee and re.search(W, callee))
        if is_write:
            s_.add(D[bid] == 0)            # no write while an earlier result is pending
        if t == 'return;':
            s_.add(D[bid] == 0)
        # the pending result is consumed by: a test of it, an assignment / call that moves it into _0
        consumes = False
        m = re.match(r'switchInt\((?:copy|move) (_\d+)\)', t)
        if m and from_write(m.group(1)):
            consumes = True
        if dst == '_0' and callee:
            mm = re.search(r'\((?:move|copy) (_\d+)[,)]', callee)
            if mm and from_write(mm.group(1)):
                consumes = True
        for st in blk['stmts']:
            mm = re.match(r'_0 = (?:move|copy) (_\d+);', st)
            if mm and from_write(mm.group(1)):
                consumes = True
        for label, tgt in adj[bid]:
            if label == 'ok' and is_write and dst == '_0':
                s_.add(D[tgt] == 0)        # `_0 = write(..)`: handed to the caller at once
            elif label == 'ok' and is_write:
                s_.add(D[tgt] == 1)
            elif consumes:
                s_.add(D[tgt] == 0)
            else:
                s_.add(D[tgt] == D[bid])
            n += 1
    t0 = time.time()
    r = s_.check()
    dt = time.time() - t0
    stats = dict(blocks=len(D), edges=n, write_calls=len(writes))
    if r == z3.sat:
        return 'sat', None, dt, stats
    if r != z3.unsat:
        return str(r), None, dt, stats
    return 'unsat', dict(kind='the result of a write is dropped on some path (another write or the return is reached while it is pending)', calls=[]), dt, stats


def check_success_comes_from_nested_render(mir):
    """State::render_block_to_write: once the block render was attempted, `Ok` can only be the nested render's own
    result: C := 1 after `call_block`, C = 0 required wherever `_0 = Ok(..)` is set directly."""
    text = function_text(mir, r'^fn state::<impl at [^>]*>::render_block_to_write\(')
    if text is None:
        return None
    fn = parse_function(text)
    adj, preds = cfg(fn)
    s_ = z3.Solver()
    D = {b: z3.Int('C_%s' % b) for b in fn['blocks'] if not fn['blocks'][b]['cleanup']}
    s_.add(D['bb0'] == 0)
    calls = 0
    for bid, blk in fn['blocks'].items():
        if blk['cleanup']:
            continue
        if any(re.match(r'_0 = Result::<.*>::Ok\(', st) for st in blk['stmts']):
            s_.add(D[bid] == 0)
        _, callee = call_of(blk['term'])
        hit = bool(callee and re.match(r'(?:vm::)?call_block\(', callee))
        calls += hit
        for label, tgt in adj[bid]:
            s_.add(D[tgt] == (1 if (label == 'ok' and hit) else D[bid]))
    r = s_.check()
    res = dict(function='State::render_block_to_write', resource='no_write_after_failure', spec={}, verdict='sat' if (r == z3.sat and calls) else 'unsat', nested_calls=calls)
    if res['verdict'] == 'unsat':
        res['conflict'] = 'render_block_to_write can report success on a path on which the nested block render had already been attempted (a sink error can be swallowed)'
    return res


def analyse_eval_impl(mir):
    text = function_text(mir, EVAL_IMPL)
    if text is None:
        return [dict(function='eval_impl', verdict='missing', detail='eval_impl not found in the MIR dump')]
    fn = parse_function(text)
    out = []
    for name, f in (('located', check_located), ('no_write_after_failure', check_no_write_after_failed_write), ('fuel_charged_once', check_fuel_charged_once)):
        verdict, info, dt, stats = f(fn)
        r = dict(function='eval_impl', resource=name, spec={}, verdict=verdict, z3_s=round(dt, 3), **stats)
        if info:
            r['conflict'] = info['kind']
            r['calls_a'] = info.get('calls')
        out.append(r)
    # every other function that writes to an Output itself (the escaping helpers of utils.rs and whatever is added)
    for m in re.finditer(r'^fn ([^\n(]+)\(', mir, re.M):
        name = m.group(1)
        if name.endswith('::eval_impl') or name.startswith('output::') or '{closure' in name:
            continue
        end = mir.index('\n}\n', m.start())
        t = mir[m.start():end + 2]
        if not re.search(r"output::Output::<[^>]*>::write_(str|fmt|char)\(", t):
            continue
        pf = parse_function(t)
        verdict, info, dt, stats = check_no_write_after_failed_write(pf, helper=True)
        if verdict == 'sat':
            verdict, info, dt, stats = check_write_results_not_dropped(pf)
        r = dict(function=name[-60:], resource='no_write_after_failure', spec={}, verdict=verdict, z3_s=round(dt, 3), **stats)
        if info:
            r['conflict'] = '%s: %s' % (name[-40:], info['kind'])
            r['calls_a'] = info.get('calls')
        out.append(r)
    extra = check_success_comes_from_nested_render(mir)
    if extra:
        out.append(extra)
    return out


# ---------------------------------------------------------------------------------------------
# driver
# ---------------------------------------------------------------------------------------------
ENV = dict(os.environ, CARGO_NET_OFFLINE='true', CARGO_TARGET_DIR=os.path.join(BUILD, 'native'))


def build_restore():
    p = subprocess.run(['cargo', 'build', '--offline', '--bin', 'restore'], cwd=nativelib.native_dir(), env=ENV,
                       stdout=subprocess.PIPE, stderr=subprocess.STDOUT, text=True)
    return None if p.returncode == 0 else p.stdout[-2000:]


def run_restore():
    p = subprocess.run([os.path.join(BUILD, 'native', 'debug', 'restore')], stdout=subprocess.PIPE, stderr=subprocess.PIPE, text=True, timeout=120)
    return [json.loads(l) for l in p.stdout.split('\n') if l.strip().startswith('{')]


def run_m(prop, tier, seed):
    t0 = time.time()
    ev = dict(engine='M', violations=[], known_hits=[], problems=[], coverage={})
    try:
        results = analyse(REPO, os.path.join(BUILD, 'mir'))
    except MirError as e:
        ev['problems'].append('engine M: %s' % e)
        return ev
    err = build_restore()
    if err:
        ev['problems'].append('engine M: native scenario tool did not build: ' + err[-300:])
        return ev
    scen = run_restore()
    bad_functions = {}
    for r in results:
        if r['verdict'] == 'sat':
            continue
        if r['verdict'] == 'unsat':
            bad_functions.setdefault(r['function'], []).append(r)
        else:
            ev['problems'].append('engine M: %s/%s: %s %s' % (r['function'], r.get('resource'), r['verdict'], r.get('detail', '')))
    confirmed = 0
    for fname, rs in bad_functions.items():
        failing = [s for s in scen if s['function'] == fname and not s['ok']]
        if not failing:
            ev['problems'].append('engine M: %s does not return %s on every path (%s) but no native scenario misbehaves' % (
                fname, ', '.join(sorted({r['resource'] for r in rs})), rs[0].get('conflict')))
            continue
        confirmed += 1
        rp = os.path.join(nativelib.replay_dir(), '%s-M-%s.json' % (prop, fname))
        json.dump(dict(engine='M', property=prop, function=fname, mir_findings=rs, scenarios=failing,
                       how='bin/check %s --replay %s' % (prop, rp)), open(rp, 'w'), indent=1)
        ev['violations'].append(dict(replay=rp, failed=[dict(
            desc='%s does not give back its %s on every path: %s (calls on the path: %s); native scenario %s: %s' % (
                fname, rs[0]['resource'], rs[0].get('conflict'), ' > '.join((rs[0].get('calls_b') or rs[0].get('calls_a') or [])[-8:]),
                failing[0]['scenario'], failing[0]['detail'][:200]),
            loc='minijinja/src/vm/mod.rs %s (MIR)' % fname)]))
    # scenarios that fail although the typing is fine: the model missed something - never a pass
    for s in scen:
        if not s['ok'] and s['function'] not in bad_functions:
            ev['problems'].append('engine M: native scenario %s misbehaves (%s) although every checked resource of %s is returned on every path' % (
                s['scenario'], s['detail'][:200], s['function']))
    nsat = sum(1 for r in results if r['verdict'] == 'sat')
    log('[%s] engine M (MIR typing): %d (function, resource, specialisation) queries: sat=%d unsat=%d; %d native scenarios, %d misbehaving' % (
        prop, len(results), nsat, sum(1 for r in results if r['verdict'] == 'unsat'), len(scen), sum(1 for s in scen if not s['ok'])))
    ev['coverage'] = dict(queries=len(results), sat=nsat, unsat=len(results) - nsat, confirmed_natively=confirmed,
                          functions=sorted(FUNCTIONS), resources=sorted(RESOURCES), results=results,
                          native_scenarios=len(scen), native_scenarios_failing=sum(1 for s in scen if not s['ok']),
                          z3_seconds=round(sum(r.get('z3_s', 0) for r in results), 3))
    ev['wall_s'] = round(time.time() - t0, 1)
    return ev


def replay_m(path):
    d = json.load(open(path))
    if d.get('kind') == 'eval_impl':
        return replay_eval_impl(path)
    if d.get('kind') == 'seqeq':
        err = build_tool('render')
        inp = '\n'.join(json.dumps(q) for q in d['requests']) + '\n'
        p = subprocess.run([os.path.join(BUILD, 'native', 'debug', 'render')], input=inp, stdout=subprocess.PIPE, stderr=subprocess.PIPE, text=True, timeout=120)
        outs = [json.loads(l) for l in p.stdout.split('\n') if l.strip()]
        bad = []
        for q, o in zip(d['requests'], outs):
            t = o.get('ok')
            if t is None:
                bad.append((q['src'], o))
                continue
            le, ge, eq, ne, inn, uq = t.split('|')
            if not ((eq == 'True') == (le == 'True' and ge == 'True') and (ne == 'True') != (eq == 'True') and inn == eq and (uq == '1') == (eq == 'True')):
                bad.append((q['src'], t))
        print(json.dumps(bad[:5], indent=1))
        return bool(bad)
    if d.get('kind') == 'euclid':
        err = build_tool('render')
        inp = '\n'.join(json.dumps(q) for q in d['requests']) + '\n'
        p = subprocess.run([os.path.join(BUILD, 'native', 'debug', 'render')], input=inp, stdout=subprocess.PIPE, stderr=subprocess.PIPE, text=True, timeout=120)
        outs = [json.loads(l) for l in p.stdout.split('\n') if l.strip()]
        bad = []
        for q, o in zip(d['requests'], outs):
            a, b = q['ctx']['a'], q['ctx']['b']
            try:
                qq, rr = (float(x) for x in o.get('ok').split('|'))
            except Exception:
                bad.append((a, b, o))
                continue
            if not (0 <= rr < abs(b)) or abs(qq * b + rr - a) > 1e-9:
                bad.append((a, b, qq, rr))
        print(json.dumps(bad[:6]))
        return bool(bad)
    if d.get('kind') == 'panics':
        err = build_tool('render')
        inp = '\n'.join(json.dumps(q) for q in d['requests']) + '\n'
        p = subprocess.run([os.path.join(BUILD, 'native', 'debug', 'render')], input=inp, stdout=subprocess.PIPE, stderr=subprocess.PIPE, text=True, timeout=300)
        outs = [json.loads(l) for l in p.stdout.split('\n') if l.strip()]
        bad = [(q['src'], o.get('panic')) for q, o in zip(d['requests'], outs) if 'panic' in o]
        print(json.dumps(bad))
        return bool(bad) or len(outs) < len(d['requests'])
    if d.get('kind') == 'compare':
        err = build_tool('render')
        inp = '\n'.join(json.dumps(q) for q, _ in d['requests']) + '\n'
        p = subprocess.run([os.path.join(BUILD, 'native', 'debug', 'render')], input=inp, stdout=subprocess.PIPE, stderr=subprocess.PIPE, text=True, timeout=120)
        outs = [json.loads(l) for l in p.stdout.split('\n') if l.strip()]
        bad = [(q['src'][:80], o.get('ok', o), w) for (q, w), o in zip(d['requests'], outs) if o.get('ok') != w]
        print(json.dumps(bad, indent=1))
        return bool(bad)
    if d.get('kind') == 'safesrc':
        err = build_tool('render')
        inp = '\n'.join(json.dumps(q) for q, _ in d['requests']) + '\n'
        p = subprocess.run([os.path.join(BUILD, 'native', 'debug', 'render')], input=inp, stdout=subprocess.PIPE, stderr=subprocess.PIPE, text=True, timeout=120)
        outs = [json.loads(l) for l in p.stdout.split('\n') if l.strip()]
        bad = [(q['src'], o.get('ok', o), w) for (q, w), o in zip(d['requests'], outs) if o.get('ok') != w]
        print(json.dumps(bad, indent=1))
        return bool(bad)
    if d.get('kind') == 'serdeflag':
        err = build_tool('serdeflag')
        p = subprocess.run([os.path.join(BUILD, 'native', 'debug', 'serdeflag')], stdout=subprocess.PIPE, stderr=subprocess.PIPE, text=True, timeout=60)
        bad = [s for s in (json.loads(l) for l in p.stdout.split('\n') if l.strip().startswith('{')) if not s['ok']]
        print(json.dumps(bad))
        return bool(bad)
    if d.get('kind') == 'membership':
        err = build_tool('render')
        inp = '\n'.join(json.dumps(q) for q in d['requests']) + '\n'
        p = subprocess.run([os.path.join(BUILD, 'native', 'debug', 'render')], input=inp, stdout=subprocess.PIPE, stderr=subprocess.PIPE, text=True, timeout=120)
        outs = [json.loads(l) for l in p.stdout.split('\n') if l.strip()]
        bad = [o for o in outs if o.get('ok') is None or o['ok'].split('|')[0] != o['ok'].split('|')[1]]
        print(json.dumps(bad[:5]))
        return bool(bad)
    if d.get('kind') == 'filter':
        err = build_tool('render')
        inp = '\n'.join(json.dumps(q) for q in d['requests']) + '\n'
        p = subprocess.run([os.path.join(BUILD, 'native', 'debug', 'render')], input=inp, stdout=subprocess.PIPE, stderr=subprocess.PIPE, text=True, timeout=120)
        outs = [json.loads(l) for l in p.stdout.split('\n') if l.strip()]
        print(json.dumps(outs))
        return any(o.get('ok') != 'True|False' for o in outs)
    if d.get('kind') == 'binop':
        err = build_tool('folding')
        if err:
            print(err)
            return False
        p = subprocess.run([os.path.join(BUILD, 'native', 'debug', 'folding')], stdout=subprocess.PIPE, stderr=subprocess.PIPE, text=True, timeout=300)
        ops = {s['op'] for s in d['scenarios']}
        bad = [s for s in (json.loads(l) for l in p.stdout.split('\n') if l.strip().startswith('{')) if s['op'] in ops and not s['ok']]
        print(json.dumps(bad, indent=1))
        return bool(bad)
    if d.get('kind') == 'autoreload':
        err = build_tool('reload')
        if err:
            print(err)
            return False
        p = subprocess.run([os.path.join(BUILD, 'native', 'debug', 'reload')], stdout=subprocess.PIPE, stderr=subprocess.PIPE, text=True, timeout=120)
        names = {s['scenario'] for s in d['scenarios']}
        bad = [s for s in (json.loads(l) for l in p.stdout.split('\n') if l.strip().startswith('{')) if s['scenario'] in names and not s['ok']]
        print(json.dumps(bad, indent=1))
        return bool(bad)
    err = build_restore()
    if err:
        print(err)
        return False
    scen = run_restore()
    names = {s['scenario'] for s in d['scenarios']}
    bad = [s for s in scen if s['scenario'] in names and not s['ok']]
    print(json.dumps(bad, indent=1))
    return bool(bad)


# ---------------------------------------------------------------------------------------------
# eval_impl driver (C14: located, C19: no_write_after_failure)
# ---------------------------------------------------------------------------------------------
def build_tool(name):
    p = subprocess.run(['cargo', 'build', '--offline', '--bin', name], cwd=nativelib.native_dir(), env=ENV,
                       stdout=subprocess.PIPE, stderr=subprocess.STDOUT, text=True)
    return None if p.returncode == 0 else p.stdout[-2000:]


def run_vmexits():
    p = subprocess.run([os.path.join(BUILD, 'native', 'debug', 'vmexits')], stdout=subprocess.PIPE, stderr=subprocess.PIPE, text=True, timeout=120)
    return [json.loads(l) for l in p.stdout.split('\n') if l.strip().startswith('{')]


def run_eval_impl(prop, tier, seed):
    which = {'C14': 'located', 'C19': 'no_write_after_failure', 'C13': 'fuel_charged_once'}[prop]
    t0 = time.time()
    ev = dict(engine='M', violations=[], known_hits=[], problems=[], coverage={})
    try:
        mir = dump_mir(REPO, os.path.join(BUILD, 'mir'))
        results = [r for r in analyse_eval_impl(mir) if r.get('resource') == which or r['verdict'] == 'missing']
        if which == 'fuel_charged_once':
            results += check_out_of_fuel_origin(mir)
    except MirError as e:
        ev['problems'].append('engine M: %s' % e)
        return ev
    err = build_tool('vmexits')
    if err:
        ev['problems'].append('engine M: native scenario tool did not build: ' + err[-300:])
        return ev
    scen = [s for s in run_vmexits() if s['check'] == which]
    if which == 'fuel_charged_once':
        # expected consumption of a straight-line template = its instructions minus the zero-cost shapes of fuel.rs
        err = build_tool('dump')
        if err:
            ev['problems'].append('engine M: dump tool did not build')
            return ev
        fuel_src = open(os.path.join(REPO, 'minijinja', 'src', 'vm', 'fuel.rs'), encoding='utf-8').read()
        m0 = re.search(r'fn fuel_for_instruction.*?\{(.*?)_ => 1', fuel_src, re.S)
        free = set(re.findall(r'Instruction::(\w+)', m0.group(1))) if m0 else set()
        inp = '\n'.join(json.dumps(dict(id=i, src=s.get('src', ''))) for i, s in enumerate(scen)) + '\n'
        p = subprocess.run([os.path.join(BUILD, 'native', 'debug', 'dump')], input=inp, stdout=subprocess.PIPE, stderr=subprocess.PIPE, text=True, timeout=120)
        dumps = {d['id']: d for d in (json.loads(l) for l in p.stdout.split('\n') if l.strip())}
        for i, s in enumerate(scen):
            if s.get('native_verdict'):
                continue          # this scenario decides by itself (no instruction count needed)
            ins = dumps.get(i, {}).get('instrs')
            if ins is None or not m0:
                ev['problems'].append('engine M: cannot compute the expected fuel of %r' % s['src'])
                continue
            want = sum(1 for x in ins if x['op'] not in free)
            s['ok'] = (s['consumed'] == want)
            s['detail'] = 'consumed %s units, %d charged instructions in the compiled template' % (s['consumed'], want)
    failing = [s for s in scen if not s['ok']]
    for r in results:
        if r['verdict'] == 'sat':
            continue
        if r['verdict'] != 'unsat':
            ev['problems'].append('engine M: eval_impl/%s: %s %s' % (which, r['verdict'], r.get('detail', '')))
            continue
        if failing:
            rp = os.path.join(nativelib.replay_dir(), '%s-M-eval_impl-%s.json' % (prop, which))
            json.dump(dict(engine='M', kind='eval_impl', check=which, property=prop, mir_finding=r, scenarios=failing,
                           how='bin/check %s --replay %s' % (prop, rp)), open(rp, 'w'), indent=1)
            ev['violations'].append(dict(replay=rp, failed=[dict(
                desc='eval_impl (%s): %s (near: %s); native scenario %s: %s' % (which, r.get('conflict'), ' < '.join((r.get('calls_a') or [])[:4]),
                                                                           failing[0]['scenario'], failing[0]['detail'][:200]),
                loc='minijinja/src/vm/mod.rs eval_impl (MIR)')]))
        else:
            ev['problems'].append('engine M: eval_impl/%s: %s, but none of the %d native scenarios misbehaves' % (which, r.get('conflict'), len(scen)))
    if failing and all(r['verdict'] == 'sat' for r in results):
        ev['problems'].append('engine M: native scenario %s misbehaves (%s) although the MIR check of eval_impl holds' % (failing[0]['scenario'], failing[0]['detail'][:200]))
    log('[%s] engine M (eval_impl MIR, %s): %s; %d native scenarios, %d misbehaving' % (
        prop, which, ', '.join('%s blocks=%s' % (r['verdict'], r.get('blocks')) for r in results), len(scen), len(failing)))
    ev['coverage'] = dict(queries=len(results), results=results, native_scenarios=len(scen), native_scenarios_failing=len(failing),
                          function='Executor::eval_impl', check=which)
    ev['wall_s'] = round(time.time() - t0, 1)
    return ev


def replay_eval_impl(path):
    d = json.load(open(path))
    err = build_tool('vmexits')
    if err:
        print(err)
        return False
    names = {s['scenario'] for s in d['scenarios']}
    bad = [s for s in run_vmexits() if s['scenario'] in names and not s['ok']]
    print(json.dumps(bad, indent=1))
    return bool(bad)


# ---------------------------------------------------------------------------------------------
# minijinja-autoreload (C20): the cache lock is held while the creator runs; a request always sets the flag
# ---------------------------------------------------------------------------------------------
def dump_mir_autoreload(repo, out_dir):
    os.makedirs(out_dir, exist_ok=True)
    lib = os.path.join(repo, 'minijinja-autoreload', 'src', 'lib.rs')
    os.utime(lib, None)
    env = dict(os.environ, CARGO_NET_OFFLINE='true', CARGO_TARGET_DIR=os.path.join(out_dir, 'target'))
    p = subprocess.run(['cargo', '+nightly', 'rustc', '--offline', '--lib', '--no-default-features', '--', '-Zunpretty=mir', '-C', 'debug-assertions=off'],
                       cwd=os.path.join(repo, 'minijinja-autoreload'), env=env, stdout=subprocess.PIPE, stderr=subprocess.PIPE, text=True, timeout=900)
    if p.returncode != 0 or 'fn ' not in p.stdout:
        raise MirError('MIR dump of minijinja-autoreload failed: ' + p.stderr[-600:])
    return p.stdout


def check_lock_held_at_creator(fn):
    """acquire_env: the MutexGuard of the cache is held (H = 1) at the calls of the creator, of
    clear_templates, of prepare_and_mark_reload and of should_reload (the flag is read under the lock, so a
    request cannot be consumed by a stale answer): H +1 where a Mutex::lock result is unwrapped into a guard,
    -1 where a guard local is dropped (drop terminator or mem::drop call)."""
    adj, preds = cfg(fn)
    guards = set()
    lock_results = set()
    for b in fn['blocks'].values():
        dst, callee = call_of(b['term'])
        if dst and re.search(r'std::sync::Mutex::<.*>::lock\(', callee):
            lock_results.add(dst)
    for b in fn['blocks'].values():
        dst, callee = call_of(b['term'])
        if dst and re.search(r'^Result::<std::sync::MutexGuard<.*>::unwrap\((?:move|copy) (_\d+)\)', callee):
            if re.search(r'unwrap\((?:move|copy) (_\d+)\)', callee).group(1) in lock_results:
                guards.add(dst)
    if not guards:
        return 'unknown', dict(kind='no cache lock acquisition found in acquire_env', calls=[]), 0.0, {}
    s_ = z3.Solver()
    s_.set('timeout', 30000)
    D = {b: z3.Int('H_%s' % b) for b in fn['blocks'] if not fn['blocks'][b]['cleanup']}
    s_.add(D['bb0'] == 0)
    n = 0
    need = []
    for bid in adj:
        blk = fn['blocks'][bid]
        t = blk['term']
        dst, callee = call_of(t)
        if callee and re.search(r'as Fn<\(Notifier,\)>>::call\(|Environment::<[^>]*>::clear_templates\(|Notifier::prepare_and_mark_reload\(|Notifier::\w*reload\w*\(', callee) \
                and not re.search(r'Notifier::fast_reload\(', callee):
            need.append(bid)
        for label, tgt in adj[bid]:
            if fn['blocks'][tgt]['term'] == 'return;':
                continue
            eff = 0
            if label == 'ok':
                if dst in guards:
                    eff = 1
                m = re.match(r'drop\((_\d+)\)', t)
                if m and m.group(1) in guards:
                    eff = -1
                if callee and re.search(r'mem::drop::<std::sync::MutexGuard', callee) and re.search(r'\((?:move|copy) (_\d+)\)', callee) and \
                        re.search(r'\((?:move|copy) (_\d+)\)', callee).group(1) in guards:
                    eff = -1
            s_.add(D[tgt] == D[bid] + eff)
            n += 1
    for b in need:
        s_.add(D[b] == 1)
    t0 = time.time()
    r = s_.check()
    dt = time.time() - t0
    stats = dict(blocks=len(D), edges=n, guards=len(guards), calls_needing_the_lock=len(need))
    if not need:
        return 'unknown', dict(kind='creator call not found in acquire_env', calls=[]), dt, stats
    if r == z3.sat:
        return 'sat', None, dt, stats
    if r != z3.unsat:
        return str(r), None, dt, stats
    return 'unsat', dict(kind='the cache lock is not held at the creator / clear_templates / flag-read / flag-reset call on some path', calls=[]), dt, stats


def check_request_sets_flag(fn, flag_index, value='true', what='request_reload can return without having set the flag although the notifier exists'):
    """request_reload: on EVERY path on which the notifier handle exists the flag field is set to true.
    (with value='false': prepare_and_mark_reload resets it on every path)"""
    adj, preds = cfg(fn)
    s_ = z3.Solver()
    s_.set('timeout', 30000)
    D = {b: z3.Int('S_%s' % b) for b in fn['blocks'] if not fn['blocks'][b]['cleanup']}
    s_.add(D['bb0'] == 0)
    handle_locals = set()
    for b in fn['blocks'].values():
        dst, callee = call_of(b['term'])
        if dst and re.search(r'Notifier::handle\(', callee):
            handle_locals.add(dst)
    der, _ = derive_map(fn)
    n = sets = 0
    returns = []
    for bid in adj:
        blk = fn['blocks'][bid]
        sets_flag = any(re.match(r'\(\(\*_\d+\)\.%d: bool\) = const %s;' % (flag_index, value), st) for st in blk['stmts'])
        sets += 1 if sets_flag else 0
        for label, tgt in adj[bid]:
            if isinstance(label, tuple):
                m = re.match(r'switchInt\((?:copy|move) (_\d+)\)', blk['term'])
                loc = m.group(1)
                if loc in der and der[loc][1] == 'disc' and der[loc][0] in handle_locals and label[1] == '0':
                    continue          # no notifier any more: nothing to request
            s_.add(D[tgt] == D[bid] + (1 if sets_flag else 0))
            n += 1
            if fn['blocks'][tgt]['term'] == 'return;':
                returns.append(tgt)
    for r_ in set(returns):
        s_.add(D[r_] == 1)
    t0 = time.time()
    r = s_.check()
    dt = time.time() - t0
    stats = dict(blocks=len(D), edges=n, flag_assignments=sets)
    if r == z3.sat and sets:
        return 'sat', None, dt, stats
    if r not in (z3.sat, z3.unsat):
        return str(r), None, dt, stats
    return 'unsat', dict(kind=what, calls=[]), dt, stats


def check_poll_leaves_flag(fn, flag_index):
    """should_reload only reads the flag: no store to the field and no mutable borrow of it (mem::take / replace)"""
    writes = []
    for bid, blk in fn['blocks'].items():
        if blk['cleanup']:
            continue
        for st in blk['stmts']:
            if re.match(r'\(\(\*_\d+\)\.%d: bool\) = ' % flag_index, st) or re.search(r'= &mut \(\(\*_\d+\)\.%d: bool\);' % flag_index, st):
                writes.append((bid, st))
    s_ = z3.Solver()
    w = z3.Int('flag_writes_in_poll')
    s_.add(w == len(writes), w != 0)
    t0 = time.time()
    r = s_.check()
    dt = time.time() - t0
    stats = dict(blocks=len(fn['blocks']), flag_writes=len(writes))
    if r == z3.unsat:
        return 'sat', None, dt, stats
    return 'unsat', dict(kind='should_reload changes the pending flag (%s): a request that is pending when the poll is skipped or repeated is lost or acted on twice' % writes[0][1], calls=[]), dt, stats


def analyse_autoreload(repo, out_dir):
    mir = dump_mir_autoreload(repo, out_dir)
    src = open(os.path.join(repo, 'minijinja-autoreload', 'src', 'lib.rs'), encoding='utf-8').read()
    m = re.search(r'struct NotifierImpl \{(.*?)\n\}', src, re.S)
    fields = re.findall(r'^\s*(?:pub(?:\(crate\))? )?(\w+):', re.sub(r'#\[[^\]]*\]', '', m.group(1)), re.M) if m else []
    out = []
    t = function_text(mir, r'^fn <impl at [^>]*>::acquire_env\(')
    if t is None:
        out.append(dict(function='acquire_env', verdict='missing'))
    else:
        v, info, dt, stats = check_lock_held_at_creator(parse_function(t))
        out.append(dict(function='acquire_env', resource='lock_held_at_creator', spec={}, verdict=v, z3_s=round(dt, 3), conflict=(info or {}).get('kind'), **stats))
    t = function_text(mir, r'^fn <impl at [^>]*>::request_reload\(')
    if t is None or 'should_reload' not in fields:
        out.append(dict(function='request_reload', verdict='missing'))
    else:
        v, info, dt, stats = check_request_sets_flag(parse_function(t), fields.index('should_reload'))
        out.append(dict(function='request_reload', resource='request_sets_flag', spec={}, verdict=v, z3_s=round(dt, 3), conflict=(info or {}).get('kind'), **stats))
    if 'should_reload' in fields:
        fi = fields.index('should_reload')
        t = function_text(mir, r'^fn <impl at [^>]*>::prepare_and_mark_reload\(')
        t2 = function_text(mir, r'^fn <impl at [^>]*>::should_reload\(')
        if t is None or t2 is None:
            out.append(dict(function='prepare_and_mark_reload/should_reload', verdict='missing'))
        else:
            v, info, dt, stats = check_request_sets_flag(parse_function(t), fi, value='false',
                                                         what='prepare_and_mark_reload can return without having reset the pending flag: the request it serves stays pending and the creator runs again without a new request')
            out.append(dict(function='prepare_and_mark_reload', resource='flag_discipline', spec={}, verdict=v, z3_s=round(dt, 3), conflict=(info or {}).get('kind'), **stats))
            v, info, dt, stats = check_poll_leaves_flag(parse_function(t2), fi)
            out.append(dict(function='should_reload', resource='flag_discipline', spec={}, verdict=v, z3_s=round(dt, 3), conflict=(info or {}).get('kind'), **stats))
    return out


def run_autoreload(prop, tier, seed):
    t0 = time.time()
    ev = dict(engine='M', violations=[], known_hits=[], problems=[], coverage={})
    try:
        results = analyse_autoreload(REPO, os.path.join(BUILD, 'mir'))
    except MirError as e:
        ev['problems'].append('engine M: %s' % e)
        return ev
    err = build_tool('reload')
    if err:
        ev['problems'].append('engine M: native scenario tool did not build: ' + err[-300:])
        return ev
    p = subprocess.run([os.path.join(BUILD, 'native', 'debug', 'reload')], stdout=subprocess.PIPE, stderr=subprocess.PIPE, text=True, timeout=120)
    scen = [json.loads(l) for l in p.stdout.split('\n') if l.strip().startswith('{')]
    for r in results:
        if r['verdict'] == 'sat':
            continue
        if r['verdict'] != 'unsat':
            ev['problems'].append('engine M: %s: %s %s' % (r['function'], r['verdict'], r.get('conflict') or ''))
            continue
        failing = [s for s in scen if s['check'] == r['resource'] and not s['ok']]
        if failing:
            rp = os.path.join(nativelib.replay_dir(), '%s-M-%s.json' % (prop, r['function']))
            json.dump(dict(engine='M', kind='autoreload', property=prop, mir_finding=r, scenarios=failing,
                           how='bin/check %s --replay %s' % (prop, rp)), open(rp, 'w'), indent=1)
            ev['violations'].append(dict(replay=rp, failed=[dict(desc='%s: %s; native scenario %s: %s' % (
                r['function'], r.get('conflict'), failing[0]['scenario'], failing[0]['detail'][:200]), loc='minijinja-autoreload/src/lib.rs (MIR)')]))
        else:
            ev['problems'].append('engine M: %s: %s, but the native scenario does not misbehave' % (r['function'], r.get('conflict')))
    bad_scen = [s for s in scen if not s['ok']]
    if bad_scen and all(r['verdict'] == 'sat' for r in results):
        ev['problems'].append('engine M: native scenario %s misbehaves (%s) although the MIR checks hold' % (bad_scen[0]['scenario'], bad_scen[0]['detail'][:200]))
    log('[%s] engine M (autoreload MIR): %s; %d native scenarios, %d misbehaving' % (
        prop, ', '.join('%s=%s' % (r.get('resource', r['function']), r['verdict']) for r in results), len(scen), len(bad_scen)))
    ev['coverage'] = dict(queries=len(results), results=results, native_scenarios=len(scen), native_scenarios_failing=len(bad_scen),
                          functions=['AutoReloader::acquire_env', 'Notifier::request_reload'])
    ev['wall_s'] = round(time.time() - t0, 1)
    return ev


# ---------------------------------------------------------------------------------------------
# Context::load (C03): within one frame the frame's own locals are consulted before the macro closure and the
# frame's context object - an assignment inside a macro shadows the enclosed variable of the same name
# ---------------------------------------------------------------------------------------------
def check_lookup_order(fn):
    adj, preds = cfg(fn)
    s_ = z3.Solver()
    s_.set('timeout', 30000)
    D = {b: z3.Int('Q_%s' % b) for b in fn['blocks'] if not fn['blocks'][b]['cleanup']}
    s_.add(D['bb0'] == 0)
    n = nl = nc = 0
    RX_NEXT = r'as Iterator>::next\('
    RX_LOCALS = r'^BTreeMap::<&str, value::Value>::get::<str>\('
    RX_LATER = r'core::slice::<impl \[BTreeMap<&str, value::Value>\]>::get::<usize>\(|value::Value::get_attr_fast\('
    for bid in adj:
        _, callee = call_of(fn['blocks'][bid]['term'])
        is_next = bool(callee and re.search(RX_NEXT, callee))
        is_locals = bool(callee and re.search(RX_LOCALS, callee))
        if callee and re.search(RX_LATER, callee):
            s_.add(D[bid] == 1)
            nc += 1
        nl += is_locals
        for label, tgt in adj[bid]:
            if fn['blocks'][tgt]['term'] == 'return;':
                continue
            _, tcallee = call_of(fn['blocks'][tgt]['term'])
            if tcallee and re.search(RX_NEXT, tcallee) and not is_next:
                n += 1
                continue
            if label == 'ok' and is_next:
                s_.add(D[tgt] == 0)
            elif label == 'ok' and is_locals:
                s_.add(D[tgt] == 1)
            else:
                s_.add(D[tgt] == D[bid])
            n += 1
    t0 = time.time()
    r = s_.check()
    dt = time.time() - t0
    stats = dict(blocks=len(D), edges=n, locals_lookups=nl, later_lookups=nc)
    if nl == 0 or nc == 0:
        return 'unknown', dict(kind='Context::load: lookups not recognised (locals=%d, closure/context=%d)' % (nl, nc)), dt, stats
    if r == z3.sat:
        return 'sat', None, dt, stats
    if r != z3.unsat:
        return str(r), None, dt, stats
    return 'unsat', dict(kind='the closure or the frame context is consulted on a path on which the frame\'s own locals were not looked at first'), dt, stats


def run_lookup_order(prop, tier, seed):
    t0 = time.time()
    ev = dict(engine='M', violations=[], known_hits=[], problems=[], coverage={})
    try:
        mir = dump_mir(REPO, os.path.join(BUILD, 'mir'))
    except MirError as e:
        ev['problems'].append('engine M: %s' % e)
        return ev
    text = function_text(mir, r'^fn context::<impl at [^>]*>::load\(')
    if text is None:
        ev['problems'].append('engine M: Context::load not found in the MIR dump')
        return ev
    verdict, info, dt, stats = check_lookup_order(parse_function(text))
    err = build_restore()
    if err:
        ev['problems'].append('engine M: native scenario tool did not build: ' + err[-300:])
        return ev
    scen = [s for s in run_restore() if s['function'] == 'context_load']
    failing = [s for s in scen if not s['ok']]
    r = dict(function='Context::load', resource='lookup_order', verdict=verdict, z3_s=round(dt, 3), conflict=(info or {}).get('kind'), **stats)
    if verdict == 'unsat':
        if failing:
            rp = os.path.join(nativelib.replay_dir(), '%s-M-context_load.json' % prop)
            json.dump(dict(engine='M', property=prop, function='context_load', mir_findings=[r], scenarios=failing,
                           how='bin/check %s --replay %s' % (prop, rp)), open(rp, 'w'), indent=1)
            ev['violations'].append(dict(replay=rp, failed=[dict(desc='Context::load: %s; native scenario %s: %s' % (
                r['conflict'], failing[0]['scenario'], failing[0]['detail'][:200]), loc='minijinja/src/vm/context.rs Context::load (MIR)')]))
        else:
            ev['problems'].append('engine M: Context::load: %s, but no native scenario misbehaves' % r['conflict'])
    elif verdict != 'sat':
        ev['problems'].append('engine M: Context::load: %s %s' % (verdict, r.get('conflict') or ''))
    elif failing:
        ev['problems'].append('engine M: native scenario %s misbehaves (%s) although the lookup order check holds' % (failing[0]['scenario'], failing[0]['detail'][:200]))
    log('[%s] engine M (Context::load MIR): lookup_order=%s; %d native scenarios, %d misbehaving' % (prop, verdict, len(scen), len(failing)))
    ev['coverage'] = dict(queries=1, results=[r], native_scenarios=len(scen), native_scenarios_failing=len(failing), functions=['Context::load'])
    ev['wall_s'] = round(time.time() - t0, 1)
    return ev


# ---------------------------------------------------------------------------------------------
# eval_impl (C04): every binary-operator arm of the interpreter computes its result with the same ops::
# function the constant folder uses - on EVERY path from the arm's entry to the next instruction fetch
# ---------------------------------------------------------------------------------------------
BINOPS = {'Add': 'add', 'Sub': 'sub', 'Mul': 'mul', 'Div': 'div', 'IntDiv': 'int_div', 'Rem': 'rem', 'Pow': 'pow',
          'StringConcat': 'string_concat', 'In': 'contains'}
MIR_FEATURES = {'multi_template', 'macros', 'fuel', 'loop_controls', 'builtins', 'debug', 'serde', 'deserialization', 'adjacent_loop_items', 'std_collections'}


def instruction_variants(repo):
    src = open(os.path.join(repo, 'minijinja', 'src', 'compiler', 'instructions.rs'), encoding='utf-8').read()
    m = re.search(r'pub enum Instruction<[^>]*> \{(.*?)\n\}', src, re.S)
    if not m:
        raise MirError('enum Instruction not found')
    out = []
    pending_cfg = None
    for line in m.group(1).split('\n'):
        t = line.strip()
        if not t or t.startswith('//'):
            continue
        c = re.match(r'#\[cfg\(feature = "(\w+)"\)\]', t)
        if c:
            pending_cfg = c.group(1)
            continue
        if t.startswith('#['):
            continue
        v = re.match(r'(\w+)\b', t)
        if v and t[0].isupper():
            if pending_cfg is None or pending_cfg in MIR_FEATURES:
                out.append(v.group(1))
            pending_cfg = None
    return out


EMIT_ARM = {'Emit': r'write_escaped\(|Environment::<[^>]*>::format\('}


def check_binop_arms(fn, variants, table=None):
    adj, preds = cfg(fn)
    fetch = [b for b, blk in fn['blocks'].items() if not blk['cleanup'] and re.search(r"Instructions::<[^>]*>::get\(", blk['term'])]
    dispatch = [b for b, blk in fn['blocks'].items() if not blk['cleanup'] and blk['term'].startswith('switchInt') and blk['term'].count('bb') >= 40]
    if len(fetch) != 1 or len(dispatch) != 1:
        return [dict(op='*', verdict='unknown', conflict='fetch/dispatch blocks of the interpreter loop not identified')]
    F, X = fetch[0], dispatch[0]
    targets = dict(re.findall(r'(\d+): (bb\d+)', fn['blocks'][X]['term']))
    out = []
    for vname, opfn in (table or BINOPS).items():
        if vname not in variants or str(variants.index(vname)) not in targets:
            out.append(dict(op=vname, verdict='unknown', conflict='no dispatch target for Instruction::%s' % vname))
            continue
        entry = targets[str(variants.index(vname))]
        s_ = z3.Solver()
        s_.set('timeout', 30000)
        D = {}

        def d(b):
            if b not in D:
                D[b] = z3.Int('U_%s_%s' % (vname, b))
            return D[b]
        s_.add(d(entry) == 0)
        seen, todo = {entry}, [entry]
        n = calls = reach_fetch = 0
        while todo:
            b = todo.pop()
            blk = fn['blocks'][b]
            if any(re.match(r'_0 = ', st) for st in blk['stmts']):
                continue
            _, callee = call_of(blk['term'])
            if table:
                is_op = bool(callee and re.search(opfn, callee))
            else:
                is_op = bool(callee and re.match(r'(?:value::)?(?:ops::)?%s\(' % opfn, callee))
            calls += is_op
            for label, tgt in adj[b]:
                if fn['blocks'][tgt]['term'] == 'return;':
                    continue
                eff = 1 if (label == 'ok' and is_op) else 0
                if tgt == F:
                    s_.add(d(b) + eff == 1)
                    reach_fetch += 1
                    n += 1
                    continue
                s_.add(d(tgt) == d(b) + eff)
                n += 1
                if tgt not in seen:
                    seen.add(tgt)
                    todo.append(tgt)
        t0 = time.time()
        r = s_.check()
        dt = time.time() - t0
        res = dict(op=vname, ops_fn='ops::' + opfn, entry=entry, blocks=len(seen), edges=n, ops_calls=calls, z3_s=round(dt, 3))
        if reach_fetch == 0:
            res.update(verdict='unknown', conflict='the arm never returns to the instruction fetch')
        elif r == z3.sat:
            res.update(verdict='sat')
        elif r == z3.unsat:
            res.update(verdict='unsat', conflict='a path through the %s arm reaches the next instruction without exactly one call of ops::%s (%d call sites)' % (vname, opfn, calls))
        else:
            res.update(verdict=str(r))
        out.append(res)
    return out


# ---------------------------------------------------------------------------------------------
# comparisons (C03): each comparison instruction, and each operator of the chained-comparison instruction
# CompareAndPreserve, reaches the next instruction through exactly one call of ITS comparison on Value
# ---------------------------------------------------------------------------------------------
CMP_CALLEE = {'Eq': r'<value::Value as PartialEq>::eq\(', 'Ne': r'<value::Value as PartialEq>::ne\(',
              'Lt': r'<value::Value as PartialOrd>::lt\(', 'Lte': r'<value::Value as PartialOrd>::le\(',
              'Gt': r'<value::Value as PartialOrd>::gt\(', 'Gte': r'<value::Value as PartialOrd>::ge\('}
ANY_CMP = r'<value::Value as Partial(?:Eq|Ord)>::(?:eq|ne|lt|le|gt|ge)\('


def compare_op_variants(repo):
    src = open(os.path.join(repo, 'minijinja', 'src', 'compiler', 'instructions.rs'), encoding='utf-8').read()
    m = re.search(r'pub enum CompareOp \{(.*?)\n\}', src, re.S)
    if not m:
        raise MirError('enum CompareOp not found')
    return re.findall(r'^\s{4}([A-Z]\w*)', re.sub(r'\s*///[^\n]*', '', m.group(1)), re.M)


def check_compare_arms(fn, variants, cmp_variants):
    adj, preds = cfg(fn)
    fetch = [b for b, blk in fn['blocks'].items() if not blk['cleanup'] and re.search(r"Instructions::<[^>]*>::get\(", blk['term'])]
    dispatch = [b for b, blk in fn['blocks'].items() if not blk['cleanup'] and blk['term'].startswith('switchInt') and blk['term'].count('bb') >= 40]
    if len(fetch) != 1 or len(dispatch) != 1:
        return [dict(op='*', verdict='unknown', conflict='fetch/dispatch blocks of the interpreter loop not identified')]
    F, X = fetch[0], dispatch[0]
    targets = dict(re.findall(r'(\d+): (bb\d+)', fn['blocks'][X]['term']))
    der, _ = derive_map(fn)

    def query(name, entry, want_rx, prune):
        s_ = z3.Solver()
        s_.set('timeout', 30000)
        D = {}

        def d(b):
            if b not in D:
                D[b] = z3.Int('C_%s_%s' % (name, b))
            return D[b]
        s_.add(d(entry) == 0)
        seen, todo = {entry}, [entry]
        n = calls = other = reach = 0
        while todo:
            b = todo.pop()
            blk = fn['blocks'][b]
            if any(re.match(r'_0 = ', st) for st in blk['stmts']):
                continue
            _, callee = call_of(blk['term'])
            is_want = bool(callee and re.search(want_rx, callee))
            is_other = bool(callee and re.search(ANY_CMP, callee) and not is_want)
            calls += is_want
            other += is_other
            for label, tgt in adj[b]:
                if fn['blocks'][tgt]['term'] == 'return;':
                    continue
                if b in prune and tgt not in prune[b]:
                    continue
                eff = (1 if is_want else 0) + (100 if is_other else 0) if label == 'ok' else 0
                if tgt == F:
                    s_.add(d(b) + eff == 1)
                    reach += 1
                    n += 1
                    continue
                s_.add(d(tgt) == d(b) + eff)
                n += 1
                if tgt not in seen:
                    seen.add(tgt)
                    todo.append(tgt)
        t0 = time.time()
        r = s_.check()
        res = dict(op=name, entry=entry, blocks=len(seen), edges=n, calls=calls, other_comparisons=other, z3_s=round(time.time() - t0, 3))
        if reach == 0:
            res.update(verdict='unknown', conflict='the arm never returns to the instruction fetch')
        elif r == z3.sat:
            res.update(verdict='sat')
        elif r == z3.unsat:
            res.update(verdict='unsat', conflict='a path of %s reaches the next instruction without exactly one call of %s (or through another comparison)' % (name, want_rx.replace('\\', '')))
        else:
            res.update(verdict=str(r))
        return res
    out = []
    for v, rx in CMP_CALLEE.items():
        if v in variants and str(variants.index(v)) in targets:
            out.append(query(v, targets[str(variants.index(v))], rx, {}))
        else:
            out.append(dict(op=v, verdict='unknown', conflict='no dispatch target for Instruction::%s' % v))
    if 'CompareAndPreserve' not in variants or str(variants.index('CompareAndPreserve')) not in targets:
        out.append(dict(op='CompareAndPreserve', verdict='unknown', conflict='no dispatch target'))
        return out
    entry = targets[str(variants.index('CompareAndPreserve'))]
    op_refs = set()
    for blk in fn['blocks'].values():
        for st in blk['stmts']:
            m = re.match(r'(_\d+) = &\(\(\(\*_\d+\) as CompareAndPreserve\)\.0: compiler::instructions::CompareOp\);', st)
            if m:
                op_refs.add(m.group(1))
    sw = None
    for bid, blk in fn['blocks'].items():
        m = re.match(r'switchInt\((?:move|copy) (_\d+)\) -> \[(.*)\];', blk['term'])
        if not m or blk['cleanup']:
            continue
        for st in blk['stmts']:
            x = re.match(re.escape(m.group(1)) + r' = discriminant\(\(\*(_\d+)\)\);', st)
            if x and x.group(1) in op_refs and m.group(2).count('bb') >= 6:
                sw = (bid, dict(p.split(': ') for p in m.group(2).split(', ')))
    if sw is None:
        out.append(dict(op='CompareAndPreserve', verdict='unknown', conflict='the dispatch on the CompareOp was not found'))
        return out
    sbid, tg = sw
    for v, rx in CMP_CALLEE.items():
        idx = str(cmp_variants.index(v)) if v in cmp_variants else None
        tgt = tg.get(idx) if idx is not None else None
        if tgt is None:
            out.append(dict(op='CompareAndPreserve(%s)' % v, verdict='unknown', conflict='no arm for CompareOp::%s' % v))
            continue
        out.append(query('CompareAndPreserve_%s' % v, entry, rx, {sbid: {tgt}}))
    return out


def run_compare_arms(prop, tier, seed):
    t0 = time.time()
    ev = dict(engine='M', violations=[], known_hits=[], problems=[], coverage={})
    try:
        mir = dump_mir(REPO, os.path.join(BUILD, 'mir'))
        text = function_text(mir, EVAL_IMPL)
        if text is None:
            raise MirError('eval_impl not found in the MIR dump')
        results = check_compare_arms(parse_function(text), instruction_variants(REPO), compare_op_variants(REPO))
    except MirError as e:
        ev['problems'].append('engine M: %s' % e)
        return ev
    err = build_tool('render')
    if err:
        ev['problems'].append('engine M: render tool did not build')
        return ev
    import operator
    PY = {'==': operator.eq, '!=': operator.ne, '<': operator.lt, '<=': operator.le, '>': operator.gt, '>=': operator.ge}
    NAME = {'==': 'Eq', '!=': 'Ne', '<': 'Lt', '<=': 'Lte', '>': 'Gt', '>=': 'Gte'}
    reqs, keys = [], []
    vals = (0, 1, 2)
    for op in PY:
        # the operator alone, and in the non-final position of a chain (operands are variables: nothing is folded)
        src = '|'.join('{{ a%d %s b%d }}' % (i, op, j) for i in vals for j in vals)
        want = '|'.join(str(PY[op](i, j)) for i in vals for j in vals)
        reqs.append(dict(src=src, ctx={**{'a%d' % i: i for i in vals}, **{'b%d' % i: i for i in vals}}))
        keys.append((NAME[op], want, src))
        src = '|'.join('{{ a%d %s b%d < c }}' % (i, op, j) for i in vals for j in vals)
        want = '|'.join(str(PY[op](i, j) and j < 2) for i in vals for j in vals)
        reqs.append(dict(src=src, ctx={**{'a%d' % i: i for i in vals}, **{'b%d' % i: i for i in vals}, 'c': 2}))
        keys.append(('CompareAndPreserve_' + NAME[op], want, src))
    inp = '\n'.join(json.dumps(q) for q in reqs) + '\n'
    p = subprocess.run([os.path.join(BUILD, 'native', 'debug', 'render')], input=inp, stdout=subprocess.PIPE, stderr=subprocess.PIPE, text=True, timeout=120)
    outs = [json.loads(l) for l in p.stdout.split('\n') if l.strip()]
    bad = {}
    for (k, want, src), o in zip(keys, outs):
        if o.get('ok') != want:
            bad[k] = '%s renders %r, expected %r' % (src[:60] + '...', str(o.get('ok', o))[:80], want[:80])
    for r in results:
        if r['verdict'] == 'sat':
            continue
        if r['verdict'] != 'unsat':
            ev['problems'].append('engine M: comparison arm %s: %s %s' % (r['op'], r['verdict'], r.get('conflict') or ''))
            continue
        if r['op'] in bad:
            rp = os.path.join(nativelib.replay_dir(), '%s-M-compare-%s.json' % (prop, r['op']))
            json.dump(dict(engine='M', kind='compare', property=prop, mir_finding=r, requests=[[q, k[1]] for q, k in zip(reqs, keys) if k[0] == r['op']],
                           how='bin/check %s --replay %s' % (prop, rp)), open(rp, 'w'), indent=1)
            ev['violations'].append(dict(replay=rp, failed=[dict(desc='eval_impl %s: %s; natively: %s' % (r['op'], r['conflict'], bad[r['op']]), loc='minijinja/src/vm/mod.rs eval_impl (MIR)')]))
        else:
            ev['problems'].append('engine M: comparison arm %s: %s, but every native comparison over the grid is right' % (r['op'], r['conflict']))
    for k, msg in bad.items():
        if all(r['verdict'] == 'sat' for r in results if r['op'] == k):
            ev['problems'].append('engine M: comparison %s is wrong natively (%s) although its arm calls the right comparison once' % (k, msg))
    log('[%s] engine M (comparison arms): %s; native: %d renders, %d wrong' % (prop, ' '.join('%s=%s' % (r['op'].replace('CompareAndPreserve_', 'chain.'), r['verdict']) for r in results), len(outs), len(bad)))
    ev['coverage'] = dict(queries=len(results), results=results, native_scenarios=len(outs), native_scenarios_failing=len(bad), function='Executor::eval_impl', check='comparison_arms')
    ev['wall_s'] = round(time.time() - t0, 1)
    return ev


# ---------------------------------------------------------------------------------------------
# Expr::as_const (C04): the constant folder negates with ops::neg and tests truth with Value::is_true - the very
# functions the VM uses for `-x` and `not x` - on every path of the unary arms
# ---------------------------------------------------------------------------------------------
def closure_calls_on_every_path(mir, closure_ref, callee_rx):
    """closure_ref: '{closure@FILE:L:C: L:C}' as printed in a callee; is `callee_rx` called on every path to return?"""
    m = re.search(r'closure@([^}]*)\}', closure_ref)
    if not m:
        return None
    loc = m.group(1)
    h = re.search(r'^fn [^\n]*\{closure#\d+\}\(_1: [^\n]*closure@%s\}' % re.escape(loc), mir, re.M)
    if not h:
        return None
    start = h.start()
    end = mir.index('\n}\n', start)
    fn = parse_function(mir[start:end + 2])
    adj, preds = cfg(fn)
    s_ = z3.Solver()
    D = {b: z3.Int('N_%s' % b) for b in fn['blocks'] if not fn['blocks'][b]['cleanup']}
    s_.add(D['bb0'] == 0)
    calls = 0
    for bid, blk in fn['blocks'].items():
        if blk['cleanup']:
            continue
        if blk['term'] == 'return;':
            s_.add(D[bid] == 1)
        _, callee = call_of(blk['term'])
        hit = bool(callee and re.match(callee_rx, callee))
        calls += hit
        for label, tgt in adj[bid]:
            s_.add(D[tgt] == (1 if (label == 'ok' and hit) else D[bid]))
    return s_.check() == z3.sat and calls > 0


def check_fold_unary(mir):
    text = function_text(mir, r'^fn ast::<impl at [^>]*>::as_const\(_1: &(?:ast::)?Expr<')
    if text is None:
        return [dict(op='unary', verdict='unknown', conflict='Expr::as_const not found in the MIR')]
    fn = parse_function(text)
    sw = None
    for bid, b in fn['blocks'].items():
        if any(re.match(r'_\d+ = discriminant\(.*UnaryOpKind\)\);', st) for st in b['stmts']) and b['term'].startswith('switchInt'):
            sw = bid
    if sw is None:
        return [dict(op='unary', verdict='unknown', conflict='no dispatch on UnaryOpKind in Expr::as_const')]
    targets = dict(re.findall(r'(\d+): (bb\d+)', fn['blocks'][sw]['term']))
    out = []
    for name, idx, rx in (('Not', '0', r'value::Value::is_true\('), ('Neg', '1', r'(?:value::)?(?:ops::)?neg\(')):
        if idx not in targets:
            out.append(dict(op=name, verdict='unknown', conflict='no arm for UnaryOpKind::%s' % name))
            continue
        cur = targets[idx]
        ok = False
        seen_calls = []
        for _ in range(8):
            blk = fn['blocks'][cur]
            dst, callee = call_of(blk['term'])
            if callee:
                seen_calls.append(callee.split('(')[0][-60:])
                if re.match(rx, callee):
                    ok = True
                for cref in re.findall(r'\{closure@[^}]*\}', callee):
                    if closure_calls_on_every_path(mir, cref, rx):
                        ok = True
                if dst == '_0':
                    break
            if any(re.match(r'_0 = ', st) for st in blk['stmts']):
                break
            nxt = successors(blk['term'])
            if len(nxt) != 1:
                break
            cur = nxt[0][1]
        r = dict(op=name, verdict='sat' if ok else 'unsat', calls=seen_calls)
        if not ok:
            r['conflict'] = 'the %s arm of the constant folder does not compute its result with %s' % (name, 'ops::neg' if name == 'Neg' else 'Value::is_true')
        out.append(r)
    return out


def run_binops(prop, tier, seed):
    t0 = time.time()
    ev = dict(engine='M', violations=[], known_hits=[], problems=[], coverage={})
    try:
        mir = dump_mir(REPO, os.path.join(BUILD, 'mir'))
        text = function_text(mir, EVAL_IMPL)
        if text is None:
            raise MirError('eval_impl not found in the MIR dump')
        results = check_binop_arms(parse_function(text), instruction_variants(REPO))
        results += check_fold_unary(mir)
    except MirError as e:
        ev['problems'].append('engine M: %s' % e)
        return ev
    err = build_tool('folding')
    if err:
        ev['problems'].append('engine M: native scenario tool did not build: ' + err[-300:])
        return ev
    p = subprocess.run([os.path.join(BUILD, 'native', 'debug', 'folding')], stdout=subprocess.PIPE, stderr=subprocess.PIPE, text=True, timeout=300)
    scen = {s['op']: s for s in (json.loads(l) for l in p.stdout.split('\n') if l.strip().startswith('{'))}
    for r in results:
        if r['verdict'] == 'sat':
            continue
        if r['verdict'] != 'unsat':
            ev['problems'].append('engine M: binop arm %s: %s %s' % (r['op'], r['verdict'], r.get('conflict', '')))
            continue
        s = scen.get(r['op'])
        if s and not s['ok']:
            rp = os.path.join(nativelib.replay_dir(), '%s-M-binop-%s.json' % (prop, r['op']))
            json.dump(dict(engine='M', kind='binop', property=prop, mir_finding=r, scenarios=[s], how='bin/check %s --replay %s' % (prop, rp)), open(rp, 'w'), indent=1)
            ev['violations'].append(dict(replay=rp, failed=[dict(desc='eval_impl %s arm: %s; literals vs variables: %s' % (r['op'], r['conflict'], s['detail'][:220]),
                                                                 loc='minijinja/src/vm/mod.rs eval_impl (MIR)')]))
        else:
            ev['problems'].append('engine M: binop arm %s: %s, but literal and variable forms agree on the whole operand grid' % (r['op'], r['conflict']))
    bad = [s for s in scen.values() if not s['ok']]
    if bad and all(r['verdict'] == 'sat' for r in results):
        ev['problems'].append('engine M: literal and variable forms of `%s` disagree (%s) although every arm calls its ops function' % (bad[0]['symbol'], bad[0]['detail'][:200]))
    log('[%s] engine M (eval_impl binop arms): %s; native grid: %d operators, %d disagreeing' % (
        prop, ' '.join('%s=%s' % (r['op'], r['verdict']) for r in results), len(scen), len(bad)))
    ev['coverage'] = dict(queries=len(results), results=results, native_scenarios=len(scen), native_scenarios_failing=len(bad), function='Executor::eval_impl', check='binop_uses_ops')
    ev['wall_s'] = round(time.time() - t0, 1)
    return ev


# ---------------------------------------------------------------------------------------------
# write_with_html_escaping (C02): which KINDS of non-string values are written without escaping, with the
# kind SYMBOLIC: only undefined, none, booleans and numbers may bypass HtmlEscape
# ---------------------------------------------------------------------------------------------
def value_kinds(repo):
    src = open(os.path.join(repo, 'minijinja', 'src', 'value', 'mod.rs'), encoding='utf-8').read()
    m = re.search(r'pub enum ValueKind \{(.*?)\n\}', src, re.S)
    if not m:
        raise MirError('enum ValueKind not found')
    return re.findall(r'^\s{4}([A-Z]\w*),', re.sub(r'\s*///[^\n]*', '', re.sub(r'#\[[^\]]*\]', '', m.group(1))), re.M)


def check_raw_kinds(mir, kinds):
    text = function_text(mir, r'^fn (?:utils::)?write_with_html_escaping\(')
    if text is None:
        return 'unknown', dict(kind='write_with_html_escaping not found in the MIR'), 0.0, {}
    fn = parse_function(text)
    der, _ = derive_map(fn)
    kind_locals = set()
    for b in fn['blocks'].values():
        dst, callee = call_of(b['term'])
        if dst and re.match(r'value::Value::kind\(', callee):
            kind_locals.add(dst)
    sw = None
    for bid, b in fn['blocks'].items():
        m = re.match(r'switchInt\((?:move|copy) (_\d+)\)', b['term'])
        if m and m.group(1) in der and der[m.group(1)][1] == 'disc' and der[m.group(1)][0] in kind_locals:
            sw = bid
    if sw is None:
        return 'unknown', dict(kind='no dispatch on the value kind found'), 0.0, {}

    def classify(bid):
        """follow straight-line code: 'escaped' | 'raw' | None"""
        cur = bid
        for _ in range(12):
            blk = fn['blocks'][cur]
            if any('HtmlEscape::<' in st for st in blk['stmts']):
                return 'escaped'
            _, callee = call_of(blk['term'])
            if callee and re.search(r'Output::<[^>]*>::write_fmt\(|Output::<[^>]*>::write_str\(', callee):
                return 'raw'
            nxt = successors(blk['term'])
            if len(nxt) != 1:
                return None
            cur = nxt[0][1]
        return None
    # arms either classify directly or set a boolean that is switched on next
    arms = []
    m = re.match(r'switchInt\((?:move|copy) _\d+\) -> \[(.*)\];', fn['blocks'][sw]['term'])
    for part in m.group(1).split(', '):
        k, tgt = part.split(': ')
        blk = fn['blocks'][tgt]
        cls = classify(tgt)
        if cls is None:
            # `_m = const true/false; goto -> bbS` followed by `switchInt(move _m)`
            sets = [re.match(r'(_\d+) = const (true|false);', st) for st in blk['stmts']]
            sets = [x for x in sets if x]
            nxt = successors(blk['term'])
            if sets and len(nxt) == 1:
                val = sets[-1].group(2) == 'true'
                sblk = fn['blocks'][nxt[0][1]]
                m2 = re.match(r'switchInt\((?:move|copy) (_\d+)\) -> \[(.*)\];', sblk['term'])
                if m2 and m2.group(1) == sets[-1].group(1):
                    tg = dict(p.split(': ') for p in m2.group(2).split(', '))
                    final = tg.get('otherwise') if val else tg.get('0')
                    cls = classify(final) if final else None
        if cls is None:
            return 'unknown', dict(kind='cannot classify what happens for kind arm %s' % k), 0.0, {}
        arms.append((k, cls))
    k = z3.Int('kind')
    s_ = z3.Solver()
    s_.set('timeout', 30000)
    s_.add(k >= 0, k < len(kinds))
    if 'String' in kinds:
        s_.add(k != kinds.index('String'))      # strings take the `as_str()` branch before this dispatch
    other = [c for v, c in arms if v == 'otherwise']
    impl = z3.BoolVal(other[0] == 'raw') if other else z3.BoolVal(False)
    for v, c in arms:
        if v != 'otherwise':
            impl = z3.If(k == int(v), z3.BoolVal(c == 'raw'), impl)
    allowed = [kinds.index(x) for x in ('Undefined', 'None', 'Bool', 'Number') if x in kinds]
    spec = z3.Or(*[k == a for a in allowed])
    s_.add(impl != spec)
    t0 = time.time()
    r = s_.check()
    dt = time.time() - t0
    stats = dict(arms=arms, kinds=kinds)
    if r == z3.unsat:
        return 'sat', None, dt, stats
    if r == z3.sat:
        kv = s_.model()[k].as_long()
        return 'unsat', dict(kind='values of kind %s are written %s' % (kinds[kv], 'WITHOUT escaping' if kv not in allowed else 'through HtmlEscape although they never need it'), value_kind=kinds[kv]), dt, stats
    return str(r), None, dt, stats


# ---------------------------------------------------------------------------------------------
# captures (C02): what a {% set %} block / macro / call block / recursive loop / super() captured has been escaped
# under the state's auto-escape mode already, so it must come back marked safe exactly when that mode is not None.
#  (a) Output::end_capture with the mode's discriminant SYMBOLIC: from_safe_string iff mode != None
#  (b) every end_capture call whose result is used passes a copy of the state's auto_escape field
# ---------------------------------------------------------------------------------------------
def auto_escape_variants(repo):
    src = open(os.path.join(repo, 'minijinja', 'src', 'utils.rs'), encoding='utf-8').read()
    m = re.search(r'pub enum AutoEscape \{(.*?)\n\}', src, re.S)
    if not m:
        raise MirError('enum AutoEscape not found')
    body = re.sub(r'\s*///[^\n]*', '', re.sub(r'#\[[^\]]*\]', '', m.group(1)))
    return re.findall(r'^\s{4}([A-Z]\w*)', body, re.M)


def check_capture_marks(mir, variants):
    text = function_text(mir, r'^fn output::<impl [^>]*>::end_capture\(')
    if text is None:
        return 'unknown', dict(kind='Output::end_capture not found in the MIR'), 0.0, {}
    fn = parse_function(text)
    d = z3.Int('mode')
    outcomes = []          # (path condition, 'safe' | 'plain')
    problems = []

    def walk(bid, env, cond, depth):
        if depth > 40:
            problems.append('path too long')
            return
        blk = fn['blocks'][bid]
        env = dict(env)
        for st in blk['stmts']:
            m = re.match(r'(_\d+) = discriminant\(_2\);', st)
            if m:
                env[m.group(1)] = d
                continue
            m = re.match(r'(_\d+) = const (true|false);', st)
            if m:
                env[m.group(1)] = z3.IntVal(1 if m.group(2) == 'true' else 0)
                continue
            m = re.match(r'(_\d+) = (?:Eq|Ne)\((?:move|copy) (_\d+), const (\d+)_\w+\);', st)
            if m and m.group(2) in env:
                eq = env[m.group(2)] == int(m.group(3))
                env[m.group(1)] = z3.If(eq if st.split(' = ')[1].startswith('Eq') else z3.Not(eq), z3.IntVal(1), z3.IntVal(0))
                continue
            m = re.match(r'(_\d+) = Not\((?:move|copy) (_\d+)\);', st)
            if m and m.group(2) in env:
                env[m.group(1)] = 1 - env[m.group(2)]
                continue
            m = re.match(r'(_\d+) = (?:move|copy) (_\d+);', st)
            if m and m.group(2) in env:
                env[m.group(1)] = env[m.group(2)]
        term = blk['term']
        _, callee = call_of(term)
        if callee and re.match(r'value::Value::from_safe_string\(', callee):
            outcomes.append((cond, 'safe'))
            return
        if callee and re.match(r'<value::Value as From<(?:std::string::)?String>>::from\(', callee):
            outcomes.append((cond, 'plain'))
            return
        m = re.match(r'switchInt\((?:move|copy) (_\d+)\) -> \[(.*)\];', term)
        if m:
            if m.group(1) not in env:
                # a switch on something other than the mode (the captured Option): follow every arm
                for _, tgt in successors(term):
                    if fn['blocks'][tgt]['term'] != 'unreachable;':
                        walk(tgt, env, cond, depth + 1)
                return
            v = env[m.group(1)]
            seen = []
            for part in m.group(2).split(', '):
                k, tgt = part.split(': ')
                if k == 'otherwise':
                    c2 = z3.And(*[v != x for x in seen]) if seen else z3.BoolVal(True)
                else:
                    c2 = v == int(k)
                    seen.append(int(k))
                if fn['blocks'][tgt]['term'] != 'unreachable;':
                    walk(tgt, env, z3.And(cond, c2), depth + 1)
            return
        for _, tgt in successors(term):
            if not fn['blocks'][tgt]['cleanup']:
                walk(tgt, env, cond, depth + 1)
    walk('bb0', {}, z3.BoolVal(True), 0)
    stats = dict(paths=len(outcomes), variants=variants)
    if problems or not outcomes:
        return 'unknown', dict(kind='cannot read end_capture: %s' % (problems or 'no constructor call reached')), 0.0, stats
    s_ = z3.Solver()
    s_.set('timeout', 30000)
    s_.add(d >= 0, d < len(variants))
    none = variants.index('None')
    s_.add(z3.Or(*[z3.And(c, (d != none) if kind == 'plain' else (d == none)) for c, kind in outcomes]))
    t0 = time.time()
    r = s_.check()
    dt = time.time() - t0
    if r == z3.unsat:
        # and every mode reaches some constructor
        s2 = z3.Solver()
        s2.add(d >= 0, d < len(variants), z3.Not(z3.Or(*[c for c, _ in outcomes])))
        if s2.check() != z3.unsat:
            return 'unknown', dict(kind='a mode reaches no constructor'), dt, stats
        return 'sat', None, dt, stats
    if r == z3.sat:
        mv = s_.model()[d].as_long()
        return 'unsat', dict(kind='under AutoEscape::%s the captured text comes back %s' % (variants[mv], 'NOT marked safe (it will be escaped a second time)' if mv != none else 'marked safe although nothing was escaped'), mode=variants[mv]), dt, stats
    return str(r), None, dt, stats


def check_capture_mode_argument(mir):
    """every end_capture call whose result is used gets `state.auto_escape`"""
    sites = []
    s_ = z3.Solver()
    s_.set('timeout', 30000)
    n = 0
    conflict = None
    for m in re.finditer(r'^fn (\S[^\n]*?) \{\n', mir, re.M):
        end = mir.find('\n}\n', m.end())
        body = mir[m.start():end]
        if 'end_capture(' not in body or re.match(r'fn output::', m.group(0)):
            continue
        fn = parse_function(body)
        name = re.match(r'fn ([^(]*)\(', m.group(0)).group(1)
        for bid, blk in fn['blocks'].items():
            dst, callee = call_of(blk['term'])
            mm = callee and re.match(r'output::Output::<[^>]*>::end_capture\((?:move|copy) _\d+, (?:move|copy) (_\d+)\)', callee)
            if not mm:
                continue
            n += 1
            arg = mm.group(1)
            alldefs = {}
            for b2 in fn['blocks'].values():
                for st in b2['stmts']:
                    x = re.match(r'(_\d+) = (.*);$', st)
                    if x:
                        alldefs.setdefault(x.group(1), []).append(x.group(2))
            origin = None
            for st in blk['stmts']:
                x = re.match(re.escape(arg) + r' = (.*);$', st)
                if x:
                    origin = x.group(1)
            if origin is None and len(alldefs.get(arg, [])) == 1:
                origin = alldefs[arg][0]
            # a mode that was first copied into a local (`let mode = state.auto_escape;`): follow single definitions
            for _ in range(6):
                x = origin and re.match(r'(?:move|copy) (_\d+)$', origin)
                if x and len(alldefs.get(x.group(1), [])) == 1:
                    origin = alldefs[x.group(1)][0]
                else:
                    break
            from_state = bool(origin and re.match(r'copy \(\(\*_\d+\)\.\d+: utils::AutoEscape\)$', origin))
            # is the result used?  (anything other than a drop mentions it later)
            uses = [st for b2 in fn['blocks'].values() for st in b2['stmts'] + [b2['term']]
                    if re.search(r'\b%s\b' % re.escape(dst), st) and not re.match(r'drop\(%s\)' % re.escape(dst), st)
                    and not st.startswith('%s = ' % dst) and not re.match(r'Storage(Live|Dead)\(', st)]
            used = bool(uses)
            u, f = z3.Bool('used_%d' % n), z3.Bool('state_mode_%d' % n)
            s_.add(u == used, f == from_state)
            s_.add(z3.Implies(u, f))
            sites.append(dict(function=name[:80], block=bid, mode_argument=origin, result_used=used))
            if used and not from_state and conflict is None:
                conflict = 'in %s the captured value is produced with the mode `%s`, not the state\'s auto-escape mode' % (name[:60], origin)
    if not sites:
        return 'unknown', dict(kind='no end_capture call found'), 0.0, {}
    t0 = time.time()
    r = s_.check()
    dt = time.time() - t0
    stats = dict(sites=sites)
    if r == z3.sat:
        return 'sat', None, dt, stats
    if r == z3.unsat:
        return 'unsat', dict(kind=conflict), dt, stats
    return str(r), None, dt, stats


# ---------------------------------------------------------------------------------------------
# eval_impl (C02): the print instruction hands its value to write_escaped / the formatter on every path
# ---------------------------------------------------------------------------------------------
def run_emit(prop, tier, seed):
    t0 = time.time()
    ev = dict(engine='M', violations=[], known_hits=[], problems=[], coverage={})
    try:
        mir = dump_mir(REPO, os.path.join(BUILD, 'mir'))
        text = function_text(mir, EVAL_IMPL)
        if text is None:
            raise MirError('eval_impl not found in the MIR dump')
        results = check_binop_arms(parse_function(text), instruction_variants(REPO), table=EMIT_ARM)
        kv, kinfo, kdt, kstats = check_raw_kinds(mir, value_kinds(REPO))
        results.append(dict(op='raw_kinds', verdict=kv, conflict=(kinfo or {}).get('kind'), z3_s=round(kdt, 3), arms=[list(a) for a in kstats.get('arms', [])]))
    except MirError as e:
        ev['problems'].append('engine M: %s' % e)
        return ev
    err = build_tool('vmexits')
    if err:
        ev['problems'].append('engine M: native scenario tool did not build: ' + err[-300:])
        return ev
    scen = [s for s in run_vmexits() if s['check'] == 'emit_escapes']
    failing = [s for s in scen if not s['ok']]
    for r in results:
        if r['verdict'] == 'sat':
            continue
        if r['verdict'] != 'unsat':
            ev['problems'].append('engine M: Emit arm: %s %s' % (r['verdict'], r.get('conflict', '')))
            continue
        if failing:
            rp = os.path.join(nativelib.replay_dir(), '%s-M-emit.json' % prop)
            json.dump(dict(engine='M', kind='eval_impl', check='emit_escapes', property=prop, mir_finding=r, scenarios=failing,
                           how='bin/check %s --replay %s' % (prop, rp)), open(rp, 'w'), indent=1)
            ev['violations'].append(dict(replay=rp, failed=[dict(desc='%s; native scenario %s: %s' % (
                ('write_with_html_escaping: ' + str(r.get('conflict'))) if r['op'] == 'raw_kinds' else 'eval_impl Emit arm: a path prints without write_escaped / the formatter',
                failing[0]['scenario'], failing[0]['detail'][:220]), loc='minijinja/src/vm/mod.rs eval_impl / utils.rs (MIR)')]))
        else:
            ev['problems'].append('engine M: Emit arm: a path reaches the next instruction without exactly one write_escaped/format call, but no native print scenario misbehaves')
    if failing and all(r['verdict'] == 'sat' for r in results):
        ev['problems'].append('engine M: native print scenario %s misbehaves (%s) although the Emit arm always goes through write_escaped / the formatter' % (failing[0]['scenario'], failing[0]['detail'][:200]))
    log('[%s] engine M (eval_impl Emit arm): %s; %d native scenarios, %d misbehaving' % (prop, ' '.join('%s=%s' % (r['op'], r['verdict']) for r in results), len(scen), len(failing)))
    ev['coverage'] = dict(queries=len(results), results=results, native_scenarios=len(scen), native_scenarios_failing=len(failing), function='Executor::eval_impl', check='emit_escapes')
    ev['wall_s'] = round(time.time() - t0, 1)
    return ev


# ---------------------------------------------------------------------------------------------
# filters (C02): what a filter hands to Value::from_safe_string contains no text of an argument that was taken
# with as_str() (unescaped) unless that argument is known to be safe on the path.  Least-fixpoint taint over the
# function's locals (T) and a must-fact "is_safe(param) returned true" per block (K), both left to the solver.
# ---------------------------------------------------------------------------------------------
SANITISERS = r'core::str::<impl str>::len\(|String::with_capacity\(|StringInput::<[^>]*>::format\(|StringInput::<[^>]*>::is_safe\(|value::Value::is_safe\(|value::Value::kind\(|state::State::<[^>]*>::auto_escape\('
RAW_SOURCES = r'StringInput::<[^>]*>::as_str\(|value::Value::as_str\(|value::Value::to_str\(|<value::Value as ToString>::to_string\('


def check_safe_string_sources(fn):
    blocks = {b: blk for b, blk in fn['blocks'].items() if not blk['cleanup']}
    adj, preds = cfg(fn)
    refs = {}                      # _a = &_p / &mut _p / copy _p (a reference parameter)  -> _p
    for blk in blocks.values():
        for st in blk['stmts']:
            m = re.match(r'(_\d+) = &(?:mut )?(?:\(\*)?(_\d+)\)?;', st)
            if m:
                refs[m.group(1)] = m.group(2)

    def param_of(local):
        seen = set()
        while local in refs and local not in seen:
            seen.add(local)
            local = refs[local]
        return local
    # which bool local is the answer of is_safe(param)?
    answer = {}
    for blk in blocks.values():
        dst, callee = call_of(blk['term'])
        m = callee and re.match(r'(?:StringInput::<[^>]*>|value::Value)::is_safe\((?:move|copy) (_\d+)\)', callee)
        if m and dst:
            answer[dst] = param_of(m.group(1))
    changed = True
    while changed:
        changed = False
        for blk in blocks.values():
            for st in blk['stmts']:
                m = re.match(r'(_\d+) = (?:move|copy) (_\d+);', st)
                if m and m.group(2) in answer and m.group(1) not in answer:
                    answer[m.group(1)] = answer[m.group(2)]
                    changed = True
                m = re.match(r'(_\d+) = \((.*)\);$', st)          # tuple of answers: (move _a, move _b)
                if m:
                    for i, part in enumerate(m.group(2).split(', ')):
                        x = re.match(r'(?:move|copy) (_\d+)$', part)
                        key = '(%s.%d: bool)' % (m.group(1), i)
                        if x and x.group(1) in answer and key not in answer:
                            answer[key] = answer[x.group(1)]
                            changed = True
    # raw sources and the parameter each one reads
    sources = []
    for b, blk in blocks.items():
        dst, callee = call_of(blk['term'])
        if callee and dst and re.search(RAW_SOURCES, callee):
            args = re.findall(r'(?:move|copy) (_\d+)', callee[callee.find('('):])
            sources.append((b, re.search(r'_\d+', dst).group(0), param_of(args[0]) if args else '?'))
    origins = sorted(set(p for _, _, p in sources))
    params = sorted(set(answer.values()))
    s_ = z3.Solver()
    s_.set('timeout', 30000)
    K = {(p, b): z3.Bool('K_%s_%s' % (p, b)) for p in params for b in blocks}
    T = {}

    def t(o, local):
        if (o, local) not in T:
            T[(o, local)] = z3.Bool('T%s_from%s' % (local, o))
        return T[(o, local)]
    for p in params:
        s_.add(z3.Not(K[(p, 'bb0')]))
    for b, blk in blocks.items():
        sw = re.match(r'switchInt\((?:move|copy) (_\d+|\(_\d+\.\d+: bool\))\) -> \[(.*)\];', blk['term'])
        for label, tgt in adj[b]:
            if tgt not in blocks:
                continue
            for p in params:
                sets = False
                if sw and sw.group(1) in answer and answer[sw.group(1)] == p:
                    tg = dict(x.split(': ') for x in sw.group(2).split(', '))
                    true_t = tg.get('1', tg.get('otherwise'))
                    if tgt == true_t and tg.get('0') != tgt:
                        sets = True
                if not sets:
                    s_.add(z3.Implies(K[(p, tgt)], K[(p, b)]))
    sinks = []
    for b, blk in blocks.items():
        for st in blk['stmts']:
            m = re.match(r'(.+?) = (.*);$', st)
            if not m or st.startswith('Storage'):
                continue
            lhs = re.search(r'_\d+', m.group(1))
            if not lhs:
                continue
            for o in origins:
                for l in set(re.findall(r'_\d+', m.group(2))):
                    s_.add(z3.Implies(t(o, l), t(o, lhs.group(0))))
                mm = re.match(r'(_\d+) = &mut (_\d+)', st)
                if mm:
                    s_.add(t(o, mm.group(1)) == t(o, mm.group(2)))
        dst, callee = call_of(blk['term'])
        if not callee or not dst:
            continue
        args = re.findall(r'(?:move|copy) (_\d+)', callee[callee.find('('):]) if '(' in callee else []
        if re.match(r'value::Value::from_safe_string\(', callee):
            sinks.append((b, args[0] if args else None))
            continue
        dl = re.search(r'_\d+', dst).group(0)
        if re.search(RAW_SOURCES, callee):
            p = param_of(args[0]) if args else '?'
            if p in params:
                s_.add(z3.Implies(z3.Not(K[(p, b)]), t(p, dl)))
            else:
                s_.add(t(p, dl))
            continue
        if re.search(SANITISERS, callee):
            continue
        flowing = args
        if re.match(r'std::str::<impl str>::replace::<', callee) and len(args) == 3:
            flowing = [args[0], args[2]]           # the pattern is matched against, it does not reach the result
        for o in origins:
            for a in flowing:
                s_.add(z3.Implies(t(o, a), t(o, dl)))
                for a2 in args:
                    if a2 != a and a2 in refs:           # out-parameters: anything passed may end up behind a reference argument
                        s_.add(z3.Implies(t(o, a), t(o, refs[a2])))
    for b, a in sinks:
        if a is None:
            return 'unknown', dict(kind='cannot read the argument of from_safe_string'), 0.0, {}
        for o in origins:
            # text of parameter o may only arrive here if o is known to be safe at this point
            s_.add(z3.Or(z3.Not(t(o, a)), K[(o, b)]) if (o, b) in K else z3.Not(t(o, a)))
    stats = dict(blocks=len(blocks), safe_string_sinks=len(sinks), raw_sources=len(sources), params_tested_for_safety=len(params))
    if not sinks:
        return 'unknown', dict(kind='no from_safe_string call'), 0.0, stats
    t0 = time.time()
    r = s_.check()
    dt = time.time() - t0
    if r == z3.sat:
        return 'sat', None, dt, stats
    if r == z3.unsat:
        return 'unsat', dict(kind='text taken with as_str() from an argument that is not known to be safe reaches Value::from_safe_string'), dt, stats
    return str(r), None, dt, stats


# ---------------------------------------------------------------------------------------------
# |format with a SAFE format string (C02): the per-argument closure keeps an argument as it is (so that it is
# interpolated unescaped) exactly when the argument is safe or is a bool/number; everything else goes through
# filters::escape.  The argument's safe flag and kind discriminant are SYMBOLIC.
# ---------------------------------------------------------------------------------------------
def promoted_variant(mir, name, enum_variants):
    m = re.search(r'^const ' + re.escape(name) + r': &[^=]*= \{(.*?)^\}', mir, re.M | re.S)
    if not m:
        return None
    v = re.search(r'_1 = [\w:]*::(\w+);', m.group(1))
    if v and v.group(1) in enum_variants:
        return enum_variants.index(v.group(1))
    return None


def check_format_argument_policy(mir, kinds):
    hdr = None
    for m in re.finditer(r'^fn (filters::builtins::format::\{closure#\d+\})\(', mir, re.M):
        text = function_text(mir, '^fn ' + re.escape(m.group(1)) + r'\(')
        if text and 'filters::escape(' in text:
            hdr, body = m.group(1), text
    if hdr is None:
        return 'unknown', dict(kind='the per-argument closure of |format was not found'), 0.0, {}
    fn = parse_function(body)
    safe, k = z3.Int('arg_is_safe'), z3.Int('arg_kind')
    outcomes, problems = [], []

    def walk(bid, env, cond, depth):
        if depth > 60:
            problems.append('path too long')
            return
        blk = fn['blocks'][bid]
        env = dict(env)
        for st in blk['stmts']:
            m = re.match(r'(_\d+) = discriminant\((_\d+)\);', st)
            if m and m.group(2) in env:
                env[m.group(1)] = env[m.group(2)]
                continue
            m = re.match(r'(_\d+) = const (true|false);', st)
            if m:
                env[m.group(1)] = z3.IntVal(1 if m.group(2) == 'true' else 0)
                continue
            m = re.match(r'(_\d+) = const (\S+::promoted\[\d+\]);', st)
            if m:
                pv = promoted_variant(mir, m.group(2), kinds)
                if pv is not None:
                    env[m.group(1)] = z3.IntVal(pv)
                continue
            m = re.match(r'(_\d+) = value::ValueKind::(\w+);', st)
            if m and m.group(2) in kinds:
                env[m.group(1)] = z3.IntVal(kinds.index(m.group(2)))
                continue
            m = re.match(r'(_\d+) = (Eq|Ne)\((?:move|copy) (_\d+), (?:const (\d+)_\w+|(?:move|copy) (_\d+))\);', st)
            if m and m.group(3) in env and (m.group(4) or m.group(5) in env):
                rhs = int(m.group(4)) if m.group(4) else env[m.group(5)]
                eq = env[m.group(3)] == rhs
                env[m.group(1)] = z3.If(eq if m.group(2) == 'Eq' else z3.Not(eq), z3.IntVal(1), z3.IntVal(0))
                continue
            m = re.match(r'(_\d+) = Not\((?:move|copy) (_\d+)\);', st)
            if m and m.group(2) in env:
                env[m.group(1)] = 1 - env[m.group(2)]
                continue
            m = re.match(r'(_\d+) = &(_\d+);', st) or re.match(r'(_\d+) = (?:move|copy) (_\d+);', st)
            if m and m.group(2) in env:
                env[m.group(1)] = env[m.group(2)]
                continue
            if re.match(r'_\d+ = Option::<value::Value>::None;', st):
                outcomes.append((cond, 'keep'))
                return
        term = blk['term']
        dst, callee = call_of(term)
        if callee:
            nxt = [t_ for lab, t_ in successors(term) if not fn['blocks'][t_]['cleanup']]
            if re.match(r'filters::escape\(', callee):
                outcomes.append((cond, 'escape'))
                return
            if re.match(r'error::Error::new', callee):
                outcomes.append((cond, 'error'))
                return
            if re.match(r'value::Value::is_safe\(', callee):
                env[dst] = safe
            elif re.match(r'value::Value::kind\(', callee):
                env[dst] = k
            else:
                m = re.match(r'<value::ValueKind as PartialEq>::(eq|ne)\((?:move|copy) (_\d+), (?:move|copy) (_\d+)\)', callee)
                if m and m.group(2) in env and m.group(3) in env:
                    eq = env[m.group(2)] == env[m.group(3)]
                    env[dst] = z3.If(eq if m.group(1) == 'eq' else z3.Not(eq), z3.IntVal(1), z3.IntVal(0))
                elif re.match(r'<formatting::FormatConversion as PartialEq>::eq\(', callee):
                    # the conversion is not the subject: follow the `not a character conversion` side only
                    env[dst] = z3.IntVal(0)
            for t_ in nxt[:1]:
                walk(t_, env, cond, depth + 1)
            return
        m = re.match(r'switchInt\((?:move|copy) (_\d+)\) -> \[(.*)\];', term)
        if m:
            if m.group(1) not in env:
                problems.append('a branch on something that is neither the safe flag nor the kind (%s in %s)' % (m.group(1), bid))
                return
            v = env[m.group(1)]
            seen = []
            for part in m.group(2).split(', '):
                kk, tgt = part.split(': ')
                if kk == 'otherwise':
                    c2 = z3.And(*[v != x for x in seen]) if seen else z3.BoolVal(True)
                else:
                    c2 = v == int(kk)
                    seen.append(int(kk))
                if fn['blocks'][tgt]['term'] != 'unreachable;':
                    walk(tgt, env, z3.And(cond, c2), depth + 1)
            return
        for _, tgt in successors(term):
            if not fn['blocks'][tgt]['cleanup']:
                walk(tgt, env, cond, depth + 1)
    walk('bb0', {}, z3.BoolVal(True), 0)
    stats = dict(paths=len(outcomes), closure=hdr)
    if problems or not outcomes:
        return 'unknown', dict(kind='cannot read the closure: %s' % (problems[:1] or 'no outcome reached')), 0.0, stats
    s_ = z3.Solver()
    s_.set('timeout', 30000)
    s_.add(safe >= 0, safe <= 1, k >= 0, k < len(kinds))
    typed = [kinds.index(x) for x in ('Bool', 'Number') if x in kinds]
    spec_keep = z3.Or(safe == 1, *[k == x for x in typed])
    s_.add(z3.Or(*[z3.And(c, z3.Not(spec_keep) if o == 'keep' else (spec_keep if o == 'escape' else z3.BoolVal(False))) for c, o in outcomes]))
    t0 = time.time()
    r = s_.check()
    dt = time.time() - t0
    if r == z3.unsat:
        return 'sat', None, dt, stats
    if r == z3.sat:
        md = s_.model()
        kv, sv = md.eval(k, model_completion=True).as_long(), md.eval(safe, model_completion=True).as_long()
        return 'unsat', dict(kind='an argument of kind %s (safe=%s) is %s' % (kinds[kv], bool(sv), 'interpolated WITHOUT escaping into the safe result' if not (sv or kv in typed) else 'escaped although it needs none'), value_kind=kinds[kv]), dt, stats
    return str(r), None, dt, stats


def html_escape(text):
    return text.replace('&', '&amp;').replace('<', '&lt;').replace('>', '&gt;').replace('"', '&quot;').replace("'", '&#x27;').replace('/', '&#x2f;')


def safe_source_requests():
    """(filter, request, expected output) under HTML auto-escaping; expectations are written from the property:
    text of an unsafe operand arrives escaped exactly once, text of a safe operand arrives as it is"""
    out = []
    v, f, t = '<a>.', '.', '<t>'
    for vs in (0, 1):
        for fs in (0, 1):
            for ts in (0, 1):
                src = '{{ %s|replace(%s, %s) }}' % ('v|safe' if vs else 'v', 'f|safe' if fs else 'f', 't|safe' if ts else 't')
                want = (v if vs else html_escape(v)).replace(f, t if ts else html_escape(t))
                out.append(('replace', dict(src=src, name='p.html', ctx=dict(v=v, f=f, t=t)), want))
    for vs in (0, 1):
        out.append(('reverse', dict(src='{{ %s|reverse }}' % ('v|safe' if vs else 'v'), name='p.html', ctx=dict(v='<a>')), '>a<' if vs else html_escape('>a<')))
        out.append(('escape', dict(src='{{ %s|escape }}' % ('v|safe' if vs else 'v'), name='p.html', ctx=dict(v='<a>')), '<a>' if vs else html_escape('<a>')))
        for as_ in (0, 1):
            src = '{{ %s|format(%s) }}' % ('v|safe' if vs else 'v', 'a|safe' if as_ else 'a')
            if vs:
                want = '<b>%s</b>' % ('<i>' if as_ else html_escape('<i>'))
            else:
                want = html_escape('<b><i></b>')
            out.append(('format', dict(src=src, name='p.html', ctx=dict(v='<b>%s</b>', a='<i>')), want))
    # a safe format string with arguments that are neither strings nor numbers: their rendering is escaped
    out.append(('format', dict(src='{{ v|safe|format(a) }}', name='p.html', ctx=dict(v='<b>%s</b>', a=['<i>'])), '<b>%s</b>' % html_escape("['<i>']")))
    out.append(('format', dict(src='{{ v|safe|format(a) }}', name='p.html', ctx=dict(v='<b>%s</b>', a={'k': '<i>'})), '<b>%s</b>' % html_escape("{'k': '<i>'}")))
    out.append(('format', dict(src='{{ v|safe|format(a, b) }}', name='p.html', ctx=dict(v='<b>%s %d</b>', a=True, b=7)), '<b>True 7</b>'))
    return out


def run_safe_sources(prop, tier, seed):
    t0 = time.time()
    ev = dict(engine='M', violations=[], known_hits=[], problems=[], coverage={})
    try:
        mir = dump_mir(REPO, os.path.join(BUILD, 'mir'))
    except MirError as e:
        ev['problems'].append('engine M: %s' % e)
        return ev
    results = []
    for m in re.finditer(r'^fn (filters::\S*?)\(', mir, re.M):
        text = function_text(mir, '^fn ' + re.escape(m.group(1)) + r'\(')
        if text is None or 'from_safe_string(' not in text:
            continue
        verdict, info, dt, stats = check_safe_string_sources(parse_function(text))
        results.append(dict(function=m.group(1), filter=m.group(1).split('::')[-1] if '{closure' not in m.group(1) else m.group(1).split('::')[-2],
                            verdict=verdict, z3_s=round(dt, 3), conflict=(info or {}).get('kind'), **stats))
    try:
        fv, fi, fdt, fstats = check_format_argument_policy(mir, value_kinds(REPO))
        results.append(dict(function='filters::builtins::format::{closure}', filter='format', op='format_argument_policy', verdict=fv, z3_s=round(fdt, 3),
                            conflict=(fi or {}).get('kind'), raw_sources=1, **fstats))
    except MirError as e:
        ev['problems'].append('engine M: %s' % e)
    decided = [r for r in results if r.get('raw_sources')]
    if not decided:
        ev['problems'].append('engine M: no filter that builds a safe string from argument text was found in the MIR dump')
        return ev
    err = build_tool('render')
    if err:
        ev['problems'].append('engine M: render tool did not build')
        return ev
    reqs = safe_source_requests()
    inp = '\n'.join(json.dumps(q) for _, q, _ in reqs) + '\n'
    p = subprocess.run([os.path.join(BUILD, 'native', 'debug', 'render')], input=inp, stdout=subprocess.PIPE, stderr=subprocess.PIPE, text=True, timeout=120)
    outs = [json.loads(l) for l in p.stdout.split('\n') if l.strip()]
    bad = {}
    for (f, q, want), o in zip(reqs, outs):
        if o.get('ok') != want:
            bad.setdefault(f, []).append('%s with %s renders %r, expected %r' % (q['src'], json.dumps(q['ctx']), o.get('ok', o), want))
    for r in decided:
        if r['verdict'] == 'sat':
            continue
        if r['verdict'] != 'unsat':
            ev['problems'].append('engine M: %s: %s %s' % (r['function'], r['verdict'], r.get('conflict') or ''))
            continue
        if r['filter'] in bad:
            rp = os.path.join(nativelib.replay_dir(), '%s-M-safesrc-%s.json' % (prop, r['filter']))
            json.dump(dict(engine='M', kind='safesrc', property=prop, mir_finding=r, requests=[[q, w] for f, q, w in reqs if f == r['filter']],
                           how='bin/check %s --replay %s' % (prop, rp)), open(rp, 'w'), indent=1)
            ev['violations'].append(dict(replay=rp, failed=[dict(desc='%s: %s; natively: %s' % (r['function'], r['conflict'], bad[r['filter']][0][:260]),
                                                                 loc='minijinja/src/filters.rs %s (MIR)' % r['filter'])]))
        else:
            ev['problems'].append('engine M: %s: %s, but every native render of that filter is as specified' % (r['function'], r['conflict']))
    for f, msgs in bad.items():
        if all(r['verdict'] == 'sat' for r in decided if r['filter'] == f):
            ev['problems'].append('engine M: filter %s renders unsafe text unescaped or escapes twice natively (%s) although no raw argument text reaches from_safe_string' % (f, msgs[0][:240]))
    log('[%s] engine M (safe-string sources): %s; native: %d renders, %d filters misbehaving' % (
        prop, ' '.join('%s=%s' % (r['filter'], r['verdict']) for r in decided), len(outs), len(bad)))
    ev['coverage'] = dict(queries=len(results), results=results, native_scenarios=len(outs), native_scenarios_failing=len(bad), check='safe_string_sources')
    ev['wall_s'] = round(time.time() - t0, 1)
    return ev


def check_begin_capture_mode(mir):
    """(a) Output::begin_capture with the mode's discriminant symbolic: a buffer is pushed iff mode == Capture;
       (b) in eval_impl the BeginCapture instruction's own mode reaches begin_capture unchanged"""
    text = function_text(mir, r'^fn output::<impl [^>]*>::begin_capture\(')
    ev_text = function_text(mir, EVAL_IMPL)
    if text is None or ev_text is None:
        return 'unknown', dict(kind='begin_capture / eval_impl not found in the MIR'), 0.0, {}
    fn = parse_function(text)
    d = z3.Int('capture_mode')
    outcomes = []

    def walk(bid, env, cond, depth):
        blk = fn['blocks'][bid]
        env = dict(env)
        for st in blk['stmts']:
            m = re.match(r'(_\d+) = discriminant\(_2\);', st)
            if m:
                env[m.group(1)] = d
            if re.match(r'_\d+ = Option::<(?:std::string::)?String>::None;', st):
                outcomes.append((cond, 'none'))
                return
            if re.match(r'_\d+ = Option::<(?:std::string::)?String>::Some\(', st):
                outcomes.append((cond, 'buffer'))
                return
        term = blk['term']
        m = re.match(r'switchInt\((?:move|copy) (_\d+)\) -> \[(.*)\];', term)
        if m and m.group(1) in env:
            seen = []
            for part in m.group(2).split(', '):
                kk, tgt = part.split(': ')
                if kk == 'otherwise':
                    c2 = z3.And(*[env[m.group(1)] != x for x in seen]) if seen else z3.BoolVal(True)
                else:
                    c2 = env[m.group(1)] == int(kk)
                    seen.append(int(kk))
                if fn['blocks'][tgt]['term'] != 'unreachable;' and depth < 30:
                    walk(tgt, env, z3.And(cond, c2), depth + 1)
            return
        if depth < 30:
            for tgt in sorted(set(t_ for _, t_ in successors(term))):
                if not fn['blocks'][tgt]['cleanup'] and fn['blocks'][tgt]['term'] != 'unreachable;':
                    walk(tgt, env, cond, depth + 1)
    walk('bb0', {}, z3.BoolVal(True), 0)
    src = open(os.path.join(REPO, 'minijinja', 'src', 'output.rs'), encoding='utf-8').read()
    m = re.search(r'pub enum CaptureMode \{(.*?)\n\}', src, re.S)
    modes = re.findall(r'^\s{4}([A-Z]\w*)', re.sub(r'\s*///[^\n]*', '', m.group(1)), re.M) if m else []
    if 'Capture' not in modes or not outcomes:
        return 'unknown', dict(kind='cannot read begin_capture (%d outcomes, modes %s)' % (len(outcomes), modes)), 0.0, {}
    s_ = z3.Solver()
    s_.set('timeout', 30000)
    s_.add(d >= 0, d < len(modes))
    cap = modes.index('Capture')
    bad_body = z3.Or(*[z3.And(c, (d != cap) if o == 'buffer' else (d == cap)) for c, o in outcomes])
    # (b) call sites in eval_impl
    efn = parse_function(ev_text)
    defs = {}
    for blk in efn['blocks'].values():
        for st in blk['stmts']:
            m = re.match(r'(_\d+) = (.*);$', st)
            if m:
                defs.setdefault(m.group(1), []).append(m.group(2))
    sites = []
    ok_sites = []
    for bid, blk in efn['blocks'].items():
        dst, callee = call_of(blk['term'])
        mm = callee and re.match(r'output::Output::<[^>]*>::begin_capture\((?:move|copy) _\d+, (?:move|copy) (_\d+)\)', callee)
        if not mm:
            continue
        ds = defs.get(mm.group(1), [])
        kind = 'other'
        if len(ds) == 1 and re.match(r'(?:output::)?CaptureMode::\w+$', ds[0]):
            kind = 'constant'
        elif len(ds) == 1 and re.match(r'copy \(\*(_\d+)\)$', ds[0]):
            r_ = re.match(r'copy \(\*(_\d+)\)$', ds[0]).group(1)
            rd = defs.get(r_, [])
            if len(rd) == 1 and re.match(r'&\(\(\(\*_\d+\) as BeginCapture\)\.0: output::CaptureMode\)$', rd[0]):
                kind = 'instruction'
        sites.append(dict(block=bid, mode=ds, kind=kind))
    n_instr = z3.IntVal(sum(1 for x in sites if x['kind'] == 'instruction'))
    n_other = z3.IntVal(sum(1 for x in sites if x['kind'] == 'other'))
    s_.add(z3.Or(bad_body, n_instr != 1, n_other != 0))
    t0 = time.time()
    r = s_.check()
    dt = time.time() - t0
    stats = dict(paths=len(outcomes), modes=modes, sites=sites)
    if r == z3.unsat:
        return 'sat', None, dt, stats
    if r == z3.sat:
        if any(x['kind'] == 'other' for x in sites) or sum(1 for x in sites if x['kind'] == 'instruction') != 1:
            return 'unsat', dict(kind='the BeginCapture arm does not hand the instruction\'s own capture mode to begin_capture (mode comes from %s)' % [x['mode'] for x in sites if x['kind'] == 'other'][:1]), dt, stats
        mv = s_.model().eval(d, model_completion=True).as_long()
        return 'unsat', dict(kind='begin_capture under CaptureMode::%s %s' % (modes[mv], 'pushes no buffer' if mv == cap else 'pushes a buffer')), dt, stats
    return str(r), None, dt, stats


def run_begin_capture(prop, tier, seed):
    t0 = time.time()
    ev = dict(engine='M', violations=[], known_hits=[], problems=[], coverage={})
    try:
        mir = dump_mir(REPO, os.path.join(BUILD, 'mir'))
        v, info, dt, stats = check_begin_capture_mode(mir)
    except MirError as e:
        ev['problems'].append('engine M: %s' % e)
        return ev
    res = dict(op='begin_capture_mode', function='Output::begin_capture and the BeginCapture arm of eval_impl', verdict=v, conflict=(info or {}).get('kind'), z3_s=round(dt, 3), **stats)
    err = build_tool('vmexits')
    if err:
        ev['problems'].append('engine M: native scenario tool did not build: ' + err[-300:])
        return ev
    scen = [s for s in run_vmexits() if s['check'] == 'begin_capture_mode']
    failing = [s for s in scen if not s['ok']]
    if v == 'unsat':
        if failing:
            rp = os.path.join(nativelib.replay_dir(), '%s-M-begin-capture.json' % prop)
            json.dump(dict(engine='M', kind='eval_impl', check='begin_capture_mode', property=prop, mir_finding=res, scenarios=failing,
                           how='bin/check %s --replay %s' % (prop, rp)), open(rp, 'w'), indent=1)
            ev['violations'].append(dict(replay=rp, failed=[dict(desc='%s; native scenario %s: %s' % (res['conflict'], failing[0]['scenario'], failing[0]['detail'][:220]),
                                                                 loc='minijinja/src/vm/mod.rs BeginCapture arm / output.rs (MIR)')]))
        else:
            ev['problems'].append('engine M: %s, but no native scenario misbehaves' % res['conflict'])
    elif v != 'sat':
        ev['problems'].append('engine M: begin_capture: %s %s' % (v, res.get('conflict') or ''))
    elif failing:
        ev['problems'].append('engine M: native scenario %s misbehaves (%s) although the capture mode of the instruction reaches begin_capture' % (failing[0]['scenario'], failing[0]['detail'][:200]))
    log('[%s] engine M (begin_capture mode): %s; %d native scenarios, %d misbehaving' % (prop, v, len(scen), len(failing)))
    ev['coverage'] = dict(queries=1, results=[res], native_scenarios=len(scen), native_scenarios_failing=len(failing), function='Output::begin_capture / eval_impl BeginCapture arm', check='begin_capture_mode')
    ev['wall_s'] = round(time.time() - t0, 1)
    return ev


# ---------------------------------------------------------------------------------------------
# code generator pools (C15): a buffer taken from the per-thread pool is cleared on EVERY path before it is handed
# out (what an earlier compilation left in it - spans, pending jumps - must not reach the next template)
# ---------------------------------------------------------------------------------------------
def check_pool_buffers_cleared(mir):
    out = []
    for name in ('take_span_stack_buffer', 'take_pending_block_buffer'):
        text = function_text(mir, r'^fn (?:compiler::codegen::)?%s\(' % name)
        if text is None:
            out.append(dict(function=name, verdict='unknown', conflict='not found in the MIR'))
            continue
        fn = parse_function(text)
        adj, preds = cfg(fn)
        s_ = z3.Solver()
        s_.set('timeout', 30000)
        D = {b: z3.Int('P_%s_%s' % (name, b)) for b in fn['blocks'] if not fn['blocks'][b]['cleanup']}
        s_.add(D['bb0'] == 0)
        clears = 0
        for bid in D:
            blk = fn['blocks'][bid]
            _, callee = call_of(blk['term'])
            hit = bool(callee and re.match(r'(?:std::vec::)?Vec::<[^>]*>::(?:clear|truncate)\(', callee))
            clears += hit
            if blk['term'] == 'return;':
                s_.add(D[bid] == 1)
            for label, tgt in adj[bid]:
                if tgt in D:
                    s_.add(D[tgt] == (1 if (hit and label == 'ok') else D[bid]))
        t0 = time.time()
        r = s_.check()
        res = dict(function=name, clear_calls=clears, blocks=len(D), z3_s=round(time.time() - t0, 3))
        if r == z3.sat and clears:
            res.update(verdict='sat')
        elif r in (z3.sat, z3.unsat):
            # not cleared when taken: then it has to be cleared on every path on which it is put back
            rname = name.replace('take_', 'recycle_')
            rtext = function_text(mir, r'^fn (?:compiler::codegen::)?%s\(' % rname)
            ok_put = False
            if rtext is not None:
                rfn = parse_function(rtext)
                radj, _ = cfg(rfn)
                s2 = z3.Solver()
                R = {b: z3.Int('Q_%s_%s' % (rname, b)) for b in rfn['blocks'] if not rfn['blocks'][b]['cleanup']}
                s2.add(R['bb0'] == 0)
                puts = rclears = 0
                for bid in R:
                    blk = rfn['blocks'][bid]
                    _, callee = call_of(blk['term'])
                    hit = bool(callee and re.match(r'(?:std::vec::)?Vec::<[^>]*>::(?:clear|truncate)\(', callee))
                    rclears += hit
                    if callee and re.match(r'LocalKey::<', callee):
                        s2.add(R[bid] == 1)
                        puts += 1
                        continue            # what happens after the buffer went back into the pool is of no interest
                    for label, tgt in radj[bid]:
                        if tgt in R:
                            s2.add(R[tgt] == (1 if (hit and label == 'ok') else R[bid]))
                ok_put = bool(puts and rclears and s2.check() == z3.sat)
            if ok_put:
                res.update(verdict='sat', cleared='when put back (%s)' % rname)
            else:
                res.update(verdict='unsat', conflict='%s can hand out a pooled buffer that was cleared neither when it was put back nor when it is taken' % name)
        else:
            res.update(verdict=str(r))
        out.append(res)
    return out


def check_state_id_source(mir):
    """State::new numbers render states from ONE process-wide atomic counter (a per-thread counter would hand the
    same id to renders on different threads, and the guard in Macro::call compares nothing else)"""
    text = function_text(mir, r'^fn state::<impl [^>]*>::new\(_1: context::Context')
    if text is None:
        return dict(function='State::new', verdict='unknown', conflict='State::new not found in the MIR')
    fn = parse_function(text)
    atomics = tls = 0
    id_from = None
    for blk in fn['blocks'].values():
        if blk['cleanup']:
            continue
        dst, callee = call_of(blk['term'])
        if callee and re.match(r'(?:std::sync::atomic::)?(?:Atomic[IU]\w+|Atomic::<[iu]\w+>)::fetch_add\(', callee):
            atomics += 1
            id_from = dst
        if callee and re.match(r'LocalKey::<', callee):
            tls += 1
    s_ = z3.Solver()
    a, t_ = z3.Ints('atomic_counters thread_local_reads')
    s_.add(a == atomics, t_ == tls, z3.Or(a != 1, t_ != 0))
    t0 = time.time()
    r = s_.check()
    res = dict(function='State::new', atomic_fetch_add_calls=atomics, thread_local_reads=tls, id_local=id_from, z3_s=round(time.time() - t0, 3))
    if r == z3.unsat:
        res.update(verdict='sat')
    else:
        res.update(verdict='unsat', conflict='State::new does not take the state id from exactly one process-wide atomic counter (%d atomic fetch_add, %d thread-local reads)' % (atomics, tls))
    return res


# ---------------------------------------------------------------------------------------------
# integer literals (C08): every integer parse of Tokenizer::eat_number uses the literal's radix - the wide (128-bit)
# path the same one as the 64-bit path - and no radix-less parse of the digits exists
# ---------------------------------------------------------------------------------------------
def check_integer_literal_radix(mir):
    text = function_text(mir, r'^fn [^\n]*::eat_number\(')
    if text is None:
        return dict(function='Tokenizer::eat_number', verdict='unknown', conflict='eat_number not found in the MIR')
    fn = parse_function(text)
    defs = {}
    for blk in fn['blocks'].values():
        for st in blk['stmts']:
            m = re.match(r'(_\d+) = (.*);$', st)
            if m:
                defs.setdefault(m.group(1), []).append(m.group(2))

    def root(local):
        for _ in range(6):
            d = defs.get(local, [])
            m = len(d) == 1 and re.match(r'(?:move|copy) (_\d+)$', d[0])
            if not m:
                break
            local = m.group(1)
        return local
    radix_parses, plain_parses = [], []
    for bid, blk in fn['blocks'].items():
        if blk['cleanup']:
            continue
        dst, callee = call_of(blk['term'])
        if not callee:
            continue
        m = re.match(r'core::num::<impl ([ui]\d+)>::from_str_radix\((?:move|copy) _\d+, (?:(?:move|copy) (_\d+)|const (\d+)_u32)\)', callee)
        if m:
            radix_parses.append((m.group(1), root(m.group(2)) if m.group(2) else 'const %s' % m.group(3)))
        m = re.match(r'core::str::<impl str>::parse::<([ui]\d+)>\(', callee)
        if m:
            plain_parses.append(m.group(1))
    s_ = z3.Solver()
    n_plain = z3.Int('radixless_integer_parses')
    s_.add(n_plain == len(plain_parses))
    ids = {}
    rs = [z3.IntVal(ids.setdefault(r_, len(ids))) for _, r_ in radix_parses]
    wide = [r_ for (ty, _), r_ in zip(radix_parses, rs) if ty in ('u128', 'i128')]
    bad = [n_plain != 0]
    if rs:
        bad += [r_ != rs[0] for r_ in rs[1:]]
    s_.add(z3.Or(*bad) if bad else z3.BoolVal(False))
    t0 = time.time()
    r = s_.check()
    res = dict(function='Tokenizer::eat_number', radix_parses=radix_parses, radixless_integer_parses=plain_parses, z3_s=round(time.time() - t0, 3))
    if not radix_parses or not wide:
        res.update(verdict='unsat', conflict='eat_number has no radix-aware 128-bit parse (radix parses: %s, radix-less: %s)' % (radix_parses, plain_parses))
    elif r == z3.unsat:
        res.update(verdict='sat')
    else:
        res.update(verdict='unsat', conflict='integer parses of eat_number do not all use the literal\'s radix (radix parses: %s, radix-less: %s)' % (radix_parses, plain_parses))
    return res


def check_euclidean_arms(mir):
    """ops::int_div and ops::rem: the integer arm decides with checked_div_euclid / checked_rem_euclid and the float
    arm with f64::div_euclid / f64::rem_euclid on EVERY path that returns Ok (so that // and % agree with each other)"""
    out = []
    for name, int_rx, flt_rx in (('int_div', r'core::num::<impl i128>::checked_div_euclid\(', r'std::f64::<impl f64>::div_euclid\('),
                                 ('rem', r'core::num::<impl i128>::checked_rem_euclid\(', r'std::f64::<impl f64>::rem_euclid\(')):
        text = function_text(mir, r'^fn (?:value::)?(?:ops::)?%s\(_1: &value::Value, _2: &value::Value\)' % name)
        if text is None:
            out.append(dict(function='ops::' + name, verdict='unknown', conflict='not found in the MIR'))
            continue
        fn = parse_function(text)
        adj, preds = cfg(fn)
        s_ = z3.Solver()
        s_.set('timeout', 30000)
        D = {b: z3.Int('E_%s_%s' % (name, b)) for b in fn['blocks'] if not fn['blocks'][b]['cleanup']}
        s_.add(D['bb0'] == 0)
        hits = {'int': 0, 'float': 0}
        other_arith = []
        for bid in D:
            blk = fn['blocks'][bid]
            _, callee = call_of(blk['term'])
            hit = 0
            if callee and re.match(int_rx, callee):
                hit = 1
                hits['int'] += 1
            elif callee and re.match(flt_rx, callee):
                hit = 1
                hits['float'] += 1
            elif callee and re.search(r'<impl (?:f64|i128)>::(?:floor|trunc|round|div_floor|checked_div|checked_rem|wrapping_\w+)\(', callee):
                other_arith.append(callee[:60])
            for st in blk['stmts']:
                if re.match(r'_\d+ = (?:Div|Rem)\(', st):
                    other_arith.append(st[:60])
            # a successful result is built in this block
            if any(re.match(r'_0 = Result::<value::Value, error::Error>::Ok\(', st) for st in blk['stmts']):
                s_.add(D[bid] == 1)
            for label, tgt in adj[bid]:
                if tgt in D and fn['blocks'][tgt]['term'] != 'return;':
                    s_.add(D[tgt] == (1 if (hit and label == 'ok') else D[bid]))
        t0 = time.time()
        r = s_.check()
        res = dict(function='ops::' + name, euclid_calls=hits, other_division=other_arith, z3_s=round(time.time() - t0, 3))
        if r == z3.sat and hits['int'] and hits['float'] and not other_arith:
            res.update(verdict='sat')
        elif r in (z3.sat, z3.unsat):
            res.update(verdict='unsat', conflict='ops::%s returns Ok on a path that does not decide with the Euclidean primitive of its arm (integer calls %d, float calls %d, other division %s)' % (
                name, hits['int'], hits['float'], other_arith[:2]))
        else:
            res.update(verdict=str(r))
        out.append(res)
    return out


def run_euclid(prop, tier, seed):
    t0 = time.time()
    ev = dict(engine='M', violations=[], known_hits=[], problems=[], coverage={})
    try:
        mir = dump_mir(REPO, os.path.join(BUILD, 'mir'))
    except MirError as e:
        ev['problems'].append('engine M: %s' % e)
        return ev
    results = check_euclidean_arms(mir)
    err = build_tool('render')
    if err:
        ev['problems'].append('engine M: render tool did not build')
        return ev
    import math
    avals = [7.5, -7.5, 7.0, -7.0, 0.5, -0.5, 0.0, 9, -9]
    bvals = [2.0, -2.0, 0.5, -0.5, 3, -3, 2.5]
    reqs, keys = [], []
    for a in avals:
        for b in bvals:
            if isinstance(a, int) and isinstance(b, int):
                continue
            reqs.append(dict(src='{{ a // b }}|{{ a % b }}', ctx=dict(a=a, b=b)))
            keys.append((a, b))
    inp = '\n'.join(json.dumps(q) for q in reqs) + '\n'
    p = subprocess.run([os.path.join(BUILD, 'native', 'debug', 'render')], input=inp, stdout=subprocess.PIPE, stderr=subprocess.PIPE, text=True, timeout=120)
    outs = [json.loads(l) for l in p.stdout.split('\n') if l.strip()]
    bad = {'int_div': [], 'rem': []}
    for (a, b), o in zip(keys, outs):
        t = o.get('ok')
        try:
            q, r_ = (float(x) for x in t.split('|'))
        except Exception:
            bad['rem'].append('%r, %r: %s' % (a, b, o))
            continue
        want_r = a - b * math.floor(a / b) if b > 0 else a - b * math.ceil(a / b)
        want_q = (a - want_r) / b
        if not (0 <= r_ < abs(b)) or abs(r_ - want_r) > 1e-9:
            bad['rem'].append('%r %% %r renders %r, the Euclidean remainder is %r' % (a, b, r_, want_r))
        if abs(q - want_q) > 1e-9 or abs(q * b + r_ - a) > 1e-9:
            bad['int_div'].append('%r // %r renders %r (and %% %r): (a // b) * b + a %% b = %r, a = %r; the Euclidean quotient is %r' % (a, b, q, r_, q * b + r_, a, want_q))
    for res in results:
        key = res['function'].split('::')[1]
        if res['verdict'] == 'unsat':
            if bad.get(key):
                rp = os.path.join(nativelib.replay_dir(), '%s-M-euclid-%s.json' % (prop, key))
                json.dump(dict(engine='M', kind='euclid', property=prop, mir_finding=res, requests=reqs, how='bin/check %s --replay %s' % (prop, rp)), open(rp, 'w'), indent=1)
                ev['violations'].append(dict(replay=rp, failed=[dict(desc='%s; natively: %s' % (res['conflict'], bad[key][0][:220]), loc='minijinja/src/value/ops.rs %s (MIR)' % key)]))
            else:
                ev['problems'].append('engine M: %s, but the float grid satisfies the Euclidean law' % res['conflict'])
        elif res['verdict'] != 'sat':
            ev['problems'].append('engine M: %s: %s %s' % (res['function'], res['verdict'], res.get('conflict') or ''))
        elif bad.get(key):
            ev['problems'].append('engine M: %s although %s decides with the Euclidean primitives' % (bad[key][0][:200], res['function']))
    log('[%s] engine M (Euclidean // and %%): %s; native: %d float pairs, %d wrong' % (prop, ' '.join('%s=%s' % (r_['function'], r_['verdict']) for r_ in results), len(outs), sum(len(v) for v in bad.values())))
    ev['coverage'] = dict(queries=len(results), results=results, native_scenarios=len(outs), native_scenarios_failing=sum(len(v) for v in bad.values()), check='euclidean_arms')
    ev['wall_s'] = round(time.time() - t0, 1)
    return ev


def run_literal_radix(prop, tier, seed):
    t0 = time.time()
    ev = dict(engine='M', violations=[], known_hits=[], problems=[], coverage={})
    try:
        mir = dump_mir(REPO, os.path.join(BUILD, 'mir'))
    except MirError as e:
        ev['problems'].append('engine M: %s' % e)
        return ev
    res = check_integer_literal_radix(mir)
    err = build_tool('render')
    if err:
        ev['problems'].append('engine M: render tool did not build')
        return ev
    lits = []
    for val in (2 ** 64, 2 ** 64 + 255, 2 ** 100 + 7, 2 ** 63, 255):
        lits += [('0x%x' % val, val), ('0o%o' % val, val), ('0b%s' % bin(val)[2:], val), (str(val), val)]
    reqs = [dict(src='{{ %s }}' % l, ctx={}) for l, _ in lits]
    inp = '\n'.join(json.dumps(q) for q in reqs) + '\n'
    p = subprocess.run([os.path.join(BUILD, 'native', 'debug', 'render')], input=inp, stdout=subprocess.PIPE, stderr=subprocess.PIPE, text=True, timeout=120)
    outs = [json.loads(l) for l in p.stdout.split('\n') if l.strip()]
    bad = ['%s renders %r, expected %d' % (l, o.get('ok', o), v) for (l, v), o in zip(lits, outs) if o.get('ok') != str(v)]
    if res['verdict'] == 'unsat':
        if bad:
            rp = os.path.join(nativelib.replay_dir(), '%s-M-literal-radix.json' % prop)
            json.dump(dict(engine='M', kind='safesrc', property=prop, mir_finding=res, requests=[[q, str(v)] for q, (l, v) in zip(reqs, lits)],
                           how='bin/check %s --replay %s' % (prop, rp)), open(rp, 'w'), indent=1)
            ev['violations'].append(dict(replay=rp, failed=[dict(desc='%s; natively: %s' % (res['conflict'], bad[0][:200]), loc='minijinja/src/compiler/lexer.rs eat_number (MIR)')]))
        else:
            ev['problems'].append('engine M: %s, but every literal of the native grid has its value' % res['conflict'])
    elif res['verdict'] != 'sat':
        ev['problems'].append('engine M: integer literals: %s %s' % (res['verdict'], res.get('conflict') or ''))
    elif bad:
        ev['problems'].append('engine M: integer literal %s although every parse uses the radix' % bad[0][:200])
    log('[%s] engine M (integer literal radix): %s; native: %d literals, %d wrong' % (prop, res['verdict'], len(outs), len(bad)))
    ev['coverage'] = dict(queries=1, results=[res], native_scenarios=len(outs), native_scenarios_failing=len(bad), check='integer_literal_radix')
    ev['wall_s'] = round(time.time() - t0, 1)
    return ev


# ---------------------------------------------------------------------------------------------
# end delimiters (C10): where the tokenizer advances by the length of a delimiter, that delimiter is the one it has
# just matched at the cursor (a must-fact M_D "starts_with(D()) was true and nothing was consumed since")
# ---------------------------------------------------------------------------------------------
DELIMS = ('block_start', 'block_end', 'variable_start', 'variable_end', 'comment_start', 'comment_end')


def check_advance_matches_delimiter(mir, fname='tokenize_block_or_var'):
    text = function_text(mir, r'^fn lexer::<impl [^>]*>::%s\(' % fname)
    if text is None:
        return dict(function='Tokenizer::' + fname, verdict='unknown', conflict='%s not found in the MIR' % fname)
    fn = parse_function(text)
    blocks = {b: blk for b, blk in fn['blocks'].items() if not blk['cleanup']}
    adj, preds = cfg(fn)
    defs = {}
    for blk in blocks.values():
        for st in blk['stmts']:
            m = re.match(r'(_\d+) = (.*);$', st)
            if m:
                defs.setdefault(m.group(1), []).append(m.group(2))
    delim_of = {}          # local holding the &str of a delimiter -> its name
    len_of = {}            # local holding len(delimiter) (+ const) -> name
    matched = {}           # bool local: result of starts_with(.., D) -> name
    for blk in blocks.values():
        dst, callee = call_of(blk['term'])
        if not callee or not dst:
            continue
        m = re.match(r'lexer::Tokenizer::<[^>]*>::(\w+)\(', callee)
        if m and m.group(1) in DELIMS:
            delim_of[dst] = m.group(1)
    for blk in blocks.values():
        dst, callee = call_of(blk['term'])
        if not callee or not dst:
            continue
        args = re.findall(r'(?:move|copy) (_\d+)', callee[callee.find('('):])
        if re.match(r'core::str::<impl str>::len\(', callee) and args and args[0] in delim_of:
            len_of[dst] = delim_of[args[0]]
        if re.match(r'core::str::<impl str>::starts_with::<', callee) and len(args) == 2 and args[1] in delim_of:
            matched[dst] = delim_of[args[1]]
    changed = True
    while changed:
        changed = False
        for loc, ds in defs.items():
            if len(ds) != 1 or loc in len_of:
                continue
            m = re.match(r'Add\((?:move|copy) (_\d+), const \d+_usize\)$', ds[0]) or re.match(r'(?:move|copy) (_\d+)$', ds[0])
            if m and m.group(1) in len_of:
                len_of[loc] = len_of[m.group(1)]
                changed = True
    names = sorted(set(matched.values()) | set(len_of.values()))
    s_ = z3.Solver()
    s_.set('timeout', 30000)
    Mv = {(d, b): z3.Bool('M_%s_%s' % (d, b)) for d in names for b in blocks}
    for d in names:
        s_.add(z3.Not(Mv[(d, 'bb0')]))
    sites = []
    for b, blk in blocks.items():
        dst, callee = call_of(blk['term'])
        is_adv = bool(callee and re.match(r'lexer::Tokenizer::<[^>]*>::advance\(', callee))
        sw = re.match(r'switchInt\((?:move|copy) (_\d+)\) -> \[(.*)\];', blk['term'])
        if is_adv:
            args = re.findall(r'(?:move|copy) (_\d+)', callee[callee.find('('):])
            if len(args) == 2 and args[1] in len_of:
                d = len_of[args[1]]
                s_.add(Mv[(d, b)])
                sites.append(dict(block=b, advances_by='len(%s)' % d))
        for label, tgt in adj[b]:
            if tgt not in blocks:
                continue
            for d in names:
                sets = False
                if sw and sw.group(1) in matched and matched[sw.group(1)] == d:
                    tg = dict(x.split(': ') for x in sw.group(2).split(', '))
                    true_t = tg.get('1', tg.get('otherwise'))
                    sets = tgt == true_t and tg.get('0') != tgt
                if sets:
                    continue
                if is_adv:
                    s_.add(z3.Not(Mv[(d, tgt)]))       # the cursor moved: an earlier match says nothing any more
                else:
                    s_.add(z3.Implies(Mv[(d, tgt)], Mv[(d, b)]))
    t0 = time.time()
    r = s_.check()
    res = dict(function='Tokenizer::' + fname, delimiter_advances=sites, matches=len(matched), z3_s=round(time.time() - t0, 3))
    if not sites:
        res.update(verdict='unknown', conflict='no advance by a delimiter length found in %s' % fname)
    elif r == z3.sat:
        res.update(verdict='sat')
    elif r == z3.unsat:
        res.update(verdict='unsat', conflict='%s advances by the length of a delimiter other than the one it has just matched at the cursor' % fname)
    else:
        res.update(verdict=str(r))
    return res


def check_raw_block_trimming(mir):
    """handle_raw_tag: what is removed from the front of a raw block's content, with the whitespace marker of
    `{% raw %}` and trim_blocks SYMBOLIC: marker `-` -> all leading whitespace (trim_start); no marker and trim_blocks
    -> at most one CR and then at most one LF, each removed only behind its own starts_with test; otherwise nothing"""
    text = function_text(mir, r'^fn lexer::<impl [^>]*>::handle_raw_tag\(')
    if text is None:
        return dict(function='Tokenizer::handle_raw_tag', verdict='unknown', conflict='handle_raw_tag not found in the MIR')
    fn = parse_function(text)
    src = open(os.path.join(REPO, 'minijinja', 'src', 'compiler', 'lexer.rs'), encoding='utf-8').read()
    m = re.search(r'enum Whitespace \{(.*?)\n\}', src, re.S)
    modes = re.findall(r'^\s{4}([A-Z]\w*)', re.sub(r'\s*///[^\n]*', '', m.group(1)), re.M) if m else []
    if sorted(modes) != ['Default', 'Preserve', 'Remove']:
        return dict(function='Tokenizer::handle_raw_tag', verdict='unknown', conflict='enum Whitespace not as expected: %s' % modes)
    start = None
    for bid, blk in fn['blocks'].items():
        if not blk['cleanup'] and any(re.match(r'_\d+ = discriminant\(_2\);', st) for st in blk['stmts']) and blk['term'].startswith('switchInt'):
            start = bid
            break
    if start is None:
        return dict(function='Tokenizer::handle_raw_tag', verdict='unknown', conflict='the dispatch on the start marker was not found')
    sw_results = {}
    for blk in fn['blocks'].values():
        dst, callee = call_of(blk['term'])
        mm = callee and re.match(r"core::str::<impl str>::starts_with::<char>\((?:move|copy) _\d+, const '(\\?.)'\)", callee)
        if mm and dst:
            sw_results[dst] = mm.group(1)
    paths = []            # (mode value or None, trim value or None, tuple of ops)

    def walk(bid, mode, trim, ops, pending, depth):
        if depth > 40:
            paths.append((mode, trim, ops + ('?too-long',)))
            return
        blk = fn['blocks'][bid]
        trim_local = None
        for st in blk['stmts']:
            mm = re.match(r'(_\d+) = copy \(\(\(\*_1\)\.\d+: [\w:]*WhitespaceConfig\)\.\d+: bool\);', st)
            if mm:
                trim_local = mm.group(1)
        term = blk['term']
        dst, callee = call_of(term)
        if callee:
            if re.match(r'core::str::<impl str>::trim_start\(', callee):
                ops = ops + ('trim_start',)
            elif re.match(r'core::str::<impl str>::(trim\w*)', callee):
                ops = ops + (re.match(r'core::str::<impl str>::(trim\w*)', callee).group(1),)
            elif re.match(r'<str as Index<std::ops::RangeFrom<usize>>>::index\(', callee):
                ops = ops + (('strip_after', pending),)
                pending = None
            nxt = [t_ for lab, t_ in successors(term) if lab == 'ok' and not fn['blocks'][t_]['cleanup']]
            for t_ in nxt[:1]:
                walk(t_, mode, trim, ops, pending, depth + 1)
            return
        mm = re.match(r'switchInt\((?:move|copy) (_\d+)\) -> \[(.*)\];', term)
        if mm:
            tg = [x.split(': ') for x in mm.group(2).split(', ')]
            loc = mm.group(1)
            is_mode = any(re.match(re.escape(loc) + r' = discriminant\(_2\);', st) for st in blk['stmts'])
            if is_mode and bid == start:
                for k, t_ in tg:
                    if k != 'otherwise' and fn['blocks'][t_]['term'] != 'unreachable;':
                        walk(t_, int(k), trim, ops, None, depth + 1)
                return
            if trim_local == loc or (trim is None and loc not in sw_results and bid != start and any('WhitespaceConfig' in st for st in blk['stmts'])):
                for k, t_ in tg:
                    walk(t_, mode, (k != '0'), ops, None, depth + 1)
                return
            if loc in sw_results:
                for k, t_ in tg:
                    walk(t_, mode, trim, ops, (sw_results[loc] if k != '0' else None), depth + 1)
                return
            # the dispatch on the END marker of `{% raw %}` (or anything else): the front of the content is done
            paths.append((mode, trim, ops))
            return
        nxt = [t_ for lab, t_ in successors(term) if not fn['blocks'][t_]['cleanup']]
        if not nxt:
            paths.append((mode, trim, ops))
        for t_ in nxt[:1]:
            walk(t_, mode, trim, ops, pending, depth + 1)
    walk(start, None, None, (), None, 0)
    cr, lf = '\\r', '\\n'
    spec = {}
    for mi, mname in enumerate(modes):
        for tb in (False, True):
            if mname == 'Remove':
                want = {('trim_start',)}
            elif mname == 'Default' and tb:
                want = {(), (('strip_after', cr),), (('strip_after', lf),), (('strip_after', cr), ('strip_after', lf))}
            else:
                want = {()}
            spec[(mi, tb)] = frozenset(want)
    impl = {}
    for mi in range(len(modes)):
        for tb in (False, True):
            impl[(mi, tb)] = frozenset(ops for (m_, t_, ops) in paths if m_ == mi and (t_ is None or t_ == tb))
    ids = {}

    def sid(x):
        return ids.setdefault(x, len(ids))
    mz, tz = z3.Int('raw_start_marker'), z3.Bool('trim_blocks')
    iexpr, sexpr = z3.IntVal(-1), z3.IntVal(-2)
    for (mi, tb), v in impl.items():
        iexpr = z3.If(z3.And(mz == mi, tz == tb), z3.IntVal(sid(v)), iexpr)
    for (mi, tb), v in spec.items():
        sexpr = z3.If(z3.And(mz == mi, tz == tb), z3.IntVal(sid(v)), sexpr)
    s_ = z3.Solver()
    s_.add(mz >= 0, mz < len(modes), iexpr != sexpr)
    t0 = time.time()
    r = s_.check()
    res = dict(function='Tokenizer::handle_raw_tag', paths=len(paths), modes=modes, z3_s=round(time.time() - t0, 3))
    if r == z3.unsat:
        res.update(verdict='sat')
    elif r == z3.sat:
        md = s_.model()
        mv = md.eval(mz, model_completion=True).as_long()
        tv = z3.is_true(md.eval(tz, model_completion=True))
        res.update(verdict='unsat', marker=modes[mv], trim_blocks=tv,
                   conflict='with the raw tag\'s start marker %s and trim_blocks=%s the front of the raw content is treated as %s, the rule says %s' % (
                       modes[mv], tv, sorted(map(str, impl[(mv, tv)])), sorted(map(str, spec[(mv, tv)]))))
    else:
        res.update(verdict=str(r))
    return res


def run_delimiters(prop, tier, seed):
    t0 = time.time()
    ev = dict(engine='M', violations=[], known_hits=[], problems=[], coverage={})
    try:
        mir = dump_mir(REPO, os.path.join(BUILD, 'mir'))
    except MirError as e:
        ev['problems'].append('engine M: %s' % e)
        return ev
    results = [dict(check_advance_matches_delimiter(mir), part='delimiters'), dict(check_raw_block_trimming(mir), part='raw')]
    err = build_tool('render')
    if err:
        ev['problems'].append('engine M: render tool did not build')
        return ev
    # delimiters of pairwise different lengths; every end delimiter with and without a whitespace-control sign
    syn = dict(block=['<%%', '%%>'], variable=['${', '}'], comment=['<#--', '#>'])
    cases = [('delimiters', dict(src=s_, ctx=dict(x=1), syntax=syn), w) for s_, w in [
        ('A${ x }B', 'A1B'), ('A${ x -}  B', 'A1B'), ('A${ x +}  B', 'A1  B'), ('A<%% if x %%>T<%% endif %%>B', 'ATB'),
        ('A<%% if x -%%>  T<%% endif +%%>  B', 'AT  B'), ('A  <%%- if x %%>T<%%- endif %%>B', 'ATB'), ('A<#-- c #>B${ x }', 'AB1'),
        ('${ x -}<%% if x -%%> ${ x }<%% endif %%>', '11')]]
    # raw blocks: with trim_blocks exactly one line ending goes, with `-` all leading whitespace, otherwise nothing
    for content in ('\n\nA', '\r\n\r\nA', '\r\rA', '\n A', ' \nA', 'A'):
        one = content[2:] if content.startswith('\r\n') else (content[1:] if content[:1] in '\r\n' else content)
        cases.append(('raw', dict(src='[{% raw %}' + content + '{% endraw %}]', ctx={}, trim_blocks=True), '[' + one + ']'))
        cases.append(('raw', dict(src='[{% raw %}' + content + '{% endraw %}]', ctx={}, trim_blocks=False), '[' + content + ']'))
        cases.append(('raw', dict(src='[{% raw -%}' + content + '{% endraw %}]', ctx={}, trim_blocks=True), '[' + content.lstrip() + ']'))
        cases.append(('raw', dict(src='[{% raw +%}' + content + '{% endraw %}]', ctx={}, trim_blocks=True), '[' + content + ']'))
    inp = '\n'.join(json.dumps(q) for _, q, _ in cases) + '\n'
    p = subprocess.run([os.path.join(BUILD, 'native', 'debug', 'render')], input=inp, stdout=subprocess.PIPE, stderr=subprocess.PIPE, text=True, timeout=120)
    outs = [json.loads(l) for l in p.stdout.split('\n') if l.strip()]
    bad = {}
    for (part, q, want), o in zip(cases, outs):
        if o.get('ok') != want:
            bad.setdefault(part, []).append('%r (trim_blocks=%s) renders %r, expected %r' % (q['src'], q.get('trim_blocks'), o.get('ok', o), want))
    for res in results:
        part = res['part']
        if res['verdict'] == 'unsat':
            if part in bad:
                rp = os.path.join(nativelib.replay_dir(), '%s-M-lexer-%s.json' % (prop, part))
                json.dump(dict(engine='M', kind='safesrc', property=prop, mir_finding=res, requests=[[q, w] for pt, q, w in cases if pt == part],
                               how='bin/check %s --replay %s' % (prop, rp)), open(rp, 'w'), indent=1)
                ev['violations'].append(dict(replay=rp, failed=[dict(desc='%s; natively: %s' % (res['conflict'], bad[part][0][:220]), loc='minijinja/src/compiler/lexer.rs %s (MIR)' % res['function'])]))
            else:
                ev['problems'].append('engine M: %s, but every template of the native grid renders as specified' % res['conflict'])
        elif res['verdict'] != 'sat':
            ev['problems'].append('engine M: lexer (%s): %s %s' % (part, res['verdict'], res.get('conflict') or ''))
        elif part in bad:
            ev['problems'].append('engine M: lexer (%s): %s although the MIR check holds' % (part, bad[part][0][:200]))
    log('[%s] engine M (lexer: end delimiters, raw blocks): %s; native: %d templates, %d wrong' % (
        prop, ' '.join('%s=%s' % (r_['part'], r_['verdict']) for r_ in results), len(outs), sum(len(v) for v in bad.values())))
    ev['coverage'] = dict(queries=len(results), results=results, native_scenarios=len(outs), native_scenarios_failing=sum(len(v) for v in bad.values()), check='lexer_delimiters_and_raw_blocks')
    ev['wall_s'] = round(time.time() - t0, 1)
    return ev


# ---------------------------------------------------------------------------------------------
# forward slices (C09): in every arm of ops::slice (string, bytes, tuple, list / lazy iterable) the window
# [start, start + len) - computed by get_offset_and_len, which Kani checks against CPython - is cut FIRST and the
# stride applied to it: each step_by is applied to Take<Skip<..>>, never the other way round
# ---------------------------------------------------------------------------------------------
def check_slice_window_then_stride(mir):
    sites = []
    for m in re.finditer(r'^fn ((?:value::)?ops::slice(?:::\{closure#\d+\})?)\(', mir, re.M):
        text = mir[m.start():mir.index('\n}\n', m.start()) + 2]
        fn = parse_function(text)
        for bid, blk in fn['blocks'].items():
            if blk['cleanup']:
                continue
            _, callee = call_of(blk['term'])
            x = callee and re.match(r'<(.*)> as Iterator>::(step_by|take|skip)\(', callee.replace('<', '<', 1)[0:0] + callee) if callee else None
            x = callee and re.match(r'<(.+) as Iterator>::(step_by|take|skip)\(', callee)
            if x:
                sites.append(dict(function=m.group(1), block=bid, adaptor=x.group(2), receiver=x.group(1)[:90]))
    s_ = z3.Solver()
    bad = []
    n_step = 0
    for st in sites:
        rcv = st['receiver']
        if st['adaptor'] == 'step_by':
            n_step += 1
            if not re.match(r'(?:std::iter::)?Take<(?:std::iter::)?Skip<', rcv):
                bad.append(st)
        if st['adaptor'] in ('take', 'skip') and re.match(r'(?:std::iter::)?StepBy<', rcv):
            bad.append(st)
    nb, ns = z3.Ints('misordered_adaptors stride_sites')
    s_.add(nb == len(bad), ns == n_step, z3.Or(nb != 0, ns < 4))
    t0 = time.time()
    r = s_.check()
    res = dict(function='ops::slice (all arms)', stride_sites=n_step, adaptor_calls=len(sites), z3_s=round(time.time() - t0, 3))
    if r == z3.unsat:
        res.update(verdict='sat')
    else:
        res.update(verdict='unsat', conflict=('an arm of ops::slice applies the stride before the window is cut: %s on %s in %s' % (bad[0]['adaptor'], bad[0]['receiver'], bad[0]['function'])) if bad
                   else 'fewer than four arms of ops::slice slice with skip/take/step_by (%d found)' % n_step)
    return res


def run_slice_arms(prop, tier, seed):
    t0 = time.time()
    ev = dict(engine='M', violations=[], known_hits=[], problems=[], coverage={})
    try:
        mir = dump_mir(REPO, os.path.join(BUILD, 'mir'))
    except MirError as e:
        ev['problems'].append('engine M: %s' % e)
        return ev
    res = check_slice_window_then_stride(mir)
    err = build_tool('render')
    if err:
        ev['problems'].append('engine M: render tool did not build')
        return ev
    items = list(range(6))
    bounds = [None, -7, -6, -2, -1, 0, 1, 3, 5, 6, 7]
    reqs, wants = [], []
    for kind, expr, conv in (('list', 'l', lambda x: x), ('lazy iterable', '(l|reverse|reverse)', lambda x: x), ('tuple', 't', lambda x: x), ('string', 's', None)):
        for step in (1, 2, 3):
            parts, want = [], []
            for a in bounds:
                for b in bounds:
                    sl = '%s:%s:%d' % ('' if a is None else a, '' if b is None else b, step)
                    parts.append('{{ %s[%s]|%s }}' % (expr, sl, 'join(",")' if conv else 'string'))
                    py = items[slice(a, b, step)]
                    want.append(','.join(map(str, py)) if conv else ''.join(map(str, py)))
            reqs.append(dict(src='|'.join(parts), ctx=dict(l=items, t=items, s='012345')))
            wants.append((kind, step, '|'.join(want)))
    # every spelling of an omitted bound or step (a trailing colon with nothing behind it included)
    reqs.append(dict(src='{{ l[::]|join }}|{{ l[1::]|join }}|{{ l[:2:]|join }}|{{ l[1:2:]|join }}|{{ l[:]|join }}|{{ l[1:]|join }}|{{ l[:2]|join }}|{{ s[::] }}|{{ s[::2] }}', ctx=dict(l=items, s='012345')))
    wants.append(('omitted-step spellings', 1, '012345|12345|01|1|012345|12345|01|012345|024'))
    # tuples: a context list is a list; build a real tuple in the template instead
    for q in reqs:
        q['src'] = q['src'].replace('{{ t[', '{{ (0, 1, 2, 3, 4, 5)[')
    inp = '\n'.join(json.dumps(q) for q in reqs) + '\n'
    p = subprocess.run([os.path.join(BUILD, 'native', 'debug', 'render')], input=inp, stdout=subprocess.PIPE, stderr=subprocess.PIPE, text=True, timeout=120)
    outs = [json.loads(l) for l in p.stdout.split('\n') if l.strip()]
    bad = []
    for (kind, step, want), o, q in zip(wants, outs, reqs):
        got = o.get('ok')
        if got != want:
            first = next((i for i, (g, w) in enumerate(zip((got or '').split('|'), want.split('|'))) if g != w), None)
            part = q['src'].split('|{{')[first] if first is not None else q['src'][:60]
            bad.append('%s, step %d: %s renders %r, CPython gives %r' % (kind, step, ('{{' + part) if first else part,
                                                                           (got or str(o)).split('|')[first] if first is not None and got else str(o)[:80], want.split('|')[first] if first is not None else ''))
    if res['verdict'] == 'unsat':
        if bad:
            rp = os.path.join(nativelib.replay_dir(), '%s-M-slice-arms.json' % prop)
            json.dump(dict(engine='M', kind='safesrc', property=prop, mir_finding=res, requests=[[q, w[2]] for q, w in zip(reqs, wants)],
                           how='bin/check %s --replay %s' % (prop, rp)), open(rp, 'w'), indent=1)
            ev['violations'].append(dict(replay=rp, failed=[dict(desc='%s; natively: %s' % (res['conflict'], bad[0][:220]), loc='minijinja/src/value/ops.rs slice (MIR)')]))
        else:
            ev['problems'].append('engine M: %s, but every slice of the native grid equals CPython\'s' % res['conflict'])
    elif res['verdict'] != 'sat':
        ev['problems'].append('engine M: slice arms: %s %s' % (res['verdict'], res.get('conflict') or ''))
    elif bad:
        ev['problems'].append('engine M: slices differ from CPython natively (%s) although every arm cuts the window before it strides' % bad[0][:220])
    log('[%s] engine M (slice arms: window, then stride): %s (%d stride sites); native: %d x %d slices, %d groups wrong' % (prop, res['verdict'], res.get('stride_sites', 0), len(outs), len(bounds) ** 2, len(bad)))
    ev['coverage'] = dict(queries=1, results=[res], native_scenarios=len(outs) * len(bounds) ** 2, native_scenarios_failing=len(bad), check='slice_window_then_stride')
    ev['wall_s'] = round(time.time() - t0, 1)
    return ev


# ---------------------------------------------------------------------------------------------
# template-chosen capacities (C01): no Vec / String ::with_capacity in the filters, functions and operators takes a
# number that a template can choose (an integer parameter of the function) unless it went through
# utils::untrusted_size_hint or is bounded by something the template did not choose
# ---------------------------------------------------------------------------------------------
def check_capacity_arguments(mir):
    results = []
    for m in re.finditer(r'^fn ((?:filters|functions)::builtins::\w+|(?:value::)?ops::\w+)\(([^\n]*)\) -> ', mir, re.M):
        name, sig = m.group(1), m.group(2)
        text = mir[m.start():mir.index('\n}\n', m.start()) + 2]
        if 'with_capacity(' not in text:
            continue
        params = [x.group(1) for x in re.finditer(r'(_\d+): (?:usize|isize|u64|i64|u32|i32|Option<usize>|std::option::Option<usize>)(?:,|$)', sig)]
        fn = parse_function(text)
        s_ = z3.Solver()
        s_.set('timeout', 30000)
        T = {}

        def t(l):
            if l not in T:
                T[l] = z3.Bool('cap_%s_%s' % (name.replace(':', '_'), l))
            return T[l]
        for p_ in params:
            s_.add(t(p_))
        sinks = []
        for bid, blk in fn['blocks'].items():
            if blk['cleanup']:
                continue
            for st in blk['stmts']:
                mm = re.match(r'(.+?) = (.*);$', st)
                if not mm or st.startswith('Storage'):
                    continue
                lhs = re.search(r'_\d+', mm.group(1))
                if not lhs:
                    continue
                rhs = mm.group(2)
                dv = re.match(r'(?:Div|Rem)\((?:move|copy) (_\d+), ', rhs)
                srcs = [dv.group(1)] if dv else set(re.findall(r'_\d+', rhs))
                for l in srcs:
                    s_.add(z3.Implies(t(l), t(lhs.group(0))))
            dst, callee = call_of(blk['term'])
            if not callee or not dst:
                continue
            args = re.findall(r'(?:move|copy) (_\d+)', callee[callee.find('('):])
            dl = re.search(r'_\d+', dst).group(0)
            if re.search(r'(?:Vec::<[^>]*>|String)::with_capacity\(', callee) and args:
                sinks.append((bid, args[0]))
                continue
            if re.match(r'(?:utils::)?untrusted_size_hint\(', callee):
                continue
            if re.search(r'(?:Ord>::min|cmp::min::<)', callee) and len(args) == 2:
                s_.add(z3.Implies(z3.And(t(args[0]), t(args[1])), t(dl)))
                continue
            for a in args:
                s_.add(z3.Implies(t(a), t(dl)))
        if not sinks:
            continue
        for _, a in sinks:
            s_.add(z3.Not(t(a)))
        t0 = time.time()
        r = s_.check()
        res = dict(function=name, integer_parameters=params, capacity_sites=len(sinks), z3_s=round(time.time() - t0, 3))
        if r == z3.sat:
            res.update(verdict='sat')
        elif r == z3.unsat:
            res.update(verdict='unsat', conflict='%s reserves a capacity that derives from an integer parameter (%s) without utils::untrusted_size_hint' % (name, ', '.join(params)))
        else:
            res.update(verdict=str(r))
        results.append(res)
    return results


def run_capacities(prop, tier, seed):
    t0 = time.time()
    ev = dict(engine='M', violations=[], known_hits=[], problems=[], coverage={})
    try:
        mir = dump_mir(REPO, os.path.join(BUILD, 'mir'))
    except MirError as e:
        ev['problems'].append('engine M: %s' % e)
        return ev
    results = check_capacity_arguments(mir)
    if not results:
        ev['problems'].append('engine M: no with_capacity call found in filters / functions / operators')
        return ev
    err = build_tool('render')
    if err:
        ev['problems'].append('engine M: render tool did not build')
        return ev
    big = 9223372036854775807
    probes = {
        'batch': ['{{ l|batch(%d)|list|length }}' % big, "{{ (l|chain('ab'))|batch(%d)|list|length }}" % big, '{{ []|batch(%d)|list|length }}' % big],
        # (the slice filter builds `count` lists in a loop: a huge count cannot be probed natively)
    }
    reqs, keys = [], []
    for f, srcs in probes.items():
        for src in srcs:
            reqs.append(dict(src=src, ctx=dict(l=[1, 2, 3]), fuel=200000))
            keys.append(f)
    inp = '\n'.join(json.dumps(q) for q in reqs) + '\n'
    p = subprocess.run([os.path.join(BUILD, 'native', 'debug', 'render')], input=inp, stdout=subprocess.PIPE, stderr=subprocess.PIPE, text=True, timeout=300)
    outs = [json.loads(l) for l in p.stdout.split('\n') if l.strip()]
    bad = {}
    for f, q, o in zip(keys, reqs, outs):
        if 'panic' in o:
            bad.setdefault(f, []).append('%s panics: %s' % (q['src'], o['panic'][:80]))
    if len(outs) < len(reqs):
        bad.setdefault(keys[len(outs)], []).append('%s aborts the process' % reqs[len(outs)]['src'])
    for r in results:
        f = r['function'].split('::')[-1]
        if r['verdict'] == 'sat':
            continue
        if r['verdict'] != 'unsat':
            ev['problems'].append('engine M: %s: %s' % (r['function'], r['verdict']))
            continue
        if f in bad:
            rp = os.path.join(nativelib.replay_dir(), '%s-M-capacity-%s.json' % (prop, f))
            json.dump(dict(engine='M', kind='panics', property=prop, mir_finding=r, requests=[q for k, q in zip(keys, reqs) if k == f], how='bin/check %s --replay %s' % (prop, rp)), open(rp, 'w'), indent=1)
            ev['violations'].append(dict(replay=rp, failed=[dict(desc='%s; natively: %s' % (r['conflict'], bad[f][0][:200]), loc='minijinja/src/filters.rs %s (MIR)' % f)]))
        else:
            ev['problems'].append('engine M: %s, but no native probe of that function panics' % r['conflict'])
    for f, msgs in bad.items():
        if all(r['verdict'] == 'sat' for r in results if r['function'].split('::')[-1] == f):
            ev['problems'].append('engine M: %s although no template-chosen number reaches a with_capacity call of %s' % (msgs[0][:200], f))
    log('[%s] engine M (template-chosen capacities): %s; native: %d probes, %d panicking' % (prop, ' '.join('%s=%s' % (r['function'].split('::')[-1], r['verdict']) for r in results), len(outs), sum(len(v) for v in bad.values())))
    ev['coverage'] = dict(queries=len(results), results=results, native_scenarios=len(outs), native_scenarios_failing=sum(len(v) for v in bad.values()), check='capacity_arguments')
    ev['wall_s'] = round(time.time() - t0, 1)
    return ev


def run_pool_buffers(prop, tier, seed):
    t0 = time.time()
    ev = dict(engine='M', violations=[], known_hits=[], problems=[], coverage={})
    try:
        mir = dump_mir(REPO, os.path.join(BUILD, 'mir'))
    except MirError as e:
        ev['problems'].append('engine M: %s' % e)
        return ev
    results = check_pool_buffers_cleared(mir)
    results.append(check_state_id_source(mir))
    err = build_tool('vmexits')
    if err:
        ev['problems'].append('engine M: native scenario tool did not build: ' + err[-300:])
        return ev
    scen_all = [s for s in run_vmexits() if s['check'] in ('pool_buffers', 'state_ids')]
    scen = scen_all
    for r in results:
        failing = [s for s in scen_all if not s['ok'] and s['check'] == ('state_ids' if r['function'] == 'State::new' else 'pool_buffers')]
        if r['verdict'] == 'sat':
            continue
        if r['verdict'] != 'unsat':
            ev['problems'].append('engine M: %s: %s %s' % (r['function'], r['verdict'], r.get('conflict') or ''))
            continue
        if failing:
            rp = os.path.join(nativelib.replay_dir(), '%s-M-pool-%s.json' % (prop, r['function'].replace('::', '_')))
            json.dump(dict(engine='M', kind='eval_impl', check='pool_buffers', property=prop, mir_finding=r, scenarios=failing,
                           how='bin/check %s --replay %s' % (prop, rp)), open(rp, 'w'), indent=1)
            ev['violations'].append(dict(replay=rp, failed=[dict(desc='%s; native scenario %s: %s' % (r['conflict'], failing[0]['scenario'], failing[0]['detail'][:240]),
                                                                 loc='minijinja/src %s (MIR)' % r['function'])]))
        else:
            ev['problems'].append('engine M: %s, but the native scenario behaves' % r['conflict'])
    failing = [s for s in scen_all if not s['ok']]
    if failing and all(r['verdict'] == 'sat' for r in results):
        ev['problems'].append('engine M: native scenario %s misbehaves (%s) although pooled buffers are cleared and state ids come from one atomic counter' % (failing[0]['scenario'], failing[0]['detail'][:200]))
    log('[%s] engine M (codegen pools, state ids): %s; %d native scenarios, %d misbehaving' % (prop, ' '.join('%s=%s' % (r['function'], r['verdict']) for r in results), len(scen), len(failing)))
    ev['coverage'] = dict(queries=len(results), results=results, native_scenarios=len(scen), native_scenarios_failing=len(failing), check='pool_buffers')
    ev['wall_s'] = round(time.time() - t0, 1)
    return ev


def run_captures(prop, tier, seed):
    t0 = time.time()
    ev = dict(engine='M', violations=[], known_hits=[], problems=[], coverage={})
    try:
        mir = dump_mir(REPO, os.path.join(BUILD, 'mir'))
        v1, i1, d1, s1 = check_capture_marks(mir, auto_escape_variants(REPO))
        v2, i2, d2, s2 = check_capture_mode_argument(mir)
    except MirError as e:
        ev['problems'].append('engine M: %s' % e)
        return ev
    results = [dict(op='end_capture_marks', function='Output::end_capture', verdict=v1, conflict=(i1 or {}).get('kind'), z3_s=round(d1, 3), **s1),
               dict(op='end_capture_mode_argument', function='every caller of Output::end_capture', verdict=v2, conflict=(i2 or {}).get('kind'), z3_s=round(d2, 3), **s2)]
    err = build_tool('vmexits')
    if err:
        ev['problems'].append('engine M: native scenario tool did not build: ' + err[-300:])
        return ev
    scen = [s for s in run_vmexits() if s['check'] == 'capture_mode']
    failing = [s for s in scen if not s['ok']]
    for r in results:
        if r['verdict'] == 'sat':
            continue
        if r['verdict'] != 'unsat':
            ev['problems'].append('engine M: captures: %s %s' % (r['verdict'], r.get('conflict') or ''))
            continue
        if failing:
            rp = os.path.join(nativelib.replay_dir(), '%s-M-capture.json' % prop)
            json.dump(dict(engine='M', kind='eval_impl', check='capture_mode', property=prop, mir_finding=r, scenarios=failing,
                           how='bin/check %s --replay %s' % (prop, rp)), open(rp, 'w'), indent=1)
            ev['violations'].append(dict(replay=rp, failed=[dict(desc='captured output: %s; native scenario %s: %s' % (r['conflict'], failing[0]['scenario'], failing[0]['detail'][:220]),
                                                                 loc='minijinja/src/output.rs end_capture / vm/mod.rs (MIR)')]))
        else:
            ev['problems'].append('engine M: captures: %s, but no native capture scenario misbehaves' % r['conflict'])
    if failing and all(r['verdict'] == 'sat' for r in results):
        ev['problems'].append('engine M: native capture scenario %s misbehaves (%s) although end_capture marks its result by the state\'s mode' % (failing[0]['scenario'], failing[0]['detail'][:200]))
    log('[%s] engine M (captures): %s; %d native scenarios, %d misbehaving' % (prop, ' '.join('%s=%s' % (r['op'], r['verdict']) for r in results), len(scen), len(failing)))
    ev['coverage'] = dict(queries=len(results) + 1, results=results, native_scenarios=len(scen), native_scenarios_failing=len(failing), function='Output::end_capture and its callers', check='capture_mode')
    ev['wall_s'] = round(time.time() - t0, 1)
    return ev


# ---------------------------------------------------------------------------------------------
# string filters (C02): a filter that hands its result back through StringInput::preserve_safety does so on
# EVERY successful path (an early return must not lose the safe flag and cause a second escaping)
# ---------------------------------------------------------------------------------------------
def check_filter_preserves_safety(fn):
    adj, preds = cfg(fn)
    s_ = z3.Solver()
    s_.set('timeout', 30000)
    D = {b: z3.Int('Z_%s' % b) for b in fn['blocks'] if not fn['blocks'][b]['cleanup']}
    s_.add(D['bb0'] == 0)
    n = calls = exits = 0
    for bid, blk in fn['blocks'].items():
        if blk['cleanup']:
            continue
        dst, callee = call_of(blk['term'])
        is_ps = bool(callee and re.search(r'StringInput::<[^>]*>::preserve_safety\(', callee))
        calls += is_ps
        sets_ok = any(re.match(r'_0 = (Result::<value::Value, .*>::Ok\(|value::Value::|<value::Value as From)', st) for st in blk['stmts'])
        ret_call = bool(dst == '_0' and callee and not is_ps)
        if sets_ok or ret_call:
            # a successful result that is not the product of preserve_safety: only fine if the flag was carried before
            s_.add(D[bid] == 1)
            exits += 1
        if any(re.match(r'_0 = ', st) for st in blk['stmts']):
            continue
        for label, tgt in adj[bid]:
            if fn['blocks'][tgt]['term'] == 'return;':
                continue
            if label == 'ok' and is_ps:
                s_.add(D[tgt] == 1)
            else:
                s_.add(D[tgt] == D[bid])
            n += 1
    t0 = time.time()
    r = s_.check()
    dt = time.time() - t0
    stats = dict(blocks=len(D), edges=n, preserve_calls=calls, other_success_exits=exits)
    if r == z3.sat:
        return 'sat', None, dt, stats
    if r != z3.unsat:
        return str(r), None, dt, stats
    return 'unsat', dict(kind='a successful return is reachable on a path that did not go through preserve_safety'), dt, stats


FILTER_ARGS = {'upper': [''], 'lower': [''], 'capitalize': [''], 'trim': ['', '("x")'], 'indent': ['(0)', '(2)', '(0, true)', '(3, true, true)']}


def run_filters(prop, tier, seed):
    t0 = time.time()
    ev = dict(engine='M', violations=[], known_hits=[], problems=[], coverage={})
    try:
        mir = dump_mir(REPO, os.path.join(BUILD, 'mir'))
    except MirError as e:
        ev['problems'].append('engine M: %s' % e)
        return ev
    results = []
    for m in re.finditer(r'^fn filters::builtins::(\w+)\(', mir, re.M):
        text = function_text(mir, r'^fn filters::builtins::%s\(' % m.group(1))
        if text is None or 'preserve_safety(' not in text:
            continue
        verdict, info, dt, stats = check_filter_preserves_safety(parse_function(text))
        results.append(dict(function='filters::' + m.group(1), filter=m.group(1), verdict=verdict, z3_s=round(dt, 3), conflict=(info or {}).get('kind'), **stats))
    if not results:
        ev['problems'].append('engine M: no filter calling preserve_safety found in the MIR dump')
        return ev
    err = build_tool('render')
    if err:
        ev['problems'].append('engine M: render tool did not build')
        return ev
    # native: the filter applied to a SAFE string must give a safe string (and to an unsafe one an unsafe one)
    reqs, keys = [], []
    for r in results:
        for args in FILTER_ARGS.get(r['filter'], ['']):
            reqs.append(dict(src='{{ (s|safe|%s%s) is safe }}|{{ (s|%s%s) is safe }}' % (r['filter'], args, r['filter'], args), ctx={'s': ' a<b\n c '}))
            keys.append((r['filter'], args))
    inp = '\n'.join(json.dumps(q) for q in reqs) + '\n'
    p = subprocess.run([os.path.join(BUILD, 'native', 'debug', 'render')], input=inp, stdout=subprocess.PIPE, stderr=subprocess.PIPE, text=True, timeout=120)
    outs = [json.loads(l) for l in p.stdout.split('\n') if l.strip()]
    bad = {}
    for (f, args), o in zip(keys, outs):
        if o.get('ok') != 'True|False':
            bad.setdefault(f, []).append('s|%s%s: (safe input is safe)|(unsafe input is safe) = %s' % (f, args, o.get('ok', o)))
    for r in results:
        if r['verdict'] == 'sat':
            continue
        if r['verdict'] != 'unsat':
            ev['problems'].append('engine M: %s: %s' % (r['function'], r['verdict']))
            continue
        if r['filter'] in bad:
            rp = os.path.join(nativelib.replay_dir(), '%s-M-filter-%s.json' % (prop, r['filter']))
            json.dump(dict(engine='M', kind='filter', property=prop, mir_finding=r, requests=[q for q, k in zip(reqs, keys) if k[0] == r['filter']],
                           how='bin/check %s --replay %s' % (prop, rp)), open(rp, 'w'), indent=1)
            ev['violations'].append(dict(replay=rp, failed=[dict(desc='%s: %s; natively: %s' % (r['function'], r['conflict'], bad[r['filter']][0]),
                                                                 loc='minijinja/src/filters.rs %s (MIR)' % r['filter'])]))
        else:
            ev['problems'].append('engine M: %s: %s, but the filter keeps the safe flag for all tried arguments' % (r['function'], r['conflict']))
    for f, msgs in bad.items():
        if all(r['verdict'] == 'sat' for r in results if r['filter'] == f):
            ev['problems'].append('engine M: filter %s loses or invents the safe flag natively (%s) although every path goes through preserve_safety' % (f, msgs[0]))
    log('[%s] engine M (filters preserve safety): %s; native: %d renders, %d filters misbehaving' % (
        prop, ' '.join('%s=%s' % (r['filter'], r['verdict']) for r in results), len(outs), len(bad)))
    ev['coverage'] = dict(queries=len(results), results=results, native_scenarios=len(outs), native_scenarios_failing=len(bad), check='filters_preserve_safety')
    ev['wall_s'] = round(time.time() - t0, 1)
    return ev


# ---------------------------------------------------------------------------------------------
# tojson (C16, narrow): the HTML-safe post-processing of the serializer's text, decided with the character
# SYMBOLIC: for every char c the closure appends the \u00XX escape iff c is one of < > & ' and c itself otherwise
# ---------------------------------------------------------------------------------------------
def dump_mir_json(repo, out_dir):
    os.makedirs(out_dir, exist_ok=True)
    lib = os.path.join(repo, 'minijinja', 'src', 'lib.rs')
    os.utime(lib, None)
    env = dict(os.environ, CARGO_NET_OFFLINE='true', CARGO_TARGET_DIR=os.path.join(out_dir, 'target'))
    p = subprocess.run(['cargo', '+nightly', 'rustc', '--offline', '--lib', '--features', 'fuel,loop_controls,json', '--', '-Zunpretty=mir', '-C', 'debug-assertions=off'],
                       cwd=os.path.join(repo, 'minijinja'), env=env, stdout=subprocess.PIPE, stderr=subprocess.PIPE, text=True, timeout=900)
    if p.returncode != 0 or 'fn ' not in p.stdout:
        raise MirError('MIR dump (json feature) failed: ' + p.stderr[-600:])
    return p.stdout


SPEC_ESCAPES = {60: '\\u003c', 62: '\\u003e', 38: '\\u0026', 39: '\\u0027'}


def check_tojson_escape(mir):
    """-> (verdict, info, seconds, stats); info for sat: dict(char=int, impl=.., spec=..)"""
    cands = [m.group(0) for m in re.finditer(r'^fn filters::builtins::tojson::\{closure#\d+\}\(', mir, re.M)]
    fn = None
    for hdr in cands:
        text = function_text(mir, '^' + re.escape(hdr))
        if text and 'as Iterator>::next(' in text and ': char)' in text:
            fn = parse_function(text)
            break
    if fn is None:
        return 'unknown', dict(kind='the character loop of tojson was not found in the MIR'), 0.0, {}
    # the switch on the current character
    char_locals = set()
    for b in fn['blocks'].values():
        for st in b['stmts']:
            m = re.match(r'(_\d+) = copy \(\(_\d+ as Some\)\.0: char\);', st)
            if m:
                char_locals.add(m.group(1))
    consts = {}
    for b in fn['blocks'].values():
        for st in b['stmts']:
            m = re.match(r'(_\d+) = const "(.*)";$', st)
            if m:
                consts[m.group(1)] = m.group(2).encode().decode('unicode_escape')
    sw = [(bid, b) for bid, b in fn['blocks'].items() if re.match(r'switchInt\(copy (_\d+)\)', b['term']) and re.match(r'switchInt\(copy (_\d+)\)', b['term']).group(1) in char_locals]
    marks_safe = any(re.search(r'value::Value::from_safe_string\(', b['term']) for b in fn['blocks'].values())
    c = z3.Int('c')
    s_ = z3.Solver()
    s_.set('timeout', 30000)
    s_.add(c >= 0, c <= 0x10FFFF)
    ids = {}

    def sid(text):
        if text not in ids:
            ids[text] = len(ids) + 1
        return ids[text]

    def action_from(bid):
        """what the straight-line code starting at bid appends before it returns to the loop head: ('raw',) | ('const', text) | None"""
        cur = bid
        for _ in range(6):
            t = fn['blocks'][cur]['term']
            _, callee = call_of(t)
            if callee:
                m = re.match(r'std::string::String::push\((?:move|copy) _\d+, copy (_\d+)\)', callee)
                if m and m.group(1) in char_locals:
                    return ('raw',)
                m = re.match(r'std::string::String::push_str\((?:move|copy) _\d+, (?:move|copy) (_\d+)\)', callee)
                if m and m.group(1) in consts:
                    return ('const', consts[m.group(1)])
                return None
            nxt = successors(t)
            if len(nxt) != 1:
                return None
            cur = nxt[0][1]
        return None
    if len(sw) == 0:
        # no dispatch on the character at all: every character is appended as it is (or something we cannot read)
        impl = z3.IntVal(0)
        values = []
    else:
        bid, b = sw[0]
        m = re.match(r'switchInt\(copy (_\d+)\) -> \[(.*)\];', b['term'])
        values = []
        other = None
        for part in m.group(2).split(', '):
            k, tgt = part.split(': ')
            act = action_from(tgt)
            if act is None:
                return 'unknown', dict(kind='cannot read what the arm for %s appends' % k), 0.0, {}
            term = z3.IntVal(0) if act[0] == 'raw' else z3.IntVal(sid(act[1]))
            if k == 'otherwise':
                other = term
            else:
                values.append((int(k), term))
        impl = other if other is not None else z3.IntVal(-1)
        for v, term in values:
            impl = z3.If(c == v, term, impl)
    spec = z3.IntVal(0)
    for v, text in SPEC_ESCAPES.items():
        spec = z3.If(c == v, z3.IntVal(sid(text)), spec)
    s_.add(impl != spec)
    t0 = time.time()
    r = s_.check()
    dt = time.time() - t0
    stats = dict(switch_values=sorted(v for v, _ in values), marks_result_safe=marks_safe)
    if not marks_safe:
        return 'unsat_safe', dict(kind='the post-processed text is not handed out through Value::from_safe_string'), dt, stats
    if r == z3.unsat:
        return 'sat', None, dt, stats          # no character on which implementation and specification differ
    if r == z3.sat:
        ch = s_.model()[c].as_long()
        return 'unsat', dict(kind='for the character U+%04X the closure does not append what the specification says' % ch, char=ch), dt, stats
    return str(r), None, dt, stats


def run_tojson(prop, tier, seed):
    t0 = time.time()
    ev = dict(engine='M', violations=[], known_hits=[], problems=[], coverage={})
    try:
        mir = dump_mir_json(REPO, os.path.join(BUILD, 'mir'))
    except MirError as e:
        ev['problems'].append('engine M: %s' % e)
        return ev
    verdict, info, dt, stats = check_tojson_escape(mir)
    err = build_tool('render')
    if err:
        ev['problems'].append('engine M: render tool did not build')
        return ev
    # native: every special character (and the solver's character, if any) inside a string, a key and nested
    chars = sorted(set(list(SPEC_ESCAPES) + ([info['char']] if info and 'char' in info else [])))
    reqs = [dict(src='{{ v|tojson }}', ctx={'v': {'k' + chr(ch): ['x' + chr(ch) + 'y']}}) for ch in chars]
    inp = '\n'.join(json.dumps(q) for q in reqs) + '\n'
    p = subprocess.run([os.path.join(BUILD, 'native', 'debug', 'render')], input=inp, stdout=subprocess.PIPE, stderr=subprocess.PIPE, text=True, timeout=120)
    outs = [json.loads(l) for l in p.stdout.split('\n') if l.strip()]
    bad = []
    for ch, o in zip(chars, outs):
        text = o.get('ok')
        if text is None:
            bad.append((ch, 'render failed: %s' % o))
            continue
        if ch in SPEC_ESCAPES:
            if chr(ch) in text or text.count(SPEC_ESCAPES[ch]) != 2:
                bad.append((ch, 'tojson of a value holding %r renders %r' % (chr(ch), text)))
        else:
            try:
                back = json.loads(text)
                if back != {'k' + chr(ch): ['x' + chr(ch) + 'y']}:
                    bad.append((ch, 'tojson output %r does not parse back to the value' % text))
            except Exception:
                bad.append((ch, 'tojson output %r is not valid JSON' % text))
    res = dict(function='filters::tojson::{closure}', verdict=verdict, z3_s=round(dt, 3), conflict=(info or {}).get('kind'), **stats)
    if verdict == 'sat':
        if bad:
            ev['problems'].append('engine M: tojson misbehaves natively (%s) although the closure matches the specification for every character' % bad[0][1][:200])
    elif verdict in ('unsat', 'unsat_safe'):
        if bad or verdict == 'unsat_safe':
            rp = os.path.join(nativelib.replay_dir(), '%s-M-tojson.json' % prop)
            json.dump(dict(engine='M', kind='tojson', property=prop, mir_finding=res, requests=reqs, chars=chars,
                           how='bin/check %s --replay %s' % (prop, rp)), open(rp, 'w'), indent=1)
            if bad:
                ev['violations'].append(dict(replay=rp, failed=[dict(desc='tojson post-processing: %s; natively: %s' % (res['conflict'], bad[0][1][:220]),
                                                                     loc='minijinja/src/filters.rs tojson (MIR)')]))
            else:
                ev['problems'].append('engine M: tojson: %s, not observable with the native probes' % res['conflict'])
        else:
            ev['problems'].append('engine M: tojson: %s, but the native renders are as specified' % res['conflict'])
    else:
        ev['problems'].append('engine M: tojson: %s %s' % (verdict, res.get('conflict') or ''))
    log('[%s] engine M (tojson closure, symbolic character): %s %s; %d native renders, %d wrong' % (prop, verdict, stats, len(outs), len(bad)))
    ev['coverage'] = dict(queries=1, results=[res], native_scenarios=len(outs), native_scenarios_failing=len(bad), check='tojson_html_safe')
    ev['wall_s'] = round(time.time() - t0, 1)
    return ev


# ---------------------------------------------------------------------------------------------
# ops::contains (C07): membership in a sequence is decided by `==` and by nothing else - every path of the
# predicate closure goes through PartialEq::eq (a kind pre-check would make `x in [y]` disagree with `x == y`)
# ---------------------------------------------------------------------------------------------
def check_membership_uses_eq(mir):
    hdrs = [m.group(0) for m in re.finditer(r'^fn value::ops::contains::\{closure#\d+\}\(', mir, re.M)]
    if not hdrs:
        return [dict(function='ops::contains', verdict='unknown', conflict='predicate closure of ops::contains not found')]
    out = []
    for hdr in hdrs:
        fn = parse_function(function_text(mir, '^' + re.escape(hdr)))
        adj, preds = cfg(fn)
        s_ = z3.Solver()
        s_.set('timeout', 30000)
        D = {b: z3.Int('E_%s' % b) for b in fn['blocks'] if not fn['blocks'][b]['cleanup']}
        s_.add(D['bb0'] == 0)
        n = eqs = 0
        for bid, blk in fn['blocks'].items():
            if blk['cleanup']:
                continue
            if blk['term'] == 'return;':
                s_.add(D[bid] == 1)
            _, callee = call_of(blk['term'])
            is_eq = bool(callee and re.match(r'<&*value::Value as PartialEq(?:<[^>]*>)?>::eq\(', callee))
            eqs += is_eq
            for label, tgt in adj[bid]:
                if label == 'ok' and is_eq:
                    s_.add(D[tgt] == 1)
                else:
                    s_.add(D[tgt] == D[bid])
                n += 1
        t0 = time.time()
        r = s_.check()
        dt = time.time() - t0
        res = dict(function=hdr[3:-1], blocks=len(D), edges=n, eq_calls=eqs, z3_s=round(dt, 3))
        if r == z3.sat and eqs:
            res['verdict'] = 'sat'
        elif r in (z3.sat, z3.unsat):
            res.update(verdict='unsat', conflict='the membership predicate can answer without comparing with `==`')
        else:
            res['verdict'] = str(r)
        out.append(res)
    return out


# ---------------------------------------------------------------------------------------------
# ordering filters (C07): every comparator handed to safe_sort by sort / dictsort / groupby decides through
# cmp_helper (with the filter's own case_sensitive / reverse flags) on every path, and sort does not reverse the
# sorted list afterwards (descending order comes from the reversed comparator, which keeps the sort stable)
# ---------------------------------------------------------------------------------------------
def check_sort_comparators(mir):
    out = []
    for m in re.finditer(r'^fn (filters::builtins::(\w+))\(', mir, re.M):
        name = m.group(2)
        if name not in ('sort', 'dictsort', 'groupby'):
            continue
        text = function_text(mir, '^fn ' + re.escape(m.group(1)) + r'\(')
        fn = parse_function(text)
        closures = re.findall(r'safe_sort::<[^{]*(\{closure@[^}]*\})>', text)
        t0 = time.time()
        s_ = z3.Solver()
        s_.set('timeout', 30000)
        facts = []
        notes = []
        for i, c in enumerate(closures):
            loc = re.search(r'closure@([^}]*)\}', c).group(1)
            h = re.search(r'^fn [^\n]*\{closure#\d+\}\(_1: [^\n]*closure@%s\}' % re.escape(loc), mir, re.M)
            if not h:
                notes.append('comparator %s not found' % loc)
                facts.append(z3.BoolVal(False))
                continue
            cfn = parse_function(mir[h.start():mir.index('\n}\n', h.start()) + 2])
            adj, preds = cfg(cfn)
            D = {b: z3.Int('O_%s_%d_%s' % (name, i, b)) for b in cfn['blocks'] if not cfn['blocks'][b]['cleanup']}
            s_.add(D['bb0'] == 0)
            has_lookup = any('get_path(' in (call_of(b['term'])[1] or '') for b in cfn['blocks'].values())
            calls = 0
            for bid, blk in cfn['blocks'].items():
                if blk['cleanup']:
                    continue
                if blk['term'] == 'return;':
                    s_.add(D[bid] == 1)
                _, callee = call_of(blk['term'])
                hit = bool(callee and re.match(r'cmp_helper\(', callee))
                if hit:
                    calls += 1
                    args = re.findall(r'(?:(?:move|copy) (_\d+)|const (\w+))', callee[callee.find('('):])
                    flags = args[2:4]
                    const_flags = [j for j, (loc_, cst) in enumerate(flags) if cst]
                    # groupby sorts ascending by definition: its reverse flag is the constant false
                    allowed = {1} if name == 'groupby' else set()
                    if set(const_flags) - allowed:
                        notes.append('the comparator at %s passes a constant where the filter\'s %s flag belongs' % (loc, 'case_sensitive' if 0 in const_flags else 'reverse'))
                        facts.append(z3.BoolVal(False))
                # the fallback for an attribute that cannot be looked up: Equal
                eq_fallback = has_lookup and any(re.match(r'_0 = (?:(?:std|core)::cmp::)?(?:Ordering::)?Equal;', st) for st in blk['stmts'])
                for label, tgt in adj[bid]:
                    if tgt in D:
                        s_.add(D[tgt] == (1 if ((label == 'ok' and hit) or eq_fallback) else D[bid]))
            if calls == 0:
                notes.append('the comparator at %s never calls cmp_helper' % loc)
                facts.append(z3.BoolVal(False))
        if name == 'sort':
            rev = [bid for bid, blk in fn['blocks'].items() if re.search(r'core::slice::<impl \[[^\]]*\]>::reverse\(|Vec::<[^>]*>::reverse\(|as Iterator>::rev\(', call_of(blk['term'])[1] or '')]
            if rev:
                notes.append('sort reverses the sorted list afterwards (%s): equal elements come out in reverse input order' % rev[0])
                facts.append(z3.BoolVal(False))
        if facts:
            s_.add(z3.And(*facts))
        r = s_.check()
        dt = time.time() - t0
        res = dict(function='filters::' + name, filter=name, comparators=len(closures), z3_s=round(dt, 3))
        if not closures:
            res.update(verdict='unknown', conflict='no safe_sort call found')
        elif r == z3.sat:
            res.update(verdict='sat')
        elif r == z3.unsat:
            res.update(verdict='unsat', conflict='; '.join(notes) or 'a path of a comparator reaches its return without deciding through cmp_helper')
        else:
            res.update(verdict=str(r))
        out.append(res)
    out.append(check_unique_key(mir))
    return out


def check_unique_key(mir):
    """unique: what is remembered in the `seen` set is derived from the value that is compared (the attribute
    when one is given) - by clone or by lower-casing ITS string - never from the item itself"""
    text = function_text(mir, r'^fn filters::builtins::unique\(')
    if text is None:
        return dict(function='filters::unique', filter='unique', verdict='unknown', conflict='unique not found in the MIR')
    fn = parse_function(text)
    refs = {}
    for blk in fn['blocks'].values():
        for st in blk['stmts']:
            m = re.match(r'(_\d+) = &(?:mut )?(_\d+);', st)
            if m:
                refs[m.group(1)] = m.group(2)
    key_local = memo = None
    as_str_on, clones_into = [], {}
    for blk in fn['blocks'].values():
        if blk['cleanup']:
            continue
        dst, callee = call_of(blk['term'])
        if not callee:
            continue
        args = re.findall(r'(?:move|copy) (_\d+)', callee[callee.find('('):])
        if re.match(r'value::Value::get_path_or_default\(', callee):
            key_local = dst
        elif re.match(r'BTreeSet::<value::Value>::contains::<', callee) and len(args) == 2:
            memo = refs.get(args[1], args[1])
        elif re.match(r'value::Value::as_str\(', callee) and args:
            as_str_on.append(refs.get(args[0], args[0]))
        elif re.match(r'<value::Value as Clone>::clone\(', callee) and args:
            clones_into.setdefault(dst, []).append(refs.get(args[0], args[0]))
    if key_local is None or memo is None:
        return dict(function='filters::unique', filter='unique', verdict='unknown', conflict='attribute lookup / seen-set test not found in unique')
    t0 = time.time()
    s_ = z3.Solver()
    K, = z3.Ints('key_local')
    srcs = as_str_on + clones_into.get(memo, [])
    s_.add(K == int(key_local[1:]))
    s_.add(z3.Or(*[K != int(x[1:]) for x in srcs]) if srcs else z3.BoolVal(True))
    r = s_.check()
    res = dict(function='filters::unique', filter='unique', key_local=key_local, remembered_local=memo, as_str_on=as_str_on, cloned_from=clones_into.get(memo, []), z3_s=round(time.time() - t0, 3))
    if not srcs:
        res.update(verdict='unknown', conflict='no source of the remembered value found')
    elif r == z3.unsat:
        res.update(verdict='sat')
    else:
        res.update(verdict='unsat', conflict='the value remembered as seen is not derived from the compared value (%s) on some branch: as_str on %s, cloned from %s' % (key_local, as_str_on, clones_into.get(memo, [])))
    return res


def run_sort_comparators(prop, tier, seed):
    t0 = time.time()
    ev = dict(engine='M', violations=[], known_hits=[], problems=[], coverage={})
    try:
        mir = dump_mir(REPO, os.path.join(BUILD, 'mir'))
    except MirError as e:
        ev['problems'].append('engine M: %s' % e)
        return ev
    results = check_sort_comparators(mir)
    if len(results) < 4:
        ev['problems'].append('engine M: sort / dictsort / groupby / unique not all found in the MIR dump')
    err = build_tool('render')
    if err:
        ev['problems'].append('engine M: render tool did not build')
        return ev
    items = [dict(k=1, s='b', n='1'), dict(k=0, s='A', n='2'), dict(k=1, s='a', n='3'), dict(k=0, s='B', n='4'), dict(k=1, s='b', n='5')]
    reqs = []

    def add(flt, src, ctx, want):
        reqs.append((flt, dict(src=src, ctx=ctx), want))
    for rev in (False, True):
        for attr, key in (('k', lambda x: x['k']), ('s', lambda x: x['s'].lower())):
            want = ''.join(x['n'] for x in sorted(items, key=key, reverse=rev))
            add('sort', "{{ items|sort(attribute='%s', reverse=%s)|map(attribute='n')|join }}" % (attr, 'true' if rev else 'false'), dict(items=items), want)
        words = ['b', 'A', 'a', 'B', 'c']
        add('sort', '{{ w|sort(reverse=%s)|join }}' % ('true' if rev else 'false'), dict(w=words), ''.join(sorted(words, key=str.lower, reverse=rev)))
        add('sort', '{{ w|sort(reverse=%s, case_sensitive=true)|join }}' % ('true' if rev else 'false'), dict(w=words), ''.join(sorted(words, reverse=rev)))
    # groupby: a partition by (case-insensitive) key, groups in ascending key order, members in input order
    groups = {}
    for x in sorted(items, key=lambda x: x['s'].lower()):
        groups.setdefault(x['s'].lower(), []).append(x)
    want = ''.join('%s:%s;' % (k, ''.join(x['n'] for x in g)) for k, g in groups.items())      # the grouper of a case-insensitive grouping is the lowercased key
    add('groupby', "{% for g in items|groupby('s') %}{{ g.grouper }}:{{ g.list|map(attribute='n')|join }};{% endfor %}", dict(items=items), want)
    d = {'b': 1, 'A': 2, 'c': 0}
    add('dictsort', '{% for k, v in d|dictsort %}{{ k }}{% endfor %}', dict(d=d), ''.join(sorted(d, key=str.lower)))
    add('dictsort', "{% for k, v in d|dictsort(by='value', reverse=true) %}{{ k }}{% endfor %}", dict(d=d), ''.join(sorted(d, key=lambda k: d[k], reverse=True)))
    # unique: order-preserving, duplicate-free under the (by default case-insensitive) equality of the compared value
    def uniq(seq, key):
        seen, outl = set(), []
        for x in seq:
            if key(x) not in seen:
                seen.add(key(x))
                outl.append(x)
        return outl
    add('unique', "{{ items|unique(attribute='s')|map(attribute='n')|join }}", dict(items=items), ''.join(x['n'] for x in uniq(items, lambda x: x['s'].lower())))
    add('unique', "{{ items|unique(attribute='s', case_sensitive=true)|map(attribute='n')|join }}", dict(items=items), ''.join(x['n'] for x in uniq(items, lambda x: x['s'])))
    add('unique', '{{ w|unique|join }}', dict(w=['b', 'A', 'a', 'B', 'b']), ''.join(uniq(['b', 'A', 'a', 'B', 'b'], str.lower)))
    add('unique', '{{ w|unique(case_sensitive=true)|join }}', dict(w=['b', 'A', 'a', 'B', 'b']), ''.join(uniq(['b', 'A', 'a', 'B', 'b'], str)))
    inp = '\n'.join(json.dumps(q) for _, q, _ in reqs) + '\n'
    p = subprocess.run([os.path.join(BUILD, 'native', 'debug', 'render')], input=inp, stdout=subprocess.PIPE, stderr=subprocess.PIPE, text=True, timeout=120)
    outs = [json.loads(l) for l in p.stdout.split('\n') if l.strip()]
    bad = {}
    for (f, q, want), o in zip(reqs, outs):
        if o.get('ok') != want:
            bad.setdefault(f, []).append('%s renders %r, expected %r' % (q['src'], o.get('ok', o), want))
    for r in results:
        if r['verdict'] == 'sat':
            continue
        if r['verdict'] != 'unsat':
            ev['problems'].append('engine M: %s: %s %s' % (r['function'], r['verdict'], r.get('conflict') or ''))
            continue
        if r['filter'] in bad:
            rp = os.path.join(nativelib.replay_dir(), '%s-M-sortcmp-%s.json' % (prop, r['filter']))
            json.dump(dict(engine='M', kind='safesrc', property=prop, mir_finding=r, requests=[[q, w] for f, q, w in reqs if f == r['filter']],
                           how='bin/check %s --replay %s' % (prop, rp)), open(rp, 'w'), indent=1)
            ev['violations'].append(dict(replay=rp, failed=[dict(desc='%s: %s; natively: %s' % (r['function'], r['conflict'], bad[r['filter']][0][:260]), loc='minijinja/src/filters.rs %s (MIR)' % r['filter'])]))
        else:
            ev['problems'].append('engine M: %s: %s, but every native render of that filter is as specified' % (r['function'], r['conflict']))
    for f, msgs in bad.items():
        if all(r['verdict'] == 'sat' for r in results if r['filter'] == f):
            ev['problems'].append('engine M: filter %s orders wrongly natively (%s) although its comparators decide through cmp_helper' % (f, msgs[0][:240]))
    log('[%s] engine M (ordering filters): %s; native: %d renders, %d filters misbehaving' % (prop, ' '.join('%s=%s' % (r['filter'], r['verdict']) for r in results), len(outs), len(bad)))
    ev['coverage'] = dict(queries=len(results), results=results, native_scenarios=len(outs), native_scenarios_failing=len(bad), check='ordering_filters')
    ev['wall_s'] = round(time.time() - t0, 1)
    return ev


# ---------------------------------------------------------------------------------------------
# Value == Value on sequences / iterables (C07): on the (Seq|Iterable, Seq|Iterable) arm of PartialEq::eq the answer
# comes from comparing the items (Iterator::eq) on every path, except where an operand cannot be iterated at all -
# so that == agrees with the item-wise Ord::cmp also when only one side knows its length
# ---------------------------------------------------------------------------------------------
def check_seq_eq_by_items(mir):
    text = function_text(mir, r'^fn value::<impl at [^>]*>::eq\(_1: &value::Value, _2: &value::Value\)')
    if text is None:
        return dict(function='<Value as PartialEq>::eq', verdict='unknown', conflict='Value::eq not found in the MIR')
    fn = parse_function(text)
    blocks = {b: blk for b, blk in fn['blocks'].items() if not blk['cleanup']}
    adj, preds = cfg(fn)
    der, _ = derive_map(fn)
    item_eq = [b for b, blk in blocks.items() if re.match(r'<Box<dyn Iterator<Item = value::Value>[^>]*> as Iterator>::eq::<', call_of(blk['term'])[1] or '')]
    repr_locals = set()
    iter_locals = set()
    for blk in blocks.values():
        dst, callee = call_of(blk['term'])
        if dst and callee and re.search(r'DynObject>::repr\(|impl DynObject>::repr\(', callee):
            repr_locals.add(dst)
        if dst and callee and re.match(r'DynObject::try_iter\(', callee):
            iter_locals.add(dst)
    if len(item_eq) != 1 or not repr_locals:
        return dict(function='<Value as PartialEq>::eq', verdict='unknown', conflict='item-wise comparison / repr dispatch not found (%d, %d)' % (len(item_eq), len(repr_locals)))
    target = item_eq[0]

    def reach(start, avoid=()):
        seen, todo = {start}, [start]
        while todo:
            b = todo.pop()
            for _, t_ in adj.get(b, []):
                if t_ in blocks and t_ not in seen and t_ not in avoid:
                    seen.add(t_)
                    todo.append(t_)
        return seen
    # arm entries: targets of a switch on a repr discriminant from which the item comparison is reachable and which
    # are not themselves such a switch
    def switch_on(b, type_rx):
        """does block b switch on the discriminant of a place of the given type (also a tuple field of it)?"""
        m = re.match(r'switchInt\((?:move|copy) (_\d+)\)', blocks[b]['term'])
        if not m:
            return False
        for st in blocks[b]['stmts']:
            x = re.match(re.escape(m.group(1)) + r' = discriminant\((.*)\);$', st)
            if x and re.search(type_rx, x.group(1)):
                return True
            if x and x.group(1) in repr_locals and type_rx == REPR_RX:
                return True
        return False
    REPR_RX = r'ObjectRepr'

    def is_repr_switch(b):
        return switch_on(b, REPR_RX)
    entries = set()
    for b in blocks:
        if is_repr_switch(b):
            for _, t_ in adj[b]:
                if t_ in blocks and not is_repr_switch(t_) and target in reach(t_):
                    entries.add(t_)
    if len(entries) != 1:
        return dict(function='<Value as PartialEq>::eq', verdict='unknown', conflict='the (Seq|Iterable, Seq|Iterable) arm was not identified (%s)' % sorted(entries))
    entry = entries.pop()
    region = reach(entry)
    shared = reach('bb0', avoid=(entry,))
    inner = region - shared
    s_ = z3.Solver()
    s_.set('timeout', 30000)
    D = {b: z3.Int('I_%s' % b) for b in inner}
    s_.add(D[entry] == 0)
    exits = 0
    for b in inner:
        blk = blocks[b]
        _, callee = call_of(blk['term'])
        hit = b == target
        m = re.match(r'switchInt\((?:move|copy) (_\d+)\) -> \[(.*)\];', blk['term'])
        none_edge = None
        if m and switch_on(b, r'Option<(?:std::boxed::)?Box<dyn (?:std::iter::)?Iterator'):
            tg = dict(x.split(': ') for x in m.group(2).split(', '))
            none_edge = tg.get('0')
        for label, t_ in adj[b]:
            if t_ not in blocks:
                continue
            eff = 1 if ((hit and label == 'ok') or (none_edge is not None and t_ == none_edge)) else 0
            if t_ in inner:
                s_.add(D[t_] == z3.If(D[b] + eff >= 1, 1, 0))
            else:
                s_.add(D[b] + eff >= 1)
                exits += 1
    t0 = time.time()
    r = s_.check()
    res = dict(function='<Value as PartialEq>::eq', arm_entry=entry, arm_blocks=len(inner), arm_exits=exits, z3_s=round(time.time() - t0, 3))
    if not exits:
        res.update(verdict='unknown', conflict='the arm has no exit')
    elif r == z3.sat:
        res.update(verdict='sat')
    elif r == z3.unsat:
        res.update(verdict='unsat', conflict='the sequence/iterable arm of == can answer without comparing the items (and without an operand failing to iterate)')
    else:
        res.update(verdict=str(r))
    return res


def run_seq_equality(prop, tier, seed):
    t0 = time.time()
    ev = dict(engine='M', violations=[], known_hits=[], problems=[], coverage={})
    try:
        mir = dump_mir(REPO, os.path.join(BUILD, 'mir'))
    except MirError as e:
        ev['problems'].append('engine M: %s' % e)
        return ev
    res = check_seq_eq_by_items(mir)
    err = build_tool('render')
    if err:
        ev['problems'].append('engine M: render tool did not build')
        return ev
    # pairs of equal-by-items sequences / lazy iterables, some of unknown length: ==, <=, >=, in and unique agree
    exprs = ['[1, 2, 3]', '[3, 2, 1]|reverse', '[1, 2]|chain([3]|reverse)', '[1, 2]|chain([3])', 'range(1, 4)', '(1, 2, 3)|list']
    reqs = [dict(src='{%% set a = %s %%}{%% set b = %s %%}{{ a <= b }}|{{ a >= b }}|{{ a == b }}|{{ a != b }}|{{ a in [b] }}|{{ [a, b]|unique|length }}' % (x, y), ctx={})
            for x in exprs for y in exprs]
    inp = '\n'.join(json.dumps(q) for q in reqs) + '\n'
    p = subprocess.run([os.path.join(BUILD, 'native', 'debug', 'render')], input=inp, stdout=subprocess.PIPE, stderr=subprocess.PIPE, text=True, timeout=120)
    outs = [json.loads(l) for l in p.stdout.split('\n') if l.strip()]
    bad = []
    for q, o in zip(reqs, outs):
        t = o.get('ok')
        if t is None:
            bad.append('%s: %s' % (q['src'][:70], o))
            continue
        le, ge, eq, ne, inn, uq = t.split('|')
        consistent = (eq == 'True') == (le == 'True' and ge == 'True') and (ne == 'True') != (eq == 'True') and inn == eq and (uq == '1') == (eq == 'True')
        if not consistent:
            bad.append('%s renders le|ge|eq|ne|in|unique = %s' % (q['src'][:70], t))
    if res['verdict'] == 'unsat':
        if bad:
            rp = os.path.join(nativelib.replay_dir(), '%s-M-seq-eq.json' % prop)
            json.dump(dict(engine='M', kind='seqeq', property=prop, mir_finding=res, requests=reqs, how='bin/check %s --replay %s' % (prop, rp)), open(rp, 'w'), indent=1)
            ev['violations'].append(dict(replay=rp, failed=[dict(desc='%s; natively: %s' % (res['conflict'], bad[0][:220]), loc='minijinja/src/value/mod.rs PartialEq for Value (MIR)')]))
        else:
            ev['problems'].append('engine M: %s, but ==, <=, >=, in and unique agree on the whole sequence grid' % res['conflict'])
    elif res['verdict'] != 'sat':
        ev['problems'].append('engine M: sequence equality: %s %s' % (res['verdict'], res.get('conflict') or ''))
    elif bad:
        ev['problems'].append('engine M: sequence equality: %s although the arm always compares the items' % bad[0][:200])
    log('[%s] engine M (== on sequences by items): %s; native grid %d pairs, %d inconsistent' % (prop, res['verdict'], len(outs), len(bad)))
    ev['coverage'] = dict(queries=1, results=[res], native_scenarios=len(outs), native_scenarios_failing=len(bad), check='seq_eq_by_items')
    ev['wall_s'] = round(time.time() - t0, 1)
    return ev


def run_membership(prop, tier, seed):
    t0 = time.time()
    ev = dict(engine='M', violations=[], known_hits=[], problems=[], coverage={})
    try:
        mir = dump_mir(REPO, os.path.join(BUILD, 'mir'))
    except MirError as e:
        ev['problems'].append('engine M: %s' % e)
        return ev
    results = check_membership_uses_eq(mir)
    err = build_tool('render')
    if err:
        ev['problems'].append('engine M: render tool did not build')
        return ev
    vals = ['0', '1', '1.0', 'true', 'false', '"1"', '"a"', 'none', '[1]', '(1,)', '2 ** 70']
    reqs = [dict(src='{{ (%s) in [%s] }}|{{ (%s) == (%s) }}' % (a, b, a, b), ctx={}) for a in vals for b in vals]
    inp = '\n'.join(json.dumps(q) for q in reqs) + '\n'
    p = subprocess.run([os.path.join(BUILD, 'native', 'debug', 'render')], input=inp, stdout=subprocess.PIPE, stderr=subprocess.PIPE, text=True, timeout=120)
    outs = [json.loads(l) for l in p.stdout.split('\n') if l.strip()]
    bad = []
    for q, o in zip(reqs, outs):
        t = o.get('ok')
        if t is None or t.split('|')[0] != t.split('|')[1]:
            bad.append('%s renders %s' % (q['src'], t if t is not None else o))
    for r in results:
        if r['verdict'] == 'sat':
            continue
        if r['verdict'] != 'unsat':
            ev['problems'].append('engine M: %s: %s %s' % (r['function'], r['verdict'], r.get('conflict', '')))
            continue
        if bad:
            rp = os.path.join(nativelib.replay_dir(), '%s-M-membership.json' % prop)
            json.dump(dict(engine='M', kind='membership', property=prop, mir_finding=r, requests=reqs, how='bin/check %s --replay %s' % (prop, rp)), open(rp, 'w'), indent=1)
            ev['violations'].append(dict(replay=rp, failed=[dict(desc='ops::contains: %s; natively: %s' % (r['conflict'], bad[0][:200]), loc='minijinja/src/value/ops.rs contains (MIR)')]))
        else:
            ev['problems'].append('engine M: ops::contains: %s, but `x in [y]` agrees with `x == y` on the whole value grid' % r['conflict'])
    if bad and all(r['verdict'] == 'sat' for r in results):
        ev['problems'].append('engine M: `x in [y]` disagrees with `x == y` natively (%s) although the predicate always compares with ==' % bad[0][:200])
    log('[%s] engine M (ops::contains predicate): %s; native grid %d pairs, %d disagreeing' % (prop, ' '.join(r['verdict'] for r in results), len(outs), len(bad)))
    ev['coverage'] = dict(queries=len(results), results=results, native_scenarios=len(outs), native_scenarios_failing=len(bad), check='membership_uses_eq')
    ev['wall_s'] = round(time.time() - t0, 1)
    return ev


# ---------------------------------------------------------------------------------------------
# Value::from(Serde(..)) (C15): the thread-local "internal serialization" flag is restored on EVERY exit of the
# conversion - the normal return AND the unwind path of a panicking Serialize impl (here unwind edges ARE followed)
# ---------------------------------------------------------------------------------------------
def successors_with_unwind(term):
    out = successors(term)
    m = re.search(r'unwind: (bb\d+)', term)
    if m:
        out = out + [('unwind', m.group(1))]
    return out


def check_flag_restored_on_unwind(mir):
    hdr = None
    for m in re.finditer(r'^fn value::<impl at [^>]*>::from::\{closure#\d+\}\([^\n]*&Cell<bool>[^\n]*\{$', mir, re.M):
        hdr = m.group(0)
    if hdr is None:
        return 'unknown', dict(kind='the closure that sets the internal-serialization flag was not found'), 0.0, {}
    text = function_text(mir, '^' + re.escape(hdr[:hdr.index('(')+1]))
    fn = parse_function(text)
    guard_locals = set(re.findall(r'let (?:mut )?(_\d+): value::InternalSerializationGuard', text))
    s_ = z3.Solver()
    s_.set('timeout', 30000)
    D = {b: z3.Int('F_%s' % b) for b in fn['blocks']}
    s_.add(D['bb0'] == 0)
    n = sets = restores = 0
    for bid, blk in fn['blocks'].items():
        t = blk['term']
        if t in ('return;', 'resume;'):
            s_.add(D[bid] == 0)
            continue
        dst, callee = call_of(t)
        is_set = bool(callee and re.match(r'Cell::<bool>::replace\(.*const true\)', callee))
        is_restore = bool(callee and re.match(r'Cell::<bool>::(set|replace)\(', callee) and not is_set)
        m = re.match(r'drop\((_\d+)\)', t)
        if m and m.group(1) in guard_locals:
            is_restore = True
        sets += is_set
        restores += is_restore
        for label, tgt in successors_with_unwind(t):
            if tgt not in fn['blocks'] or fn['blocks'][tgt]['term'] == 'unreachable;':
                continue
            if label == 'ok' and is_set:
                s_.add(D[tgt] == 1)
            elif label in ('ok', 'unwind') and is_restore:
                # a guard's Drop runs also when the drop itself is reached on the cleanup path
                s_.add(D[tgt] == 0)
            elif label == 'unwind' and is_set:
                s_.add(D[tgt] == D[bid])
            else:
                s_.add(D[tgt] == D[bid])
            n += 1
    t0 = time.time()
    r = s_.check()
    dt = time.time() - t0
    stats = dict(blocks=len(D), edges=n, sets=sets, restores=restores, guard_locals=len(guard_locals))
    if sets == 0:
        return 'unknown', dict(kind='no assignment of the flag found'), dt, stats
    if r == z3.sat:
        return 'sat', None, dt, stats
    if r != z3.unsat:
        return str(r), None, dt, stats
    return 'unsat', dict(kind='the flag is still set on some exit of the conversion (return or unwinding)'), dt, stats


def run_serde_flag(prop, tier, seed):
    t0 = time.time()
    ev = dict(engine='M', violations=[], known_hits=[], problems=[], coverage={})
    try:
        mir = dump_mir_json(REPO, os.path.join(BUILD, 'mir'))
    except MirError as e:
        ev['problems'].append('engine M: %s' % e)
        return ev
    verdict, info, dt, stats = check_flag_restored_on_unwind(mir)
    err = build_tool('serdeflag')
    if err:
        ev['problems'].append('engine M: native scenario tool did not build: ' + err[-300:])
        return ev
    p = subprocess.run([os.path.join(BUILD, 'native', 'debug', 'serdeflag')], stdout=subprocess.PIPE, stderr=subprocess.PIPE, text=True, timeout=60)
    scen = [json.loads(l) for l in p.stdout.split('\n') if l.strip().startswith('{')]
    failing = [s for s in scen if not s['ok']]
    res = dict(function='<Value as From<Serde<T>>>::from::{closure}', resource='flag_restored_on_unwind', verdict=verdict, z3_s=round(dt, 3), conflict=(info or {}).get('kind'), **stats)
    if verdict == 'unsat':
        if failing:
            rp = os.path.join(nativelib.replay_dir(), '%s-M-serdeflag.json' % prop)
            json.dump(dict(engine='M', kind='serdeflag', property=prop, mir_finding=res, scenarios=failing, how='bin/check %s --replay %s' % (prop, rp)), open(rp, 'w'), indent=1)
            ev['violations'].append(dict(replay=rp, failed=[dict(desc='Value::from(Serde(..)): %s; natively: %s' % (res['conflict'], failing[0]['detail'][:220]),
                                                                 loc='minijinja/src/value/mod.rs (MIR, unwind edges followed)')]))
        else:
            ev['problems'].append('engine M: Value::from(Serde(..)): %s, but the native scenario is fine' % res['conflict'])
    elif verdict != 'sat':
        ev['problems'].append('engine M: Value::from(Serde(..)): %s %s' % (verdict, res.get('conflict') or ''))
    elif failing:
        ev['problems'].append('engine M: native scenario %s misbehaves (%s) although the flag is restored on every exit' % (failing[0]['scenario'], failing[0]['detail'][:200]))
    log('[%s] engine M (serialization flag, unwind edges followed): %s %s; %d native scenario(s), %d misbehaving' % (prop, verdict, stats, len(scen), len(failing)))
    ev['coverage'] = dict(queries=1, results=[res], native_scenarios=len(scen), native_scenarios_failing=len(failing), check='flag_restored_on_unwind')
    ev['wall_s'] = round(time.time() - t0, 1)
    return ev
