//! Native replay helper for engine M's "every binary-operator arm calls its ops:: function" check (C04):
//! for each operator and each pair of operands from a small grid, the expression written with LITERALS (which
//! the compiler folds at load time) and the same expression over VARIABLES bound to those values (evaluated by
//! the VM) must render identically - value and kind - or fail alike.
//! Prints one JSON line per operator {"op":..,"ok":bool,"detail":..}.
use minijinja::{context, Environment, Value};

fn main() {
    let operands: Vec<(&str, Value)> = vec![
        ("0", Value::from(0)),
        ("1", Value::from(1)),
        ("2", Value::from(2)),
        ("-1", Value::from(-1)),
        ("1.5", Value::from(1.5)),
        ("\"\"", Value::from("")),
        ("\"a\"", Value::from("a")),
        ("\"1\"", Value::from("1")),
        ("true", Value::from(true)),
        ("none", Value::from(())),
        ("[1]", Value::from(vec![Value::from(1)])),
        ("9223372036854775807", Value::from(i64::MAX)),
        ("0.0", Value::from(0.0)),
        ("false", Value::from(false)),
    ];
    let ops = [("Add", "+"), ("Sub", "-"), ("Mul", "*"), ("Div", "/"), ("IntDiv", "//"), ("Rem", "%"), ("Pow", "**"), ("StringConcat", "~"), ("In", "in")];
    let env = Environment::new();
    // unary operators and the boolean operators the folder re-implements
    let probe = |e: &str| format!("{{{{ {e} }}}}|{{{{ ({e}) is string }}}}|{{{{ ({e}) is number }}}}|{{{{ ({e}) is boolean }}}}|{{{{ 1 / ({e}) if ({e}) is number and ({e}) == 0 else 0 }}}}");
    for (name, shape) in [("Neg", "-(A)"), ("Not", "not (A)")] {
        let mut bad = None;
        for (la, va) in &operands {
            let lit = env.render_str(&probe(&shape.replace("A", la)), ()).map_err(|e| format!("{:?}", e.kind()));
            let var = env.render_str(&probe(&shape.replace("A", "a")), context! { a => va.clone() }).map_err(|e| format!("{:?}", e.kind()));
            if lit != var {
                bad = Some(format!("{}: literals give {:?}, variables give {:?}", shape.replace("A", la), lit, var));
                break;
            }
        }
        println!("{}", serde_json::json!({"op": name, "symbol": shape, "ok": bad.is_none(), "detail": bad.unwrap_or_else(|| "all operands agree".into())}));
    }
    for (name, shape) in [("AndOr", "A and B or C"), ("OrAnd", "(A or B) and C"), ("And", "A and B"), ("Or", "A or B"), ("AndNot", "A and not B or C")] {
        let small: Vec<&(&str, Value)> = operands.iter().filter(|(l, _)| ["0", "1", "2", "\"\"", "\"a\"", "none", "false"].contains(l)).collect();
        let mut bad = None;
        'o: for (la, va) in &small {
            for (lb, vb) in &small {
                for (lc, vc) in &small {
                    let lit_e = shape.replace("A", la).replace("B", lb).replace("C", lc);
                    let lit = env.render_str(&format!("{{{{ {lit_e} }}}}"), ()).map_err(|e| format!("{:?}", e.kind()));
                    let var = env
                        .render_str(&format!("{{{{ {} }}}}", shape.replace("A", "a").replace("B", "b").replace("C", "c")), context! { a => va.clone(), b => vb.clone(), c => vc.clone() })
                        .map_err(|e| format!("{:?}", e.kind()));
                    if lit != var {
                        bad = Some(format!("{}: literals give {:?}, variables give {:?}", lit_e, lit, var));
                        break 'o;
                    }
                }
            }
        }
        println!("{}", serde_json::json!({"op": name, "symbol": shape, "ok": bad.is_none(), "detail": bad.unwrap_or_else(|| "all operand triples agree".into())}));
    }
    for (name, op) in ops {
        let mut bad = None;
        let mut n = 0;
        'outer: for (la, va) in &operands {
            for (lb, vb) in &operands {
                // a list repeated 2^63-1 times is a lazily repeated sequence that cannot be printed in finite time
                if op == "*" && (*la == "[1]" || *lb == "[1]") && (la.len() > 10 || lb.len() > 10) {
                    continue;
                }
                n += 1;
                let probe = |e: &str| format!("{{{{ {e} }}}}|{{{{ ({e}) is string }}}}|{{{{ ({e}) is number }}}}|{{{{ ({e}) is sequence }}}}");
                let lit = env.render_str(&probe(&format!("({la}) {op} ({lb})")), ()).map_err(|e| format!("{:?}", e.kind()));
                let var = env
                    .render_str(&probe(&format!("a {op} b")), context! { a => va.clone(), b => vb.clone() })
                    .map_err(|e| format!("{:?}", e.kind()));
                if lit != var {
                    bad = Some(format!("({la}) {op} ({lb}): literals give {:?}, variables give {:?}", lit, var));
                    break 'outer;
                }
            }
        }
        println!("{}", serde_json::json!({"op": name, "symbol": op, "ok": bad.is_none(),
            "detail": bad.unwrap_or_else(|| format!("{} operand pairs agree", n))}));
    }
}
