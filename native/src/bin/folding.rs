//! Native replay helper for engine M's "every binary-operator arm calls its ops:: function" check (C04):
//! for each operator and each pair of operands from a small grid, the expression written with LITERALS (which
//! the compiler folds at load time) and the same expression over VARIABLES bound to those values (evaluated by
//! the VM) must render identically - value and kind - or fail alike.
//! Prints one JSON line per operator {"op":..,"ok":bool,"detail":..}.
use minijinja::{context, Environment, Value};

fn main() {
    let operands: Vec<(&str, Value)> = vec![
        ("0", Value::from(0)),
        ("1", Value::from(1)),
        ("2", Value::from(2)),
        ("-1", Value::from(-1)),
        ("1.5", Value::from(1.5)),
        ("\"\"", Value::from("")),
        ("\"a\"", Value::from("a")),
        ("\"1\"", Value::from("1")),
        ("true", Value::from(true)),
        ("none", Value::from(())),
        ("[1]", Value::from(vec![Value::from(1)])),
    ];
    let ops = [("Add", "+"), ("Sub", "-"), ("Mul", "*"), ("Div", "/"), ("IntDiv", "//"), ("Rem", "%"), ("Pow", "**"), ("StringConcat", "~"), ("In", "in")];
    let env = Environment::new();
    for (name, op) in ops {
        let mut bad = None;
        let mut n = 0;
        'outer: for (la, va) in &operands {
            for (lb, vb) in &operands {
                n += 1;
                let probe = |e: &str| format!("{{{{ {e} }}}}|{{{{ ({e}) is string }}}}|{{{{ ({e}) is number }}}}|{{{{ ({e}) is sequence }}}}");
                let lit = env.render_str(&probe(&format!("({la}) {op} ({lb})")), ()).map_err(|e| format!("{:?}", e.kind()));
                let var = env
                    .render_str(&probe(&format!("a {op} b")), context! { a => va.clone(), b => vb.clone() })
                    .map_err(|e| format!("{:?}", e.kind()));
                if lit != var {
                    bad = Some(format!("({la}) {op} ({lb}): literals give {:?}, variables give {:?}", lit, var));
                    break 'outer;
                }
            }
        }
        println!("{}", serde_json::json!({"op": name, "symbol": op, "ok": bad.is_none(),
            "detail": bad.unwrap_or_else(|| format!("{} operand pairs agree", n))}));
    }
}
