//! Native replay helper for engine M's eval_impl checks.
//!  * located: errors raised at different kinds of VM sites must carry the line of the failing construct
//!    (every template below fails on line 2);
//!  * sink: a writer that fails at its k-th call must not be written to again and the render must fail.
//! Prints one JSON line per scenario: {"scenario":.., "check":"located"|"no_write_after_failure", "ok":bool, "detail":..}
use minijinja::{context, Environment, Error, ErrorKind, Value};
use std::io;

struct FailingSink {
    fail_at: usize,
    calls: usize,
    calls_after_failure: usize,
    failed: bool,
}

impl io::Write for FailingSink {
    fn write(&mut self, buf: &[u8]) -> io::Result<usize> {
        self.calls += 1;
        if self.failed {
            self.calls_after_failure += 1;
            return Err(io::Error::new(io::ErrorKind::BrokenPipe, "closed"));
        }
        if self.calls == self.fail_at {
            self.failed = true;
            return Err(io::Error::new(io::ErrorKind::BrokenPipe, "closed"));
        }
        Ok(buf.len())
    }
    fn flush(&mut self) -> io::Result<()> {
        Ok(())
    }
}

fn failing_formatter(_out: &mut minijinja::Output, _state: &mut minijinja::State, value: &Value) -> Result<(), Error> {
    if value.as_str() == Some("bad") {
        Err(Error::new(ErrorKind::InvalidOperation, "formatter refuses this value"))
    } else {
        Ok(())
    }
}

fn main() {
    let mut out = Vec::new();
    // ---- located
    let cases: Vec<(&str, &str, bool)> = vec![
        ("unknown_filter", "x\n{{ 1|nosuchfilter }}", false),
        ("unknown_test", "x\n{{ 1 is nosuchtest }}", false),
        ("unknown_function", "x\n{{ nosuchfunction() }}", false),
        ("failing_function", "x\n{{ fail() }}", false),
        ("bad_operator", "x\n{{ 1 + 'a' }}", false),
        ("undefined_attribute_chain", "x\n{{ a.b.c }}", false),
        ("not_iterable", "x\n{% for i in 1 %}{% endfor %}", false),
        ("missing_include", "x\n{% include 'nope' %}", false),
        ("super_outside_block", "x\n{{ super() }}", false),
        ("division_by_zero", "x\n{{ 1 // 0 }}", false),
        ("unpack_mismatch", "x\n{% for a, b in [[1]] %}{% endfor %}", false),
        ("custom_formatter_fails", "x\n{{ 'bad' }}", true),
    ];
    for (name, src, custom_formatter) in cases {
        let mut env = Environment::new();
        env.add_function("fail", || -> Result<Value, Error> { Err(Error::new(ErrorKind::InvalidOperation, "boom")) });
        if custom_formatter {
            env.set_formatter(failing_formatter);
        }
        let r = env.render_str(src, ());
        let (ok, detail) = match r {
            Ok(s) => (false, format!("rendered {:?} instead of failing", s)),
            Err(e) => (e.line() == Some(2), format!("{:?} reported at line {:?} (expected 2)", e.kind(), e.line())),
        };
        out.push(serde_json::json!({"scenario": name, "check": "located", "ok": ok, "detail": detail}));
    }
    // ---- sink
    for fail_at in 1..=4usize {
        let env = Environment::new();
        let tmpl = env.template_from_str("a{{ x }}b{{ y }}c{{ x }}d").unwrap();
        let mut sink = FailingSink { fail_at, calls: 0, calls_after_failure: 0, failed: false };
        let r = tmpl.render_captured_to(minijinja::context! { x => "X", y => "<Y>" }, &mut sink).map(|_| ());
        let ok = r.is_err() && sink.calls_after_failure == 0 && sink.failed;
        out.push(serde_json::json!({"scenario": format!("sink_fails_at_call_{}", fail_at), "check": "no_write_after_failure", "ok": ok,
            "detail": format!("render result is_err={}, write calls={}, calls after the failure={}", r.is_err(), sink.calls, sink.calls_after_failure)}));
    }
    // ---- sink: numbers printed straight to the sink (fast paths), with and without HTML escaping
    for (name, tname, src) in [
        ("neg_int_html", "p.html", "a{{ n }}b{{ n }}c"),
        ("whole_float_plain", "p.txt", "a{{ f }}b{{ f }}c"),
        ("float_html", "p.html", "a{{ f }}b{{ g }}c"),
    ] {
        for fail_at in 1..=6usize {
            let env = Environment::new();
            let tmpl = env.template_from_named_str(tname, src).unwrap();
            let mut sink = FailingSink { fail_at, calls: 0, calls_after_failure: 0, failed: false };
            let r = tmpl.render_captured_to(context! { n => -42, f => 3.0, g => -0.5 }, &mut sink).map(|_| ());
            // a sink that never reaches its failing call is fine; once it failed: an error and no further call
            let ok = if sink.failed { r.is_err() && sink.calls_after_failure == 0 } else { r.is_ok() };
            out.push(serde_json::json!({"scenario": format!("sink_{}_fails_at_call_{}", name, fail_at), "check": "no_write_after_failure", "ok": ok,
                "detail": format!("sink failed={}, render is_err={}, write calls={}, calls after the failure={}", sink.failed, r.is_err(), sink.calls, sink.calls_after_failure)}));
        }
    }
    // ---- sink: a block rendered through the state API into a sink that fails with BrokenPipe must report it
    {
        let mut env = Environment::new();
        env.add_template("t", "{% block b %}hello {{ 1 }} world{% endblock %}").unwrap();
        let mut captured = env.get_template("t").unwrap().render_captured(()).unwrap();
        let mut sink = FailingSink { fail_at: 1, calls: 0, calls_after_failure: 0, failed: false };
        let r = captured.with_state_mut(|s| s.render_block_to_write("b", &mut sink));
        let ok = r.is_err() && sink.calls_after_failure == 0;
        out.push(serde_json::json!({"scenario": "block_to_write_broken_pipe", "check": "no_write_after_failure", "ok": ok,
            "detail": format!("render_block_to_write into a sink failing with BrokenPipe: is_err={}, calls after the failure={}", r.is_err(), sink.calls_after_failure)}));
    }
    // ---- printing under HTML auto-escaping: whatever kind of value is printed, no markup character of an
    //      unsafe value reaches the output unescaped; safe strings are written as they are
    {
        let env = Environment::new();
        let lt = "<i>'\"&";
        let values: Vec<(&str, Value, bool)> = vec![
            ("string", Value::from(lt), false),
            ("safe_string", Value::from_safe_string(lt.to_string()), true),
            ("list_of_strings", Value::from(vec![Value::from(lt)]), false),
            ("map_with_string", Value::from(std::collections::BTreeMap::from([("k", lt)])), false),
            ("bytes", Value::from_bytes(lt.as_bytes().to_vec()), false),
            ("bytes_invalid_utf8", Value::from_bytes(b"\xff<i>'".to_vec()), false),
            ("number", Value::from(42), false),
            ("bool", Value::from(true), false),
            ("none", Value::from(()), false),
        ];
        for (name, v, is_safe) in values {
            let r = env.render_named_str("page.html", "{{ v }}", context! { v => v.clone() });
            let (ok, detail) = match r {
                Ok(s) => {
                    let raw = s.contains('<') || s.contains('>') || s.contains('\'');
                    if is_safe {
                        (s == lt, format!("safe string rendered as {:?}", s))
                    } else {
                        (!raw, format!("{} rendered as {:?}", name, s))
                    }
                }
                Err(e) => (false, format!("render failed: {}", e)),
            };
            out.push(serde_json::json!({"scenario": format!("print_{}", name), "check": "emit_escapes", "ok": ok, "detail": detail}));
        }
    }
    // ---- captures under HTML auto-escaping: what was captured has been escaped once and is not escaped again;
    //      without auto-escaping the captured text is an ordinary string
    {
        let env = Environment::new();
        let lt = "<i>'\"&";
        let direct = env.render_named_str("page.html", "<b>{{ v }}</b>", context! { v => lt }).unwrap_or_default();
        let cases: Vec<(&str, &str, String)> = vec![
            ("set_block", "{% set x %}<b>{{ v }}</b>{% endset %}{{ x }}", direct.clone()),
            ("set_block_twice", "{% set x %}<b>{{ v }}</b>{% endset %}{% set y %}{{ x }}{% endset %}{{ y }}", direct.clone()),
            ("macro_result", "{% macro m(a) %}<b>{{ a }}</b>{% endmacro %}{{ m(v) }}", direct.clone()),
            ("call_block", "{% macro m() %}{{ caller() }}{% endmacro %}{% call m() %}<b>{{ v }}</b>{% endcall %}", direct.clone()),
            ("recursive_loop", "{% for n in [[1]] recursive %}{% if n is sequence %}{{ loop(n) }}{% else %}<b>{{ v }}</b>{% endif %}{% endfor %}", direct.clone()),
            ("recursive_loop_in_expression", "{% for n in [[1]] recursive %}{% if n is sequence %}{% set r = loop(n) %}{{ r }}{% else %}<b>{{ v }}</b>{% endif %}{% endfor %}", direct.clone()),
            ("recursive_loop_filtered", "{% for n in [[1]] recursive %}{% if n is sequence %}{{ loop(n)|trim }}{% else %}<b>{{ v }}</b>{% endif %}{% endfor %}", direct.clone()),
            ("filter_block", "{% filter upper %}<b>{{ v }}</b>{% endfilter %}", direct.to_uppercase()),
            ("set_block_is_safe", "{% set x %}<b>{% endset %}{{ x is safe }}", "True".to_string()),
        ];
        for (name, src, want) in cases {
            let r = env.render_named_str("page.html", src, context! { v => lt });
            let (ok, detail) = match r {
                Ok(s) => (s == want, format!("{} renders {:?}, the text printed directly is {:?}", src, s, want)),
                Err(e) => (false, format!("render failed: {}", e)),
            };
            out.push(serde_json::json!({"scenario": format!("capture_{}", name), "check": "capture_mode", "ok": ok, "detail": detail}));
        }
        {
            let mut env = Environment::new();
            env.add_template("base.html", "{% block b %}<b>{{ v }}</b>{% endblock %}").unwrap();
            env.add_template("child.html", "{% extends 'base.html' %}{% block b %}{% set s = super() %}{{ s }}{% endblock %}").unwrap();
            let r = env.get_template("child.html").unwrap().render(context! { v => lt });
            let (ok, detail) = match r {
                Ok(s) => (s == direct, format!("super() held in a variable and printed renders {:?}, the parent block alone renders {:?}", s, direct)),
                Err(e) => (false, format!("render failed: {}", e)),
            };
            out.push(serde_json::json!({"scenario": "capture_super_in_variable", "check": "capture_mode", "ok": ok, "detail": detail}));
        }
        let plain: Vec<(&str, &str, &str)> = vec![
            ("text_set_block", "{% set x %}<b>{{ v }}</b>{% endset %}{{ x }}|{{ x is safe }}", "<b><i>'\"&</b>|False"),
            ("text_macro_result", "{% macro m(a) %}<b>{{ a }}</b>{% endmacro %}{{ m(v) }}|{{ m(v) is safe }}", "<b><i>'\"&</b>|False"),
        ];
        for (name, src, want) in plain {
            let r = env.render_named_str("page.txt", src, context! { v => lt });
            let (ok, detail) = match r {
                Ok(s) => (s == want, format!("without auto-escaping {} renders {:?}, expected {:?}", src, s, want)),
                Err(e) => (false, format!("render failed: {}", e)),
            };
            out.push(serde_json::json!({"scenario": format!("capture_{}", name), "check": "capture_mode", "ok": ok, "detail": detail}));
        }
    }
    // ---- {% set %} blocks where the surrounding output is thrown away (imported module, extending child):
    //      the block's text is still captured
    {
        let mut env = Environment::new();
        env.add_template("m", "{% set w %}MW{% endset %}{% macro a() %}A{% endmacro %}").unwrap();
        env.add_template("base", "[{% block b %}B{% endblock %}]").unwrap();
        env.add_template("child", "{% extends 'base' %}{% set t %}T{% endset %}{% block b %}{{ t }}{% endblock %}").unwrap();
        let cases: Vec<(&str, &str, &str)> = vec![
            ("from_import_set_block", "{% from 'm' import w %}[{{ w }}]", "[MW]"),
            ("import_module_set_block", "{% import 'm' as mod %}[{{ mod.w }}]", "[MW]"),
            ("set_block_at_top_level", "{% set w %}X{% endset %}[{{ w }}]", "[X]"),
        ];
        for (name, src, want) in cases {
            let r = env.render_str(src, ());
            let (ok, detail) = match r {
                Ok(s) => (s == want, format!("{} renders {:?}, expected {:?}", src, s, want)),
                Err(e) => (false, format!("render failed: {}", e)),
            };
            out.push(serde_json::json!({"scenario": format!("begin_capture_{}", name), "check": "begin_capture_mode", "ok": ok, "detail": detail}));
        }
        let r = env.get_template("child").unwrap().render(());
        let (ok, detail) = match r {
            Ok(s) => (s == "[T]", format!("a set block at the top level of an extending template, read in a block, renders {:?}, expected \"[T]\"", s)),
            Err(e) => (false, format!("render failed: {}", e)),
        };
        out.push(serde_json::json!({"scenario": "begin_capture_set_block_in_extending_child", "check": "begin_capture_mode", "ok": ok, "detail": detail}));
    }
    // ---- the code generator's per-thread buffer pools carry nothing into the next compilation: a template that is
    //      compiled again after an unrelated one came and went fails with the same located error
    {
        const FAILING: &str = "{% autoescape 'bogus' %}x{% endautoescape %}";
        const BYSTANDER: &str = "{% set ns = namespace() %}{% set ns.value = 1 %}{% if a %}{% for x in a %}{{ x }}{% endfor %}{% endif %}ok";
        let mut env = Environment::new();
        env.set_debug(true);
        env.add_template("failing", FAILING).unwrap();
        let e0 = env.get_template("failing").unwrap().render(()).unwrap_err();
        let before = (format!("{:?}", e0.kind()), e0.line(), e0.range());
        env.add_template("bystander", BYSTANDER).unwrap();
        let _ = env.get_template("bystander").unwrap().render(());
        env.remove_template("bystander");
        env.remove_template("failing");
        env.add_template("failing", FAILING).unwrap();
        let e1 = env.get_template("failing").unwrap().render(()).unwrap_err();
        let after = (format!("{:?}", e1.kind()), e1.line(), e1.range());
        out.push(serde_json::json!({"scenario": "recompiled_template_after_unrelated_one", "check": "pool_buffers", "ok": before == after,
            "detail": format!("error of the failing template before {:?} and after an unrelated template (with an attribute assignment) was compiled and removed {:?}", before, after)}));
    }
    // ---- render states are told apart process-wide: a macro value that left render A (on one thread) cannot be
    //      run inside render B (on another thread) - it is refused, it does not see B's data
    {
        let mut env = Environment::new();
        env.add_template("t", "{% macro who_am_i() %}[{{ who }}]{% endmacro %}{{ who_am_i() }}").unwrap();
        let env = &env;
        let result = std::thread::scope(|s| {
            let macro_of_a: Value = s.spawn(move || {
                let captured = env.get_template("t").unwrap().render_captured(context! { who => "A" }).unwrap();
                captured.state().lookup("who_am_i").unwrap()
            }).join().unwrap();
            s.spawn(move || {
                let mut captured = env.get_template("t").unwrap().render_captured(context! { who => "B" }).unwrap();
                captured.with_state_mut(|state| macro_of_a.call(state, &[])).map(|v| v.to_string()).map_err(|e| format!("{:?}", e.kind()))
            }).join().unwrap()
        });
        out.push(serde_json::json!({"scenario": "macro_of_another_threads_render", "check": "state_ids", "ok": result.is_err(),
            "detail": format!("a macro created by render A on one thread, called through the state of render B on another thread: {:?} (an error is expected)", result)}));
    }
    // ---- fuel: straight-line templates; the caller compares `consumed` with the number of charged instructions
    for (name, src) in [
        ("fuel_text_and_prints", "a{{ x }}b{{ y }}c"),
        ("fuel_expression", "{{ (1 + 2) * 3 ~ 'z' }}"),
        ("fuel_with_and_set", "{% with q = 1 %}{% set r = q %}{{ r }}{% endwith %}"),
    ] {
        let mut env = Environment::new();
        env.set_fuel(Some(1_000_000));
        let tmpl = env.template_from_str(src).unwrap();
        let r = tmpl.render_captured(minijinja::context! { x => "X", y => "Y" });
        let consumed = match r {
            Ok(c) => c.state().fuel_levels().map(|l| l.0 as i64).unwrap_or(-1),
            Err(_) => -2,
        };
        out.push(serde_json::json!({"scenario": name, "check": "fuel_charged_once", "ok": true, "src": src, "consumed": consumed, "detail": ""}));
    }
    // ---- fuel: contexts in which nothing is written, and the exact threshold of a loop that is left early
    {
        let mut env = Environment::new();
        env.set_fuel(Some(2));
        let r = env.compile_expression("a + a + a + a").unwrap().eval(context! { a => 1 });
        let ok = matches!(&r, Err(e) if e.kind() == ErrorKind::OutOfFuel);
        out.push(serde_json::json!({"scenario": "fuel_expression_eval_is_metered", "check": "fuel_charged_once", "ok": ok, "native_verdict": true,
            "detail": format!("a 7-instruction expression evaluated under a budget of 2: {:?}", r.map(|v| v.to_string()).map_err(|e| format!("{:?}", e.kind())))}));
        let mut env = Environment::new();
        env.set_fuel(Some(30));
        env.add_template("base", "{% block b %}B{% endblock %}").unwrap();
        env.add_template("child", "{% extends 'base' %}{% for i in range(60) %}{% set x = i %}{% endfor %}").unwrap();
        let r = env.get_template("child").unwrap().render(());
        let ok = matches!(&r, Err(e) if e.kind() == ErrorKind::OutOfFuel);
        out.push(serde_json::json!({"scenario": "fuel_extends_preamble_is_metered", "check": "fuel_charged_once", "ok": ok, "native_verdict": true,
            "detail": format!("60 loop iterations at the top level of an extending template under a budget of 30: {:?}", r.map_err(|e| format!("{:?}", e.kind())))}));
        let src = "{% for i in range(1000) %}{{ i }}{% if i == 3 %}{% break %}{% endif %}{% endfor %}";
        let mut env = Environment::new();
        env.set_fuel(Some(1_000_000));
        let c = env.template_from_str(src).unwrap().render_captured(()).map(|c| c.state().fuel_levels().map(|l| l.0).unwrap_or(0)).unwrap_or(0);
        let mut results = Vec::new();
        for b in [c, c + 1] {
            let mut env = Environment::new();
            env.set_fuel(Some(b));
            results.push(env.render_str(src, ()).is_ok());
        }
        let ok = c > 0 && results == vec![false, true];
        out.push(serde_json::json!({"scenario": "fuel_threshold_of_loop_with_break", "check": "fuel_charged_once", "ok": ok, "native_verdict": true,
            "detail": format!("consumption {}; render under budget {} ok={}, under budget {} ok={} (expected false, true)", c, c, results[0], c + 1, results[1])}));
    }
    for o in out {
        println!("{}", o);
    }
}
