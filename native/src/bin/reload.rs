//! Native replay helper for engine M's auto-reloader checks (C20): two threaded scenarios with forced timing.
//!  * concurrent_first_acquire: two threads call acquire_env() for the first time while the creator is slow -
//!    the creator must run once (acquirers are serialised by the cache lock, which is held while it runs);
//!  * request_while_freshness_callback_runs: a request_reload() issued while another thread sits in the
//!    (slow) freshness callback - i.e. while the notifier is locked - must not be lost: the next acquire_env()
//!    after it returned rebuilds.
//! Prints one JSON line per scenario {"scenario":..,"ok":bool,"detail":..}.
use minijinja::Environment;
use minijinja_autoreload::AutoReloader;
use std::sync::atomic::{AtomicBool, AtomicUsize, Ordering};
use std::sync::Arc;
use std::thread;
use std::time::Duration;

fn main() {
    // ---- 1
    {
        let created = Arc::new(AtomicUsize::new(0));
        let c = created.clone();
        let reloader = Arc::new(AutoReloader::new(move |_notifier| {
            c.fetch_add(1, Ordering::SeqCst);
            thread::sleep(Duration::from_millis(200));
            Ok(Environment::new())
        }));
        let r1 = reloader.clone();
        let t1 = thread::spawn(move || {
            let _g = r1.acquire_env().unwrap();
        });
        thread::sleep(Duration::from_millis(50));
        let r2 = reloader.clone();
        let t2 = thread::spawn(move || {
            let _g = r2.acquire_env().unwrap();
        });
        t1.join().unwrap();
        t2.join().unwrap();
        let n = created.load(Ordering::SeqCst);
        println!("{}", serde_json::json!({"scenario": "concurrent_first_acquire", "check": "lock_held_at_creator", "ok": n == 1,
            "detail": format!("creator ran {} time(s) for two overlapping first acquires without any request", n)}));
    }
    // ---- 2
    {
        let created = Arc::new(AtomicUsize::new(0));
        let slow = Arc::new(AtomicBool::new(false));
        let c = created.clone();
        let s = slow.clone();
        let reloader = Arc::new(AutoReloader::new(move |notifier| {
            c.fetch_add(1, Ordering::SeqCst);
            let s2 = s.clone();
            notifier.set_callback(move || {
                if s2.load(Ordering::SeqCst) {
                    thread::sleep(Duration::from_millis(300));
                }
                false
            });
            Ok(Environment::new())
        }));
        drop(reloader.acquire_env().unwrap());
        slow.store(true, Ordering::SeqCst);
        let r1 = reloader.clone();
        // thread A polls freshness: sits in the callback for 300 ms with the notifier locked
        let ta = thread::spawn(move || {
            drop(r1.acquire_env().unwrap());
        });
        thread::sleep(Duration::from_millis(80));
        let notifier = reloader.notifier();
        notifier.request_reload(); // returns only after the flag is set
        ta.join().unwrap();
        slow.store(false, Ordering::SeqCst);
        drop(reloader.acquire_env().unwrap());
        let n = created.load(Ordering::SeqCst);
        println!("{}", serde_json::json!({"scenario": "request_while_freshness_callback_runs", "check": "request_sets_flag", "ok": n >= 2,
            "detail": format!("creator ran {} time(s); a request issued while the freshness callback was running must lead to a rebuild", n)}));
    }
}
