//! Native replay helper for engine M's auto-reloader checks (C20): two threaded scenarios.  The interleaving is
//! forced with explicit hand-shakes (a thread announces that it is inside the creator / the freshness callback
//! and stays there until it is released), so the verdict does not depend on scheduling speed.
//!  * concurrent_first_acquire: a second acquire_env() starts while the first one is inside the creator - the
//!    creator must run once (acquirers are serialised by the cache lock, which is held while it runs);
//!  * request_while_freshness_callback_runs: request_reload() is called while another thread sits in the
//!    freshness callback - i.e. while the notifier is locked; once it has returned, the next acquire_env() rebuilds.
//! Prints one JSON line per scenario {"scenario":..,"check":..,"ok":bool,"detail":..}.
use minijinja::Environment;
use minijinja_autoreload::AutoReloader;
use std::sync::atomic::{AtomicBool, AtomicUsize, Ordering};
use std::sync::Arc;
use std::thread;
use std::time::{Duration, Instant};

fn wait_until(flag: &AtomicBool, max: Duration) -> bool {
    let t0 = Instant::now();
    while !flag.load(Ordering::SeqCst) {
        if t0.elapsed() > max {
            return false;
        }
        thread::sleep(Duration::from_millis(2));
    }
    true
}

fn wait_count(n: &AtomicUsize, at_least: usize, max: Duration) -> bool {
    let t0 = Instant::now();
    while n.load(Ordering::SeqCst) < at_least {
        if t0.elapsed() > max {
            return false;
        }
        thread::sleep(Duration::from_millis(2));
    }
    true
}

fn main() {
    // ---- 1
    {
        let created = Arc::new(AtomicUsize::new(0));
        let release = Arc::new(AtomicBool::new(false));
        let (c, r) = (created.clone(), release.clone());
        let reloader = Arc::new(AutoReloader::new(move |_notifier| {
            c.fetch_add(1, Ordering::SeqCst);
            // stay inside the creator until released (at most 5 s)
            wait_until(&r, Duration::from_secs(5));
            Ok(Environment::new())
        }));
        let r1 = reloader.clone();
        let t1 = thread::spawn(move || {
            let _g = r1.acquire_env().unwrap();
        });
        // the first acquirer is inside the creator now
        let entered = wait_count(&created, 1, Duration::from_secs(5));
        let r2 = reloader.clone();
        let t2 = thread::spawn(move || {
            let _g = r2.acquire_env().unwrap();
        });
        // give the second acquirer the chance to (wrongly) enter the creator as well
        wait_count(&created, 2, Duration::from_millis(400));
        release.store(true, Ordering::SeqCst);
        t1.join().unwrap();
        t2.join().unwrap();
        let n = created.load(Ordering::SeqCst);
        println!("{}", serde_json::json!({"scenario": "concurrent_first_acquire", "check": "lock_held_at_creator", "ok": entered && n == 1,
            "detail": format!("creator ran {} time(s) for two overlapping first acquires without any request", n)}));
    }
    // ---- 2
    {
        let created = Arc::new(AtomicUsize::new(0));
        let hold = Arc::new(AtomicBool::new(false));
        let inside = Arc::new(AtomicBool::new(false));
        let release = Arc::new(AtomicBool::new(false));
        let c = created.clone();
        let (h, i, r) = (hold.clone(), inside.clone(), release.clone());
        let reloader = Arc::new(AutoReloader::new(move |notifier| {
            c.fetch_add(1, Ordering::SeqCst);
            let (h, i, r) = (h.clone(), i.clone(), r.clone());
            notifier.set_callback(move || {
                if h.load(Ordering::SeqCst) {
                    i.store(true, Ordering::SeqCst);
                    wait_until(&r, Duration::from_secs(5));
                }
                false
            });
            Ok(Environment::new())
        }));
        drop(reloader.acquire_env().unwrap());
        hold.store(true, Ordering::SeqCst);
        let r1 = reloader.clone();
        // thread A polls freshness and stays in the callback (notifier locked) until released
        let ta = thread::spawn(move || {
            drop(r1.acquire_env().unwrap());
        });
        let entered = wait_until(&inside, Duration::from_secs(5));
        let notifier = reloader.notifier();
        let returned = Arc::new(AtomicBool::new(false));
        let ret = returned.clone();
        let tc = thread::spawn(move || {
            notifier.request_reload();
            ret.store(true, Ordering::SeqCst);
        });
        // the request may block on the notifier lock (fine) or return at once; either way release the callback after a moment
        wait_until(&returned, Duration::from_millis(300));
        hold.store(false, Ordering::SeqCst);
        release.store(true, Ordering::SeqCst);
        ta.join().unwrap();
        tc.join().unwrap();
        drop(reloader.acquire_env().unwrap());
        let n = created.load(Ordering::SeqCst);
        println!("{}", serde_json::json!({"scenario": "request_while_freshness_callback_runs", "check": "request_sets_flag", "ok": entered && n >= 2,
            "detail": format!("creator ran {} time(s); a request issued while the freshness callback was running must lead to a rebuild", n)}));
    }
    // ---- 3: the flag is read under the cache lock: an acquirer that was queued behind a held guard while a
    //         request came in and returned must be handed a rebuilt environment
    {
        let created = Arc::new(AtomicUsize::new(0));
        let polls = Arc::new(AtomicUsize::new(0));
        let (c, p) = (created.clone(), polls.clone());
        let reloader = Arc::new(AutoReloader::new(move |notifier| {
            c.fetch_add(1, Ordering::SeqCst);
            let p = p.clone();
            notifier.set_callback(move || {
                p.fetch_add(1, Ordering::SeqCst);
                false
            });
            Ok(Environment::new())
        }));
        let guard = reloader.acquire_env().unwrap();
        let p0 = polls.load(Ordering::SeqCst);
        let r1 = reloader.clone();
        let done = Arc::new(AtomicBool::new(false));
        let d = done.clone();
        let ta = thread::spawn(move || {
            drop(r1.acquire_env().unwrap());
            d.store(true, Ordering::SeqCst);
        });
        // the queued acquirer either blocks on the cache lock (nothing polled) or (wrongly) polls first
        wait_count(&polls, p0 + 1, Duration::from_millis(400));
        let polled_before_lock = polls.load(Ordering::SeqCst) > p0;
        reloader.notifier().request_reload();
        drop(guard);
        ta.join().unwrap();
        let n = created.load(Ordering::SeqCst);
        println!("{}", serde_json::json!({"scenario": "queued_acquirer_after_request", "check": "lock_held_at_creator", "ok": n == 2 && !polled_before_lock,
            "detail": format!("an acquire_env() queued behind a held guard obtained the cache lock after request_reload() had returned: creator ran {} time(s) in total (2 expected), freshness polled before the lock was obtained: {}", n, polled_before_lock)}));
    }
    // ---- 4: a request that is pending before the very first acquire is served by that acquire: the one after it
    //         does not call the creator again
    {
        let created = Arc::new(AtomicUsize::new(0));
        let c = created.clone();
        let reloader = AutoReloader::new(move |_notifier| {
            c.fetch_add(1, Ordering::SeqCst);
            Ok(Environment::new())
        });
        reloader.notifier().request_reload();
        drop(reloader.acquire_env().unwrap());
        drop(reloader.acquire_env().unwrap());
        let n1 = created.load(Ordering::SeqCst);
        reloader.notifier().request_reload();
        drop(reloader.acquire_env().unwrap());
        drop(reloader.acquire_env().unwrap());
        let n2 = created.load(Ordering::SeqCst);
        println!("{}", serde_json::json!({"scenario": "request_before_first_acquire", "check": "flag_discipline", "ok": n1 == 1 && n2 == 2,
            "detail": format!("request, acquire, acquire: creator ran {} time(s) (1 expected); then request, acquire, acquire: {} in total (2 expected)", n1, n2)}));
    }
}
