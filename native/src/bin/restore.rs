//! Native replay helper for engine M (C05/C06): scripted scenarios in which a render state goes through a
//! FAILING nested evaluation (super(), include, block call) and is then used again.  A state that went through
//! the failure must render exactly like a fresh one; an include that finds nothing (ignore missing) must have
//! no effect.  usage: restore            -> one JSON line per scenario {"scenario":..,"function":..,"ok":bool,"detail":..}
use minijinja::{Environment, Error, ErrorKind};
use std::sync::atomic::{AtomicBool, Ordering};

static FAIL: AtomicBool = AtomicBool::new(false);

fn boom() -> Result<&'static str, Error> {
    if FAIL.load(Ordering::SeqCst) {
        Err(Error::new(ErrorKind::InvalidOperation, "boom"))
    } else {
        Ok("ok")
    }
}

fn env_with(templates: &[(&'static str, &'static str)]) -> Environment<'static> {
    let mut env = Environment::new();
    env.add_function("boom", boom);
    for (n, s) in templates {
        env.add_template(n, s).unwrap();
    }
    env
}

/// render `name` (boom succeeds), then on the SAME state: `failures` failing renders of `block`, then one
/// succeeding render; compare with the first render of `block` on a fresh state.
fn rerender_after_failures(env: &Environment<'static>, name: &str, block: &str, failures: usize) -> (bool, String) {
    FAIL.store(false, Ordering::SeqCst);
    let mut fresh = env.get_template(name).unwrap().render_captured(()).unwrap();
    let want = fresh.with_state_mut(|s| s.render_block(block));
    let mut used = env.get_template(name).unwrap().render_captured(()).unwrap();
    FAIL.store(true, Ordering::SeqCst);
    for _ in 0..failures {
        let r = used.with_state_mut(|s| s.render_block(block));
        if r.is_ok() {
            FAIL.store(false, Ordering::SeqCst);
            return (false, "the failing render did not fail".into());
        }
    }
    FAIL.store(false, Ordering::SeqCst);
    let got = used.with_state_mut(|s| s.render_block(block));
    let a = want.map_err(|e| e.to_string());
    let b = got.map_err(|e| e.to_string());
    (a == b, format!("fresh state: {:?}; state after {} failed render(s): {:?}", a, failures, b))
}

fn main() {
    let mut out = Vec::new();
    // --- super(): the parent definition fails
    {
        let env = env_with(&[
            ("base", "{% block b %}B:{{ boom() }}{% endblock %}"),
            ("mid", "{% extends 'base' %}{% block b %}M({{ super() }}){% endblock %}"),
            ("leaf", "{% extends 'mid' %}{% block b %}L[{{ super() }}]{% endblock %}"),
        ]);
        for (n, fails) in [("super_fails_once", 1usize), ("super_fails_60_times", 60)] {
            let (ok, detail) = rerender_after_failures(&env, "leaf", "b", fails);
            out.push(serde_json::json!({"scenario": n, "function": "perform_super", "ok": ok, "detail": detail}));
        }
        // super() captured as a value ({% set %}) instead of printed
        let env = env_with(&[
            ("base", "{% block b %}B:{{ boom() }}{% endblock %}"),
            ("leaf", "{% extends 'base' %}{% block b %}{% set s = super() %}L[{{ s }}]{% endblock %}"),
        ]);
        let (ok, detail) = rerender_after_failures(&env, "leaf", "b", 2);
        out.push(serde_json::json!({"scenario": "captured_super_fails", "function": "perform_super", "ok": ok, "detail": detail}));
    }
    // --- include: the included template fails
    {
        let env = env_with(&[
            ("inc", "I:{{ boom() }}"),
            ("page", "{% set v = 'one' %}{% macro m() %}[{{ v }}]{% endmacro %}{% block b %}{% include 'inc' %}{{ m() }}{% endblock %}"),
        ]);
        for (n, fails) in [("include_fails_once", 1usize), ("include_fails_60_times", 60)] {
            let (ok, detail) = rerender_after_failures(&env, "page", "b", fails);
            out.push(serde_json::json!({"scenario": n, "function": "perform_include", "ok": ok, "detail": detail}));
        }
    }
    // --- include that finds nothing and is ignored: no effect on the including frame (macro closures included)
    {
        FAIL.store(false, Ordering::SeqCst);
        let env = env_with(&[("present", "P")]);
        let with_inc = |inc: &str| {
            format!("{{% set v = 'one' %}}{{% macro m() %}}[{{{{ v }}}}]{{% endmacro %}}{}{{% set v = 'two' %}}{{{{ m() }}}}|{{% with w = 1 %}}{{% macro n() %}}<{{{{ v }}}}>{{% endmacro %}}{}{{% set v = 'three' %}}{{{{ n() }}}}{{% endwith %}}", inc, inc)
        };
        let base = env.render_str(&with_inc(""), ()).map_err(|e| e.to_string());
        for (n, inc) in [
            ("include_missing_ignored", "{% include 'nope' ignore missing %}"),
            ("include_list_all_missing_ignored", "{% include ['nope', 'nada'] ignore missing %}"),
        ] {
            let got = env.render_str(&with_inc(inc), ()).map_err(|e| e.to_string());
            out.push(serde_json::json!({"scenario": n, "function": "perform_include", "ok": got == base,
                "detail": format!("without the include: {:?}; with it: {:?}", base, got)}));
        }
        // the first existing one of a list is rendered, later candidates are not
        let got = env.render_str("{% include ['nope', 'present'] ignore missing %}|{% include ['nope', 'present'] %}", ()).map_err(|e| e.to_string());
        out.push(serde_json::json!({"scenario": "include_list_first_existing", "function": "perform_include", "ok": got == Ok("P|P".to_string()),
            "detail": format!("{:?}", got)}));
    }
    // --- a block call fails
    {
        let env = env_with(&[("page", "{% block b %}X:{{ boom() }}{% endblock %}{% block c %}[{{ self.b() }}]{% endblock %}")]);
        let (ok, detail) = rerender_after_failures(&env, "page", "c", 3);
        out.push(serde_json::json!({"scenario": "block_call_fails", "function": "call_block", "ok": ok, "detail": detail}));
    }
    // --- a macro body fails: the caller's context is back in place afterwards
    {
        let env = env_with(&[("page", "{% macro m() %}X{{ boom() }}{% endmacro %}{% set outer = 'O' %}{% block c %}[{{ outer }}{{ m() }}]{% endblock %}")]);
        for (n, fails) in [("macro_body_fails_once", 1usize), ("macro_body_fails_3_times", 3)] {
            let (ok, detail) = rerender_after_failures(&env, "page", "c", fails);
            out.push(serde_json::json!({"scenario": n, "function": "eval_macro", "ok": ok, "detail": detail}));
        }
        let env = env_with(&[("page", "{% macro m() %}{{ caller() }}{% endmacro %}{% set outer = 'O' %}{% block c %}[{{ outer }}{% call m() %}{{ boom() }}{% endcall %}]{% endblock %}")]);
        let (ok, detail) = rerender_after_failures(&env, "page", "c", 2);
        out.push(serde_json::json!({"scenario": "call_block_body_fails", "function": "eval_macro", "ok": ok, "detail": detail}));
    }
    // --- an included template runs with ITS OWN block table and loaded-template set, also when it defines no block itself
    {
        FAIL.store(false, Ordering::SeqCst);
        let env = env_with(&[
            ("card", "{% block body %}CARD{% endblock %}"),
            ("alias", "{% extends 'card' %}"),
            ("page", "{% block body %}PAGE[{% include 'alias' %}]{% endblock %}"),
            ("list", "{% for i in [1, 2, 3] %}{% include 'alias' %}{% endfor %}"),
        ]);
        for (n, t, want) in [("include_of_blockless_extending_template", "page", "PAGE[CARD]"), ("same_include_repeated_in_a_loop", "list", "CARDCARDCARD")] {
            let got = env.get_template(t).unwrap().render(()).map_err(|e| e.to_string());
            out.push(serde_json::json!({"scenario": n, "function": "with_execution_state", "ok": got == Ok(want.to_string()),
                "detail": format!("rendered {:?}, expected {:?}", got, want)}));
        }
        // many missing candidates in one render must not use up the recursion budget
        let env = env_with(&[("present", "P"), ("rows", "{% for i in range(70) %}{% include ['nope', 'present'] %}{% endfor %}")]);
        let got = env.get_template("rows").unwrap().render(()).map_err(|e| e.to_string());
        out.push(serde_json::json!({"scenario": "seventy_includes_with_a_missing_first_candidate", "function": "perform_include", "ok": got == Ok("P".repeat(70)),
            "detail": format!("rendered {:?}", got.map(|s| s.len()))}));
    }
    // --- name resolution inside a macro: the frame's own assignments shadow the enclosed variable
    {
        FAIL.store(false, Ordering::SeqCst);
        let env = env_with(&[]);
        for (n, src, want) in [
            ("macro_local_shadows_closure", "{% set v = 'outer' %}{% macro m() %}{% set v = 'inner' %}[{{ v }}]{% endmacro %}{{ m() }}|{{ v }}", "[inner]|outer"),
            ("loop_variable_shadows_closure", "{% set x = 'outer' %}{% macro m() %}{% for x in [1, 2] %}{{ x }}{% endfor %}{{ x }}{% endmacro %}{{ m() }}", "12outer"),
            ("macro_argument_shadows_closure", "{% set a = 'outer' %}{% macro m(a) %}{{ a }}{% endmacro %}{{ m('arg') }}", "arg"),
            // the colliding name gets into the closure when it is assigned after a macro with a free variable was declared
            ("argument_shadows_variable_assigned_after_declaration",
             "{% set sep = '/' %}{% macro m(x) %}[{{ x }}{{ sep }}]{% endmacro %}{% set x = 'outer' %}{{ m('arg') }}{{ m(x='kw') }}|{{ x }}", "[arg/][kw/]|outer"),
            // ... or when it is a free variable of a sibling macro
            ("argument_shadows_variable_enclosed_by_sibling",
             "{% set x = 'outer' %}{% macro show() %}<{{ x }}>{% endmacro %}{% macro m(x) %}[{{ x }}]{% endmacro %}{{ show() }}{{ m('arg') }}", "<outer>[arg]"),
            ("set_in_macro_shadows_enclosed_variable",
             "{% set sep = '/' %}{% macro m() %}{% set v = 'inner' %}[{{ v }}{{ sep }}]{% endmacro %}{% set v = 'outer' %}{{ m() }}|{{ v }}", "[inner/]|outer"),
        ] {
            let got = env.render_str(src, ()).map_err(|e| e.to_string());
            out.push(serde_json::json!({"scenario": n, "function": "context_load", "ok": got == Ok(want.to_string()),
                "detail": format!("rendered {:?}, expected {:?}", got, want)}));
        }
    }
    for o in out {
        println!("{}", o);
    }
}
