//! Engine S helper: measures native stack bytes and recursion-limit units consumed per recursion level
//! of each run-time recursion edge on the REAL engine, and replays a recursion on a thread with a given
//! stack size.
//!   stack measure <kind> <limit>            -> {"kind":..,"limit":..,"levels":N,"bytes_per_level":B,"error":".."}
//!   stack run <kind> <limit> <stack_bytes>  -> prints "ok: <error text>" if the render ended with an error
//!                                              value; the process dies (SIGSEGV/abort) on stack overflow
//! kinds: macro, callblock, include, import_macro, block, macro_include, import_cycle, include_discarded,
//!        include_after_partial, macro_after_partial, loop_recursive
use minijinja::{Environment, Error, State};
use std::sync::Mutex;

static ADDRS: Mutex<Vec<usize>> = Mutex::new(Vec::new());

#[inline(never)]
fn probe(_state: &State) -> Result<String, Error> {
    let marker = 0u8;
    ADDRS.lock().unwrap().push(&marker as *const u8 as usize);
    Ok(String::new())
}

fn env_for(kind: &str, limit: usize) -> (Environment<'static>, &'static str) {
    let mut env = Environment::new();
    env.set_recursion_limit(limit);
    env.add_function("probe", probe);
    let (name, src): (&'static str, &'static str) = match kind {
        "macro" => ("a", "{% macro m() %}{{ probe() }}{{ m() }}{% endmacro %}{{ m() }}"),
        "callblock" => ("a", "{% macro m() %}{{ probe() }}{{ caller() }}{% endmacro %}{% macro r() %}{% call m() %}{{ r() }}{% endcall %}{% endmacro %}{{ r() }}"),
        "include" => ("a", "{{ probe() }}{% include 'a' %}"),
        "block" => ("a", "{% block b %}{{ probe() }}{{ self.b() }}{% endblock %}"),
        "macro_include" => ("a", "{% macro m() %}{{ probe() }}{% include 'a' %}{% endmacro %}{{ m() }}"),
        "import_macro" => ("a", "{% macro m() %}{{ probe() }}{% from 'a' import m as n %}{{ n() }}{% endmacro %}{{ m() }}"),
        // a template importing from itself: the import runs the imported template with output discarded
        "import_cycle" => ("a", "{{ probe() }}{% from 'a' import x %}"),
        // an include cycle entered while output is discarded (after `extends` in a child template)
        "include_discarded" => ("child", "{% extends 'base' %}{% include 'cyc' %}"),
        // every level completes a harmless include before it recurses
        "include_after_partial" => ("a", "{{ probe() }}{% include 'partial' %}{% include 'a' %}"),
        "macro_after_partial" => ("a", "{% macro m() %}{{ probe() }}{% include 'partial' %}{{ m() }}{% endmacro %}{{ m() }}"),
        // a recursive for loop over deeply nested data (the data comes from the render context, see render())
        "loop_recursive" => ("a", "{% for x in t recursive %}{{ probe() }}{{ loop(x.c) }}{% endfor %}"),
        _ => panic!("unknown kind"),
    };
    env.add_template(name, src).unwrap();
    env.add_template("partial", "p").unwrap();
    env.add_template("base", "B{% block b %}{% endblock %}").unwrap();
    env.add_template("cyc", "{{ probe() }}{% include 'cyc' %}").unwrap();
    (env, name)
}

fn render(kind: String, limit: usize) -> String {
    let (env, name) = env_for(&kind, limit);
    let t = env.get_template(name).unwrap();
    // nested data for loop_recursive: 700 levels of {c: [..]}
    let mut node = {
        let mut m = std::collections::BTreeMap::new();
        m.insert("c", minijinja::Value::from(Vec::<minijinja::Value>::new()));
        minijinja::Value::from(m)
    };
    if kind == "loop_recursive" {
        for _ in 0..700 {
            let mut m = std::collections::BTreeMap::new();
            m.insert("c", minijinja::Value::from(vec![node]));
            node = minijinja::Value::from(m);
        }
    }
    let ctx = {
        let mut m = std::collections::BTreeMap::new();
        m.insert("t", minijinja::Value::from(vec![node]));
        minijinja::Value::from(m)
    };
    match t.render(ctx) {
        Ok(_) => "rendered".to_string(),
        Err(e) => {
            let mut msg = format!("{}", e);
            let mut src = std::error::Error::source(&e);
            while let Some(s) = src {
                msg = format!("{}", s);
                src = s.source();
            }
            msg
        }
    }
}

fn main() {
    let args: Vec<String> = std::env::args().collect();
    let kind = args[2].clone();
    let limit: usize = args[3].parse().unwrap();
    match args[1].as_str() {
        "measure" => {
            let k2 = kind.clone();
            let h = std::thread::Builder::new().stack_size(256 << 20).spawn(move || render(k2, limit)).unwrap();
            let err = h.join().unwrap();
            let addrs = ADDRS.lock().unwrap();
            let n = addrs.len();
            let per = if n >= 3 { (addrs[1] as i64 - addrs[n - 1] as i64) / (n as i64 - 2) } else { 0 };
            println!("{{\"kind\":\"{}\",\"limit\":{},\"levels\":{},\"bytes_per_level\":{},\"error\":{:?}}}", kind, limit, n, per, err);
        }
        "run" => {
            let stack: usize = args[4].parse().unwrap();
            let h = std::thread::Builder::new().stack_size(stack).spawn(move || render(kind, limit)).unwrap();
            let err = h.join().unwrap();
            println!("ok: {}", err);
        }
        _ => panic!("usage"),
    }
}
