//! Engine B front end: compiles templates with the REAL lexer/parser/code generator of /repo and
//! dumps every emitted instruction stream (root + blocks) as JSON, together with the result of the
//! real undeclared_variables analysis.
//! stdin : JSON lines {"id":.., "src":..}
//! stdout: JSON lines {"id":.., "instrs":[{"op":..,"arg":..},..], "blocks":{name:[..]}, "undeclared":[..]}
//!                  | {"id":.., "error": "..."}
use minijinja::machinery::{get_compiled_template, Instructions};
use minijinja::Environment;
use std::io::BufRead;

fn dump(instrs: &Instructions<'_>) -> Vec<serde_json::Value> {
    let mut out = Vec::new();
    let mut i = 0u32;
    while let Some(instr) = instrs.get(i) {
        out.push(serde_json::to_value(instr).unwrap_or_else(|_| {
            // constants serde_json cannot represent (e.g. 128-bit integers): keep the opcode
            let dbg = format!("{:?}", instr);
            let op: String = dbg.chars().take_while(|c| c.is_alphanumeric()).collect();
            serde_json::json!({"op": op, "arg": null})
        }));
        i += 1;
    }
    out
}

fn main() {
    let stdin = std::io::stdin();
    for line in stdin.lock().lines() {
        let line = line.unwrap();
        if line.trim().is_empty() {
            continue;
        }
        let req: serde_json::Value = serde_json::from_str(&line).unwrap();
        let id = req["id"].clone();
        let src = req["src"].as_str().unwrap();
        let env = Environment::new();
        let out = match env.template_from_named_str("t.txt", src) {
            Ok(tmpl) => {
                let compiled = get_compiled_template(&tmpl);
                let mut blocks = serde_json::Map::new();
                for (name, instrs) in compiled.blocks.iter() {
                    blocks.insert(name.to_string(), serde_json::Value::Array(dump(instrs)));
                }
                let mut undeclared: Vec<String> = tmpl.undeclared_variables(false).into_iter().collect();
                undeclared.sort();
                serde_json::json!({"id": id, "instrs": dump(&compiled.instructions), "blocks": blocks, "undeclared": undeclared})
            }
            Err(e) => serde_json::json!({"id": id, "error": format!("{:?}: {}", e.kind(), e)}),
        };
        println!("{}", out);
    }
}
