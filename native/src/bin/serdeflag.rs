//! Native replay helper for engine M's "the internal-serialization flag is restored on the unwind path" check
//! (C15: renders do not influence each other; a failing conversion leaves no thread-local residue).
//! A `Serialize` impl panics inside `Value::from_serialize`; the panic is contained; afterwards the thread must
//! not be in "serializing for a value" mode and `tojson` of ordinary data must still emit JSON.
use minijinja::{context, Environment, Value};
use serde::ser::{Serialize, Serializer};
use std::panic::{catch_unwind, AssertUnwindSafe};

struct Bomb;
impl Serialize for Bomb {
    fn serialize<S: Serializer>(&self, _s: S) -> Result<S::Ok, S::Error> {
        panic!("boom");
    }
}

fn main() {
    std::panic::set_hook(Box::new(|_| {}));
    let env = Environment::new();
    let before = env
        .render_str("{{ v|tojson }}", context! { v => Value::from(minijinja::value::Serde(vec![1, 2])) })
        .map_err(|e| e.to_string());
    let r = catch_unwind(AssertUnwindSafe(|| Value::from(minijinja::value::Serde(Bomb))));
    let flag_after = minijinja::value::serializing_for_value();
    let after = env
        .render_str("{{ v|tojson }}", context! { v => Value::from(minijinja::value::Serde(vec![1, 2])) })
        .map_err(|e| e.to_string());
    let ok = r.is_err() && !flag_after && before == after;
    println!(
        "{}",
        serde_json::json!({"scenario": "panicking_serialize_contained", "check": "flag_restored_on_unwind", "ok": ok,
            "detail": format!("serializing_for_value() after the contained panic: {}; tojson before {:?} / after {:?}", flag_after, before, after)})
    );
}
