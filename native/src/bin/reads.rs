//! Native replay helper for C18: renders a template with a context object that records every
//! top-level key the engine asks it for.
//! stdin : JSON lines {"src":.., "ctx":{..}}
//! stdout: {"reads":[..], "undeclared":[..], "globals":[..], "result": "ok"|"err: .."|"panic"}
use minijinja::value::{Enumerator, Object, Value};
use minijinja::Environment;
use std::collections::BTreeSet;
use std::io::BufRead;
use std::panic::{catch_unwind, AssertUnwindSafe};
use std::sync::{Arc, Mutex};

#[derive(Debug)]
struct Recorder {
    inner: Value,
    seen: Arc<Mutex<BTreeSet<String>>>,
}

impl Object for Recorder {
    fn get_value(self: &Arc<Self>, key: &Value) -> Option<Value> {
        if let Some(k) = key.as_str() {
            self.seen.lock().unwrap().insert(k.to_string());
        }
        self.inner.get_item(key).ok().filter(|v| !v.is_undefined())
    }
    fn enumerate(self: &Arc<Self>) -> Enumerator {
        Enumerator::NonEnumerable
    }
}

fn main() {
    std::panic::set_hook(Box::new(|_| {}));
    let stdin = std::io::stdin();
    for line in stdin.lock().lines() {
        let line = line.unwrap();
        if line.trim().is_empty() {
            continue;
        }
        let req: serde_json::Value = serde_json::from_str(&line).unwrap();
        let src = req["src"].as_str().unwrap().to_string();
        let inner = Value::from(minijinja::value::Serde(&req["ctx"]));
        let seen = Arc::new(Mutex::new(BTreeSet::new()));
        let mut env = Environment::new();
        env.set_fuel(Some(1_000_000));
        let mut undeclared: Vec<String> = Vec::new();
        let globals: Vec<String> = env.globals().map(|(k, _)| k.to_string()).collect();
        let r = catch_unwind(AssertUnwindSafe(|| {
            let t = env.template_from_named_str("t.txt", &src)?;
            undeclared = t.undeclared_variables(false).into_iter().collect();
            let ctx = Value::from_object(Recorder { inner: inner.clone(), seen: seen.clone() });
            t.render(ctx)
        }));
        let result = match r {
            Ok(Ok(_)) => "ok".to_string(),
            Ok(Err(e)) => format!("err: {:?}", e.kind()),
            Err(_) => "panic".to_string(),
        };
        undeclared.sort();
        let reads: Vec<String> = seen.lock().unwrap().iter().cloned().collect();
        println!("{}", serde_json::json!({"reads": reads, "undeclared": undeclared, "globals": globals, "result": result}));
    }
}
