//! Native replay helper: reads JSON lines {"src":..., "ctx":{...}, "name":opt, "fuel":opt, "templates":opt {name: src}, "syntax":opt {"block":[s,e],"variable":[s,e],"comment":[s,e]}}
//! from stdin, renders each with the real engine and prints one JSON line per input:
//! {"ok":"<output>"} | {"err":"<kind>: <msg>"} | {"panic":"<msg>"}.
use minijinja::{Environment, Value};
use std::io::BufRead;
use std::panic::{catch_unwind, AssertUnwindSafe};

fn main() {
    std::panic::set_hook(Box::new(|_| {}));
    let stdin = std::io::stdin();
    for line in stdin.lock().lines() {
        let line = line.unwrap();
        if line.trim().is_empty() {
            continue;
        }
        let req: serde_json::Value = serde_json::from_str(&line).unwrap();
        let src = req["src"].as_str().unwrap().to_string();
        let ctx = Value::from(minijinja::value::Serde(&req["ctx"]));
        let name = req["name"].as_str().unwrap_or("t.txt").to_string();
        let fuel = req["fuel"].as_u64();
        let r = catch_unwind(AssertUnwindSafe(|| {
            let mut env = Environment::new();
            env.set_fuel(Some(fuel.unwrap_or(1_000_000)));
            match req["undefined"].as_str() {
                Some("chainable") => env.set_undefined_behavior(minijinja::UndefinedBehavior::Chainable),
                Some("semi_strict") => env.set_undefined_behavior(minijinja::UndefinedBehavior::SemiStrict),
                Some("strict") => env.set_undefined_behavior(minijinja::UndefinedBehavior::Strict),
                _ => {}
            }
            if let Some(b) = req["trim_blocks"].as_bool() {
                env.set_trim_blocks(b);
            }
            if let Some(b) = req["lstrip_blocks"].as_bool() {
                env.set_lstrip_blocks(b);
            }
            if let Some(sy) = req["syntax"].as_object() {
                // custom delimiters: {"block": [start, end], "variable": [start, end], "comment": [start, end]}
                let pair = |k: &str, d: (&str, &str)| -> (String, String) {
                    match sy.get(k).and_then(|v| v.as_array()) {
                        Some(a) if a.len() == 2 => (a[0].as_str().unwrap_or(d.0).to_string(), a[1].as_str().unwrap_or(d.1).to_string()),
                        _ => (d.0.to_string(), d.1.to_string()),
                    }
                };
                let (bs, be) = pair("block", ("{%", "%}"));
                let (vs, ve) = pair("variable", ("{{", "}}"));
                let (cs, ce) = pair("comment", ("{#", "#}"));
                let cfg = minijinja::syntax::SyntaxConfig::builder()
                    .block_delimiters(bs, be)
                    .variable_delimiters(vs, ve)
                    .comment_delimiters(cs, ce)
                    .build()?;
                env.set_syntax(cfg);
            }
            if let Some(extra) = req["templates"].as_object() {
                // companion templates (engine B's multi-template families)
                for (n, s) in extra {
                    env.add_template_owned(n.clone(), s.as_str().unwrap_or("").to_string())?;
                }
            }
            env.add_template_owned(name.clone(), src.clone())?;
            let t = env.get_template(&name)?;
            t.render(ctx.clone())
        }));
        let out = match r {
            Ok(Ok(s)) => serde_json::json!({ "ok": s }),
            Ok(Err(e)) => {
                let range = e.range();
                let valid = range.clone().map(|r| src.get(r).is_some());
                serde_json::json!({ "err": format!("{:?}: {}", e.kind(), e), "line": e.line(),
                    "range": range.map(|r| vec![r.start, r.end]), "range_valid": valid, "src_len": src.len() })
            }
            Err(p) => {
                let msg = p
                    .downcast_ref::<String>()
                    .cloned()
                    .or_else(|| p.downcast_ref::<&str>().map(|s| s.to_string()))
                    .unwrap_or_else(|| "?".into());
                serde_json::json!({ "panic": msg })
            }
        };
        println!("{}", out);
    }
}
