//! Native replay helper for engine L (C15): reads JSON lines
//!   {"loader": {"name": "source", ...} | null, "ops": [{"op": "add_borrowed"|"add_owned"|"remove"|"clear"|"get"|"set_loader", "name":.., "source":.., "loader": {...}}, ...]}
//! executes the history on a real `Environment` and prints one JSON line per history:
//!   {"steps": [{"result": "ok"|"err", "served": {"<name>": "<source>"|null, ...}}, ...]}
//! `served` is what `get_template(name)` hands out for each of the probe names AFTER the step, observed on a
//! clone of the environment (so that the observation itself does not populate the loader cache of the
//! environment under test).  A loader is a closure over a shared map that `set_loader`-style steps replace
//! ("the file on disk changed").
use minijinja::Environment;
use std::collections::BTreeMap;
use std::io::BufRead;
use std::sync::{Arc, Mutex};

fn leak(s: &str) -> &'static str {
    Box::leak(s.to_string().into_boxed_str())
}

fn main() {
    let stdin = std::io::stdin();
    for line in stdin.lock().lines() {
        let line = line.unwrap();
        if line.trim().is_empty() {
            continue;
        }
        let req: serde_json::Value = serde_json::from_str(&line).unwrap();
        let probes: Vec<String> = req["probes"].as_array().unwrap().iter().map(|x| x.as_str().unwrap().to_string()).collect();
        let disk: Arc<Mutex<BTreeMap<String, String>>> = Arc::new(Mutex::new(BTreeMap::new()));
        let mut env = Environment::new();
        if req["with_loader"].as_bool().unwrap_or(false) {
            let d = disk.clone();
            env.set_loader(move |name| Ok(d.lock().unwrap().get(name).cloned()));
        }
        let mut steps = Vec::new();
        for op in req["ops"].as_array().unwrap() {
            let name = op["name"].as_str().unwrap_or("");
            let source = op["source"].as_str().unwrap_or("");
            let result = match op["op"].as_str().unwrap() {
                "add_borrowed" => env.add_template(leak(name), leak(source)).map(|_| ()).is_ok(),
                "add_owned" => env.add_template_owned(name.to_string(), source.to_string()).is_ok(),
                "remove" => {
                    env.remove_template(name);
                    true
                }
                "clear" => {
                    env.clear_templates();
                    true
                }
                "get" => env.get_template(name).is_ok(),
                "disk" => {
                    // the loader's backing store changes: name -> source (or the file goes away)
                    let mut d = disk.lock().unwrap();
                    if op["source"].is_null() {
                        d.remove(name);
                    } else {
                        d.insert(name.to_string(), source.to_string());
                    }
                    true
                }
                other => panic!("unknown op {other}"),
            };
            let mut served = serde_json::Map::new();
            for p in &probes {
                // observe without the loader: only what the store itself holds (explicitly added or cached)
                let present = env.templates().any(|(n, _)| n == p);
                let v = if present {
                    match env.get_template(p) {
                        Ok(t) => serde_json::Value::String(t.source().to_string()),
                        Err(_) => serde_json::Value::Null,
                    }
                } else {
                    serde_json::Value::Null
                };
                served.insert(p.clone(), v);
            }
            steps.push(serde_json::json!({ "result": if result { "ok" } else { "err" }, "served": served }));
        }
        println!("{}", serde_json::json!({ "steps": steps }));
    }
}
